"""C15 - string, regex, formatting and hash functions match independent references.

Monitors (DESIGN.md section 3, C15); each observes the real binary and compares with a
reference written from the documentation on top of Python's str / re / hashlib / base64 / %:
  str   character functions, literal substitution, split/join, format/unformat, digests,
        base64 / hex / latin1 / JSON inverse pairs          (vf/model/strfmt.py)
  re    sub gsub regextract regextract_or_else strmatch strmatchx =~ !=~ with \\0-\\9 captures,
        regex as data and as "..." / "..."i literal, against Python re on the shared RE2 subset
  fmt   fmtnum fmtifnum hexfmt --ofmt format-values against C printf semantics
  verb  wrapping verbs (sub gsub ssub case clean-whitespace unspace format-values
        utf8-to-latin1 latin1-to-utf8) == put applying the function per field (metamorphic);
        subs-law: sub/gsub/ssub verb == function per field == Python reference over a hostile regex pool
  bad   invalid UTF-8 arguments: no crash, a value comes back, strlen >= 0
  doc   the examples printed by `mlr help function ...` and the GENMD blocks of the three
        reference pages, replayed (recorded upstream executions)
Arguments travel as DATA (JSON strings / TSV fields), never spliced into program text,
except where the language requires a literal ("..."i, "\\1" interpolation, verb arguments).
"""
import base64
import hashlib
import json
import os
import random
import re
import shlex
import signal

from .. import run as R
from ..harness import add_violation, bump, case_result
from ..model import strfmt as M
from ..model.strfmt import ABSENT, DECLINE, ERROR

BINARIES = ("mlr-verif",)
LEVEL = "exploration"

DOCS = "/repo/docs/src"


def _h(*xs):
    return hashlib.sha1(repr(xs).encode("utf-8", "surrogatepass")).hexdigest()[:16]


# ==========================================================================================
# carrier: rows of arguments in, one JSON record of results per row out

class Num:
    """A number delivered as a bare JSON token (so mlr infers it from the spelling)."""
    __slots__ = ("text",)

    def __init__(self, text):
        self.text = str(text)

    def __repr__(self):
        return "Num(" + self.text + ")"


class Raw:
    """Raw JSON text (nested collections written by the generator)."""
    __slots__ = ("text",)

    def __init__(self, text):
        self.text = text

    def __repr__(self):
        return "Raw(" + self.text + ")"


def jtok(v):
    if isinstance(v, (Num, Raw)):
        return v.text
    return json.dumps(v, ensure_ascii=False)


def json_rows(rows):
    objs = []
    for r in rows:
        objs.append("{" + ", ".join(json.dumps(k) + ": " + jtok(v) for k, v in r.items()) + "}")
    return "[\n" + ",\n".join(objs) + "\n]\n"


JFLAGS = ["--ijson", "--ojson", "--jvquoteall", "--no-auto-flatten", "--no-auto-unflatten"]


def program(exprs):
    """exprs: list of (name, DSL expression over $a,$b,...). Each result is assigned to
    $r_<name> (absent -> no assignment) and its type recorded in $t_<name>."""
    parts = []
    for name, e in exprs:
        parts.append(f"$r_{name} = {e}; $t_{name} = typeof($r_{name});")
    return "\n".join(parts)


def parse_out(text):
    try:
        v = json.loads(text, strict=False)
    except ValueError:
        return None
    if not isinstance(v, list):
        return None
    return v


def run_mlr(*a, **k):
    """R.mlr, retried once when the process was killed by the hang classifier's own SIGUSR1 (on a loaded
    box the 2 s check-point can arrive before the Go runtime has installed the handler): that is
    the harness, not mlr; a second such death is reported as inconclusive (verdict "slow")."""
    r = R.mlr(*a, **k)
    if r.signal == 10:
        r = R.mlr(*a, **k)
        if r.signal == 10:
            r.verdict = "slow"
    return r


class Fail:
    """A process-level failure isolated to one row."""
    def __init__(self, r):
        self.r = r


def eval_rows(prog, rows, flags=JFLAGS, encode=json_rows, cpu_s=10, pre_args=(), stats=None):
    """Run `mlr <flags> put prog` over the rows; returns a list, one entry per row: the output
    record (dict) or a Fail.  If the process fails as a whole, bisect to isolate the row(s)."""
    out = [None] * len(rows)

    def go(lo, hi, depth):
        sub = rows[lo:hi]
        r = run_mlr(list(pre_args) + list(flags) + ["put", prog], stdin=encode(sub), cpu_s=cpu_s, watchdog=60.0)
        if stats is not None:
            stats["procs"] = stats.get("procs", 0) + 1
        recs = parse_out(r.out) if (r.verdict == "exited" and r.rc == 0 and not r.crashed()) else None
        if recs is not None and len(recs) == len(sub):
            for i, rec in enumerate(recs):
                out[lo + i] = rec
            return
        if hi - lo <= 1:
            out[lo] = Fail(r)
            return
        mid = (lo + hi) // 2
        go(lo, mid, depth + 1)
        go(mid, hi, depth + 1)

    if rows:
        go(0, len(rows), 0)
    return out


def fail_violation(res, f, fn, cls, argv, stdin, what):
    r = f.r
    if r.verdict == "slow":
        res["inconc"] += 1
        return
    if r.verdict in ("cpu", "deadlock", "output-cap"):
        kind = r.verdict
    elif r.verdict == "exited" and r.signal == 9:
        kind = "cpu"             # RLIMIT_CPU hard limit (the Go runtime survives SIGXCPU): CPU budget exhausted
    elif r.crashed():
        kind = "crash"
    elif r.verdict == "exited" and r.rc == 0:
        kind = "output-unparseable"
    else:
        kind = "fatal"
    add_violation(res, {"kind": kind, "fn": fn, "class": cls},
                  f"{what}: {kind} (rc={r.rc} signal={r.signal}) {r.err.strip()[:200]!r}",
                  {"argv": argv, "stdin": stdin, "stderr": r.err[-1500:], "stdout": r.out[:500]})


def got_of(rec, name):
    """(kind, value, type) of result `name` in an output record."""
    t = rec.get("t_" + name)
    if t == "absent" or ("r_" + name) not in rec:
        return ("absent", None, t)
    if t == "error":
        return ("error", rec.get("r_" + name), t)
    return ("value", rec.get("r_" + name), t)


def canon(v):
    """Python value -> the shape --jvquoteall output has (all scalars as strings)."""
    if isinstance(v, bool):
        return "true" if v else "false"
    if isinstance(v, int):
        return str(v)
    if isinstance(v, float):
        return repr(v)
    if isinstance(v, str):
        return v
    if isinstance(v, (list, tuple)):
        return [canon(x) for x in v]
    if isinstance(v, dict):
        return {str(k): canon(x) for k, x in v.items()}
    if v is None:
        return None
    raise TypeError(v)


# a string-valued result is string-typed ("empty" is the type name of the empty string): a function result that
# merely has the right text but comes back int- / float- / boolean-typed (re-inferred) is a different value
STR_TYPES = ("string", "empty")


def agrees(exp, got):
    """exp: model value / ABSENT / ERROR.  got: (kind, value, type)."""
    kind, val, t = got
    if exp is ABSENT:
        return kind == "absent"
    if exp is ERROR:
        return kind == "error"
    if kind != "value":
        return False
    if isinstance(exp, bool):
        return t in ("boolean", "bool") and val == canon(exp)
    if isinstance(exp, int):
        return t == "int" and val == str(exp)
    if isinstance(exp, str):
        return isinstance(val, str) and val == exp and t in STR_TYPES
    if isinstance(exp, dict):
        if not (isinstance(val, dict) and list(val.keys()) == [str(k) for k in exp.keys()]):
            return False
        return val == canon(exp)
    return val == canon(exp)


def show(exp):
    if exp is ABSENT or exp is ERROR:
        return repr(exp)
    return canon(exp)


def short(v, n=160):
    s = v if isinstance(v, str) else json.dumps(v, ensure_ascii=False) if not isinstance(v, tuple) else repr(v)
    return s if len(s) <= n else s[:n] + f"...({len(s)} chars)"


# ==========================================================================================
# CPU budget for the REFERENCE side: Python's backtracking re can take exponential time on a pattern that Go's
# linear-time engine answers at once; such a row is declined (skipped), never guessed

class _RefBudget(Exception):
    pass


def _ref_budget_handler(signum, frame):
    raise _RefBudget()


def budgeted(res, fn, *args, seconds=3.0, count=True):
    """Run fn(*args) under a CPU-time budget of this process; on overrun count one skipped row. -> finished?"""
    try:
        old = signal.signal(signal.SIGVTALRM, _ref_budget_handler)
    except ValueError:          # not the main thread: no budget available
        fn(*args)
        return True
    signal.setitimer(signal.ITIMER_VIRTUAL, seconds)
    try:
        fn(*args)
        return True
    except _RefBudget:
        res["skipped"] += 1 if count else 0
        bump(res, "skipped:reference-regex-cpu-budget")
        return False
    finally:
        signal.setitimer(signal.ITIMER_VIRTUAL, 0)
        signal.signal(signal.SIGVTALRM, old)


# ==========================================================================================
# string pools

ASCII_PIECES = ["a", "b", "c", "hello", "World", "x1", "12", "3.5", "-7", " ", "  ", "\t", "-", "_", ".", ",", ";", "=",
                "\"", "\\", "'", "{}", "%d", "$1", "\\1", "&", "<", "/", "A", "Z", "z", "0x1F", "|", "*", "(", ")", "[", "^"]
MB_PIECES = ["\u00e9", "\u00f6", "\u00f1", "\u00fc", "\u00c9", "\u00d6", "\u00ff", "\u00e0", "\u03b1", "\u03b2", "\u03a9",
             "\u0434", "\u0416", "\u65e5\u672c", "\u8a9e", "\ud55c", "\U0001d11e", "\U0001f600",
             "\U0001f469\u200d\U0001f469\u200d\U0001f467", "e\u0301", "n\u0303", "\u05e9\u05dc\u05d5\u05dd",
             "\u0645\u0631\u062d\u0628\u0627", "\u20ac", "\u2014", "\u01c6", "\u00df", "\u03a3", "\u10d0", "\u24d0",
             "\ufb01", "\u0100", "\u0151"]
ODD_PIECES = ["\u00a0", "\u2003", "\n", "\r", "\x01", "\x7f", "\u200b", "\ufeff", "\u0085"]
LATIN1_PIECES = ["é", "ö", "ñ", "ü", "É", "ÿ", "à", "ß", "¿", "£", " ", "±", "þ", "\u0080", "\u009f"]


def rand_string(rng, kind=None, maxlen=10):
    kind = kind or rng.choice(["ascii", "mixed", "mixed", "mixed", "mb", "latin1", "odd", "empty", "one", "ws", "long"])
    if kind == "empty":
        return ""
    if kind == "one":
        return rng.choice(ASCII_PIECES + MB_PIECES)[:1] if rng.random() < 0.5 else rng.choice(MB_PIECES)
    if kind == "ascii":
        return "".join(rng.choice(ASCII_PIECES) for _ in range(rng.randint(1, maxlen)))
    if kind == "mb":
        return "".join(rng.choice(MB_PIECES) for _ in range(rng.randint(1, maxlen)))
    if kind == "latin1":
        return "".join(rng.choice(LATIN1_PIECES + ["a", "b", " ", "1"]) for _ in range(rng.randint(1, maxlen)))
    if kind == "odd":
        return "".join(rng.choice(ASCII_PIECES + MB_PIECES + ODD_PIECES * 3) for _ in range(rng.randint(1, maxlen)))
    if kind == "ws":
        core = "".join(rng.choice(["a", "é", "b c", "  ", " ", "\t", "日", "x"]) for _ in range(rng.randint(0, 6)))
        return rng.choice(["", " ", "  ", "\t", " \t "]) + core + rng.choice(["", " ", "   ", "\t", "\t "])
    if kind == "long":
        unit = rng.choice(["ab", "aé日😀", "é", "x y ", "😀"])
        return (unit * (10000 // len(unit) + 1))[:rng.choice([4096, 10000, 10001])]
    return "".join(rng.choice(ASCII_PIECES + MB_PIECES + MB_PIECES) for _ in range(rng.randint(1, maxlen)))


def has_mb(s):
    return any(ord(c) > 127 for c in s)


def idx_pool(rng, n):
    pool = [-n - 1, -n, -1, 0, 1, n, n + 1, 2 * n, 2, n - 1, -2, -n + 1, n // 2]
    if rng.random() < 0.3:
        return rng.randint(-n - 3, n + 3)
    return rng.choice(pool)


def strictly_inside(n, *idxs):
    """does some index fall strictly inside the string (not at/over an end)"""
    for i in idxs:
        j = i + n + 1 if i < 0 else i
        if 1 < j < n:
            return True
    return False


# ==========================================================================================
# (str) character functions, literal substitution, split/join, format, digests, inverse pairs

def _latin1_only(s):
    return all(ord(c) < 256 for c in s)


def _m_latin1_hex(s):
    if not _latin1_only(s):
        return DECLINE       # "Tries to convert": what happens outside Latin-1 is not defined
    return s.encode("latin-1").hex()


def _m_latin1_rt(s):
    return s if _latin1_only(s) else DECLINE


def _m_clean_ws_type(s):
    c = M.clean_whitespace(s)
    if c is DECLINE:
        return DECLINE
    if re.fullmatch(r"-?[1-9][0-9]{0,15}", c):
        return int(c)        # "followed by type inference"
    if M.parse_number(c) is not None or re.fullmatch(r"[-+]?(0x[0-9a-fA-F]+|0b[01]+|0o[0-7]+|[0-9.]+([eE][-+]?[0-9]+)?|inf|nan|infinity)", c, re.I):
        return DECLINE       # other number spellings: which type inference gives is C06's subject
    return c


UNARY = [
    # name, expression, model, check-mode
    ("strlen", "strlen($a)", lambda a: len(a)),
    ("toupper", "toupper($a)", M.toupper),
    ("tolower", "tolower($a)", M.tolower),
    ("capitalize", "capitalize($a)", M.capitalize),
    ("lstrip", "lstrip($a)", M.lstrip),
    ("rstrip", "rstrip($a)", M.rstrip),
    ("strip", "strip($a)", M.strip),
    ("collapse_whitespace", "collapse_whitespace($a)", M.collapse_whitespace),
    ("clean_whitespace", "clean_whitespace($a)", _m_clean_ws_type),
    ("md5", "md5($a)", lambda a: hashlib.md5(a.encode()).hexdigest()),
    ("sha1", "sha1($a)", lambda a: hashlib.sha1(a.encode()).hexdigest()),
    ("sha256", "sha256($a)", lambda a: hashlib.sha256(a.encode()).hexdigest()),
    ("sha512", "sha512($a)", lambda a: hashlib.sha512(a.encode()).hexdigest()),
    ("md5_bytes", "md5(bytes($a))", lambda a: hashlib.md5(a.encode()).hexdigest()),
    ("base64_encode", "base64_encode($a)", lambda a: base64.b64encode(a.encode()).decode()),
    ("hex_encode", "hex_encode($a)", lambda a: a.encode().hex()),
    ("b64_roundtrip", "string(base64_decode(base64_encode($a)))", lambda a: a),
    ("hex_roundtrip", "string(hex_decode(hex_encode($a)))", lambda a: a),
    ("bytes_roundtrip", "string(bytes($a))", lambda a: a),
    ("strlen_bytes", "strlen(bytes($a))", lambda a: len(a.encode())),
    ("json_roundtrip", "json_parse(json_stringify($a))", lambda a: a),
    ("latin1_to_utf8", "latin1_to_utf8($a)", lambda a: a.encode().decode("latin-1")),
    ("utf8_to_latin1_hex", "hex_encode(utf8_to_latin1($a))", _m_latin1_hex),
    ("latin1_roundtrip", "latin1_to_utf8(utf8_to_latin1($a))", _m_latin1_rt),
    ("dot_self", "$a . $a", lambda a: a + a),
    ("slice_all", "$a[1:-1]", lambda a: a),
]
# json_stringify is checked by decoding its result with Python's json (the text layout is Miller's own)
UNARY_SPECIAL = [("json_stringify", "json_stringify($a)")]


def _check(res, fn, exp, got, args, argv, row, nontrivial, cls=None):
    """Compare one evaluation; book-keep skipped / non-trivial / violation."""
    if exp is DECLINE:
        res["skipped"] += 1
        bump(res, "skipped:" + fn)
        return
    res["evals"] += 1
    bump(res, "fn:" + fn)
    if nontrivial:
        res["nontrivial_keys"].append(_h(fn, args))
    if agrees(exp, got):
        return
    sig = {"kind": "value", "fn": fn, "class": cls or _classify(fn, args, exp, got)}
    add_violation(res, sig,
                  f"{fn}({', '.join(short(repr(a), 60) for a in args)}) = {short(repr(got[1]) if got[0]=='value' else got[0])} "
                  f"[{got[2]}], reference says {short(repr(show(exp)))}",
                  {"argv": argv, "stdin": json_rows([row]), "expected": show(exp), "got": got[1], "got_type": got[2],
                   "args": [repr(a) for a in args]})


def _classify(fn, args, exp, got):
    s = args[0] if args and isinstance(args[0], str) else ""
    if fn.startswith("slice") and s == "" and got[0] == "error":
        return "empty-string-slice"
    if got[0] == "error":
        return "unexpected-error"
    if got[0] == "absent":
        return "unexpected-absent"
    if isinstance(exp, str) and isinstance(got[1], str) and not isinstance(exp, bool):
        if exp is not ERROR and got[1] == exp:
            return "type"
    if has_mb(s):
        return "multibyte"
    return "ascii"


def str_case(case):
    rng = random.Random(case["seed"])
    group = case["group"]
    n = case["n"]
    res = case_result(_h("str", case["seed"], group), nontrivial=False, evals=0)
    res["nontrivial_keys"] = []
    st = {}
    if group == "unary":
        rows = [{"a": rand_string(rng)} for _ in range(n)]
        exprs = [(nm, e) for nm, e, _ in UNARY] + UNARY_SPECIAL
        prog = program(exprs)
        argv = JFLAGS + ["put", prog]
        outs = eval_rows(prog, rows, stats=st)
        for row, rec in zip(rows, outs):
            a = row["a"]
            if isinstance(rec, Fail):
                fail_violation(res, rec, "unary", "batch", argv, json_rows([row]), f"unary string functions on {short(repr(a), 80)}")
                continue
            for nm, e, model in UNARY:
                _check(res, nm, model(a), got_of(rec, nm), (a,), argv, row, has_mb(a))
            g = got_of(rec, "json_stringify")
            res["evals"] += 1
            ok = False
            if g[0] == "value" and isinstance(g[1], str):
                try:
                    ok = json.loads(g[1]) == a
                except ValueError:
                    ok = False
            if not ok:
                add_violation(res, {"kind": "value", "fn": "json_stringify", "class": "not-json-of-input"},
                              f"json_stringify({short(repr(a), 60)}) = {short(repr(g[1]))}: not a JSON text for the argument",
                              {"argv": argv, "stdin": json_rows([row]), "got": g[1]})
        res["sample"] = {"monitor": "str/unary", "a": short(rows[0]["a"], 60), "functions": len(exprs)}
    elif group == "index":
        rows = []
        for _ in range(n):
            a = rand_string(rng)
            ln = len(a)
            rows.append({"a": a, "b": Num(idx_pool(rng, ln)), "c": Num(idx_pool(rng, ln)), "n": Num(rng.choice([0, 1, 2, ln - 1, ln, ln + 1, 3, 100, rng.randint(0, ln + 2)]) if ln or rng.random() < .5 else 0)})
        exprs = [("substr", "substr($a,$b,$c)"), ("substr0", "substr0($a,$b,$c)"), ("substr1", "substr1($a,$b,$c)"),
                 ("slice", "$a[$b:$c]"), ("slice_lo", "$a[$b:]"), ("slice_hi", "$a[:$c]"), ("index", "$a[$b]"),
                 ("truncate", "truncate($a,$n)"),
                 ("fmt_substr", 'format("{}", substr1($a,$b,$c))')]
        prog = program(exprs)
        argv = JFLAGS + ["put", prog]
        outs = eval_rows(prog, rows, stats=st)
        for row, rec in zip(rows, outs):
            a, b, c, k = row["a"], int(row["b"].text), int(row["c"].text), int(row["n"].text)
            if isinstance(rec, Fail):
                fail_violation(res, rec, "index", "batch", argv, json_rows([row]), f"substr/slice on {short(repr(a), 60)},{b},{c}")
                continue
            ln = len(a)
            nt = has_mb(a) and strictly_inside(ln, b, c)
            _check(res, "substr", M.substr0(a, b, c), got_of(rec, "substr"), (a, b, c), argv, row, nt)
            _check(res, "substr0", M.substr0(a, b, c), got_of(rec, "substr0"), (a, b, c), argv, row, nt)
            _check(res, "substr1", M.substr1(a, b, c), got_of(rec, "substr1"), (a, b, c), argv, row, nt)
            _check(res, "slice", M.slice1(a, b, c), got_of(rec, "slice"), (a, b, c), argv, row, nt)
            _check(res, "slice_lo", M.slice1(a, b, ln), got_of(rec, "slice_lo"), (a, b), argv, row, has_mb(a) and strictly_inside(ln, b))
            _check(res, "slice_hi", M.slice1(a, 1, c), got_of(rec, "slice_hi"), (a, c), argv, row, has_mb(a) and strictly_inside(ln, c))
            _check(res, "index", M.index1(a, b), got_of(rec, "index"), (a, b), argv, row, has_mb(a) and strictly_inside(ln, b))
            _check(res, "truncate", M.truncate(a, k), got_of(rec, "truncate"), (a, k), argv, row, has_mb(a) and 0 < k < ln)
            _check(res, "fmt_substr", M.substr1(a, b, c), got_of(rec, "fmt_substr"), (a, b, c), argv, row, False)
        res["sample"] = {"monitor": "str/index", "a": short(rows[0]["a"], 40), "b": rows[0]["b"].text, "c": rows[0]["c"].text}
    elif group == "pad":
        rows = []
        for _ in range(n):
            a = rand_string(rng, maxlen=6)
            ln = len(a)
            pad = rng.choice(["*", "0", " ", "XY", "é", "éx", "日本", "😀", "abc", "-"])
            if ln > 200:
                w = rng.choice([ln - 1, ln, ln + 1, ln + 2, ln + 7])
            else:
                w = rng.choice([0, 1, ln - 1, ln, ln + 1, ln + 2, ln + 3, ln + 7, 20, 33, -1])
            rows.append({"a": a, "b": Num(w), "c": pad})
        exprs = [("leftpad", "leftpad($a,$b,$c)"), ("rightpad", "rightpad($a,$b,$c)"),
                 ("padlen", "strlen(leftpad($a,$b,$c))")]
        prog = program(exprs)
        argv = JFLAGS + ["put", prog]
        outs = eval_rows(prog, rows, stats=st)
        for row, rec in zip(rows, outs):
            a, w, pad = row["a"], int(row["b"].text), row["c"]
            if isinstance(rec, Fail):
                fail_violation(res, rec, "pad", "batch", argv, json_rows([row]), f"leftpad/rightpad({short(repr(a), 60)},{w},{pad!r})")
                continue
            nt = (has_mb(a) or has_mb(pad)) and w > len(a)
            _check(res, "leftpad", M.leftpad(a, w, pad), got_of(rec, "leftpad"), (a, w, pad), argv, row, nt)
            _check(res, "rightpad", M.rightpad(a, w, pad), got_of(rec, "rightpad"), (a, w, pad), argv, row, nt)
            _check(res, "padlen", len(M.leftpad(a, w, pad)), got_of(rec, "padlen"), (a, w, pad), argv, row, False)
        res["sample"] = {"monitor": "str/pad", "a": short(rows[0]["a"], 40), "width": rows[0]["b"].text, "pad": rows[0]["c"]}
    elif group == "padedge":
        # one process per row: an empty pad string can add nothing, the only sensible
        # result is the input (and in any case the call has to return)
        a = rand_string(rng, kind=rng.choice(["ascii", "mixed", "empty"]), maxlen=4)
        w = len(a) + rng.choice([1, 3, 10])
        fn = rng.choice(["leftpad", "rightpad"])
        row = {"a": a, "b": Num(w), "c": ""}
        prog = program([(fn, f"{fn}($a,$b,$c)")])
        argv = JFLAGS + ["put", prog]
        outs = eval_rows(prog, [row], cpu_s=4, stats=st)
        if isinstance(outs[0], Fail):
            fail_violation(res, outs[0], fn, "empty-pad", argv, json_rows([row]), f"{fn}({a!r},{w},\"\")")
            res["evals"] += 1
        else:
            _check(res, fn, a, got_of(outs[0], fn), (a, w, ""), argv, row, True, cls="empty-pad")
    elif group == "pair":
        rows = []
        for _ in range(n):
            a = rand_string(rng)
            r = rng.random()
            if a and r < 0.6:
                i = rng.randrange(len(a))
                j = min(len(a), i + rng.randint(1, 3))
                b = a[i:j]
            elif r < 0.75:
                b = rng.choice([",", ";", " ", "é", "ab", "::", "日", "."])
                k = rng.randint(0, 4)
                parts = [rand_string(rng, kind=rng.choice(["ascii", "mb", "empty", "one"]), maxlen=3) for _ in range(k + 1)]
                a = b.join(parts)
            elif r < 0.85:
                b = ""
            else:
                b = rand_string(rng, maxlen=2)
            c = rng.choice(["", "X", "é", "\\1", "$1", "&", b + b, "日本", "a b"])
            rows.append({"a": a, "b": b, "c": c})
        exprs = [("contains", "contains($a,$b)"), ("index", "index($a,$b)"),
                 ("ssub", "ssub($a,$b,$c)"), ("gssub", "gssub($a,$b,$c)"),
                 ("splitax", "splitax($a,$b)"), ("splitnvx", "splitnvx($a,$b)"),
                 ("split_join", "joinv(splitax($a,$b),$b)"), ("splitnvx_joinv", "joinv(splitnvx($a,$b),$b)"),
                 ("joink_nvx", 'joink(splitnvx($a,$b),",")'),
                 ("splita", "splita($a,$b)"), ("splitnv", "splitnv($a,$b)"),
                 ("dot", "$a . $b . $c"), ("fmt2", 'format("{}{2}{}", $a, $b)')]
        prog = program(exprs)
        argv = JFLAGS + ["put", prog]
        outs = eval_rows(prog, rows, stats=st)
        for row, rec in zip(rows, outs):
            a, b, c = row["a"], row["b"], row["c"]
            if isinstance(rec, Fail):
                fail_violation(res, rec, "pair", "batch", argv, json_rows([row]), f"two-string functions on {short(repr(a), 60)},{b!r},{c!r}")
                continue
            nt = has_mb(a) and b != "" and b in a and a.find(b) > 0
            _check(res, "contains", b in a, got_of(rec, "contains"), (a, b), argv, row, nt)
            _check(res, "index", M.index_of(a, b), got_of(rec, "index"), (a, b), argv, row, nt)
            _check(res, "ssub", a.replace(b, c, 1), got_of(rec, "ssub"), (a, b, c), argv, row, nt)
            _check(res, "gssub", a.replace(b, c), got_of(rec, "gssub"), (a, b, c), argv, row, nt)
            if b == "" or a == "":
                # empty separator / empty input: the docs do not say
                sp = DECLINE
            else:
                sp = a.split(b)
            _check(res, "splitax", sp, got_of(rec, "splitax"), (a, b), argv, row, nt)
            _check(res, "splitnvx", DECLINE if sp is DECLINE else {str(i + 1): x for i, x in enumerate(sp)},
                   got_of(rec, "splitnvx"), (a, b), argv, row, nt)
            # the inferring variants: same text when no piece can be read as a number (type inference is C06's subject)
            plain = sp is not DECLINE and all(re.match(r"^[A-Za-hj-mo-z\u00c0-\uffff]", x) or x == "" for x in sp)
            _check(res, "splita", sp if plain else DECLINE, got_of(rec, "splita"), (a, b), argv, row, nt)
            _check(res, "splitnv", {str(i + 1): x for i, x in enumerate(sp)} if plain else DECLINE,
                   got_of(rec, "splitnv"), (a, b), argv, row, nt)
            _check(res, "split_join", DECLINE if b == "" else a, got_of(rec, "split_join"), (a, b), argv, row, nt)
            _check(res, "splitnvx_joinv", DECLINE if b == "" else a, got_of(rec, "splitnvx_joinv"), (a, b), argv, row, nt)
            _check(res, "joink_nvx", DECLINE if sp is DECLINE else ",".join(str(i + 1) for i in range(len(sp))),
                   got_of(rec, "joink_nvx"), (a, b), argv, row, False)
            _check(res, "dot", a + b + c, got_of(rec, "dot"), (a, b, c), argv, row, False)
            _check(res, "format", a + b + b, got_of(rec, "fmt2"), ("{}{2}{}", a, b), argv, row, False)
        res["sample"] = {"monitor": "str/pair", "a": short(rows[0]["a"], 40), "b": rows[0]["b"], "c": rows[0]["c"]}
    elif group == "kv":
        rows = []
        for _ in range(n):
            ps, fs = rng.choice([("=", ","), (":", ";"), ("é", "日"), ("=>", "||"), (" ", "\t")])
            k = rng.randint(1, 5)
            keys = rng.sample(["a", "b", "cc", "é", "k1", "x y", "日本", "Z", "q"], k)
            vals = [rng.choice(["1", "x", "", "é", "v w", "3.5", "😀", "abc", "-2"]) for _ in range(k)]
            if any(ps in x or fs in x for x in keys + vals):
                continue
            rows.append({"a": fs.join(kk + ps + vv for kk, vv in zip(keys, vals)), "b": ps, "c": fs,
                         "_k": keys, "_v": vals})
        exprs = [("splitkvx", "splitkvx($a,$b,$c)"), ("kv_rt", "joinkv(splitkvx($a,$b,$c),$b,$c)"),
                 ("joink", "joink(splitkvx($a,$b,$c),$c)"), ("joinv", "joinv(splitkvx($a,$b,$c),$c)"),
                 ("splitaxx", "splitax($a,$c)")]
        prog = program(exprs)
        argv = JFLAGS + ["put", prog]
        send = [{k: v for k, v in r.items() if not k.startswith("_")} for r in rows]
        outs = eval_rows(prog, send, stats=st)
        for row, srow, rec in zip(rows, send, outs):
            a, ps, fs, keys, vals = row["a"], row["b"], row["c"], row["_k"], row["_v"]
            if isinstance(rec, Fail):
                fail_violation(res, rec, "kv", "batch", argv, json_rows([srow]), f"splitkvx/joinkv on {a!r}")
                continue
            nt = has_mb(a) and len(keys) > 1
            _check(res, "splitkvx", dict(zip(keys, vals)), got_of(rec, "splitkvx"), (a, ps, fs), argv, srow, nt)
            _check(res, "joinkv_splitkvx", a, got_of(rec, "kv_rt"), (a, ps, fs), argv, srow, nt)
            _check(res, "joink", fs.join(keys), got_of(rec, "joink"), (a, ps, fs), argv, srow, nt)
            _check(res, "joinv", fs.join(vals), got_of(rec, "joinv"), (a, ps, fs), argv, srow, nt)
            _check(res, "splitax", [kk + ps + vv for kk, vv in zip(keys, vals)], got_of(rec, "splitaxx"), (a, fs), argv, srow, nt)
        if rows:
            res["sample"] = {"monitor": "str/kv", "a": rows[0]["a"], "ps": rows[0]["b"], "fs": rows[0]["c"]}
    elif group == "format":
        rows = []
        for _ in range(n):
            nargs = rng.randint(0, 4)
            args = [rng.choice(["a", "é", "", "x y", "日本", "17", "{}", "q"]) for _ in range(nargs)]
            pieces = []
            for _ in range(rng.randint(0, 5)):
                pieces.append(rng.choice(["{}", "{}", "{1}", "{2}", "{3}", "{0}", "{5}", ":", "é", " ", "h", "-", "日"]))
            f = "".join(pieces)
            # unformat domain: literals between placeholders non-empty, values free of the literal characters
            lits = [rng.choice([":", "h", "m", "s", "é", "--", " "]) for _ in range(rng.randint(1, 3))]
            vals = [rng.choice(["3", "47", "x", "é", "1.5", "ab", "日"]) for _ in range(len(lits) + 1)]
            uf = "{}" + "".join(l + "{}" for l in lits)
            us = vals[0] + "".join(l + v for l, v in zip(lits, vals[1:]))
            ok = all(not any(ch in v for ch in "".join(lits)) for v in vals)
            bad = rng.random() < 0.2
            if bad:
                us = us.replace(lits[0], "#", 1)
            row = {"f": f, "uf": uf, "us": us}
            for i in range(4):
                row["a%d" % (i + 1)] = args[i] if i < nargs else ""
            row["_nargs"] = nargs
            row["_args"] = args
            row["_vals"] = vals if (ok and not bad) else (ERROR if (ok and bad and "#" not in "".join(lits)) else DECLINE)
            rows.append(row)
        send = [{k: v for k, v in r.items() if not k.startswith("_")} for r in rows]
        exprs = [("f0", "format($f)"), ("f1", "format($f,$a1)"), ("f2", "format($f,$a1,$a2)"),
                 ("f3", "format($f,$a1,$a2,$a3)"), ("f4", "format($f,$a1,$a2,$a3,$a4)"),
                 ("unformatx", "unformatx($uf,$us)"), ("unformat_err", "is_error(unformat($uf,$us))"),
                 ("unf_rt", 'format($uf, unformatx($uf,$us)[1], unformatx($uf,$us)[2])')]
        prog = program(exprs)
        argv = JFLAGS + ["put", prog]
        outs = eval_rows(prog, send, stats=st)
        for row, srow, rec in zip(rows, send, outs):
            if isinstance(rec, Fail):
                fail_violation(res, rec, "format", "batch", argv, json_rows([srow]), f"format/unformat on {row['f']!r}")
                continue
            k = row["_nargs"]
            exp = M.fmt_placeholders(row["f"], row["_args"])
            _check(res, "format", exp, got_of(rec, "f%d" % k), (row["f"],) + tuple(row["_args"]), argv, srow,
                   "{" in row["f"] and k > 0)
            v = row["_vals"]
            _check(res, "unformatx", v, got_of(rec, "unformatx"), (row["uf"], row["us"]), argv, srow, v is not DECLINE and has_mb(row["us"]))
            if v is not DECLINE:
                _check(res, "unformat", v is ERROR, got_of(rec, "unformat_err"), (row["uf"], row["us"]), argv, srow, False)
        res["sample"] = {"monitor": "str/format", "format": rows[0]["f"], "args": rows[0]["_args"]}
    elif group == "codec":
        # decode side of the inverse pairs, arbitrary bytes, digests of arbitrary bytes
        rows = []
        for _ in range(n):
            blen = rng.choice([0, 1, 2, 3, 4, 5, 16, 31, 64, 257])
            raw = bytes(rng.randrange(256) for _ in range(blen))
            if rng.random() < 0.4:
                raw = rand_string(rng).encode()
            b64 = base64.b64encode(raw).decode()
            hx = raw.hex() if rng.random() < 0.7 else raw.hex().upper()
            badk = rng.choice(["none", "none", "none", "char", "pad", "oddhex", "nonhex"])
            bad64, badhex = b64, hx
            if badk == "char":
                bad64 = (b64[:1] + "!" + b64[1:]) if b64 else "!"
            elif badk == "pad":
                bad64 = "a==="
            elif badk == "oddhex":
                badhex = hx + "a"
            elif badk == "nonhex":
                badhex = hx + "zz"
            rows.append({"a": b64, "b": hx, "c": bad64, "d": badhex, "_raw": raw, "_bad": badk})
        send = [{k: v for k, v in r.items() if not k.startswith("_")} for r in rows]
        exprs = [("b64dec_hex", "hex_encode(base64_decode($a))"), ("hexdec_b64", "base64_encode(hex_decode($b))"),
                 ("b64dec_type", "typeof(base64_decode($a))"), ("b64dec_len", "strlen(base64_decode($a))"),
                 ("md5_raw", "md5(base64_decode($a))"), ("sha1_raw", "sha1(hex_decode($b))"),
                 ("sha256_raw", "sha256(base64_decode($a))"), ("sha512_raw", "sha512(hex_decode($b))"),
                 ("b64_bad", "base64_decode($c)"), ("hex_bad", "hex_decode($d)"),
                 ("b64_bad_hex", "hex_encode(base64_decode($c))"), ("hex_bad_hex", "hex_encode(hex_decode($d))")]
        prog = program(exprs)
        argv = JFLAGS + ["put", prog]
        outs = eval_rows(prog, send, stats=st)
        for row, srow, rec in zip(rows, send, outs):
            raw, badk = row["_raw"], row["_bad"]
            if isinstance(rec, Fail):
                fail_violation(res, rec, "codec", "batch", argv, json_rows([srow]), f"base64/hex decode of {raw.hex()[:60]}")
                continue
            nt = len(raw) > 0 and any(b > 127 for b in raw)
            _check(res, "base64_decode", raw.hex(), got_of(rec, "b64dec_hex"), (row["a"],), argv, srow, nt)
            _check(res, "hex_decode", base64.b64encode(raw).decode(), got_of(rec, "hexdec_b64"), (row["b"],), argv, srow, nt)
            _check(res, "base64_decode_type", "bytes", got_of(rec, "b64dec_type"), (row["a"],), argv, srow, False)
            _check(res, "strlen_bytes", len(raw), got_of(rec, "b64dec_len"), (row["a"],), argv, srow, False)
            _check(res, "md5", hashlib.md5(raw).hexdigest(), got_of(rec, "md5_raw"), (row["a"],), argv, srow, nt)
            _check(res, "sha1", hashlib.sha1(raw).hexdigest(), got_of(rec, "sha1_raw"), (row["b"],), argv, srow, nt)
            _check(res, "sha256", hashlib.sha256(raw).hexdigest(), got_of(rec, "sha256_raw"), (row["a"],), argv, srow, nt)
            _check(res, "sha512", hashlib.sha512(raw).hexdigest(), got_of(rec, "sha512_raw"), (row["b"],), argv, srow, nt)
            if badk in ("char", "pad"):
                _check(res, "base64_decode", ERROR, got_of(rec, "b64_bad_hex"), (row["c"],), argv, srow, False, cls="invalid-input-accepted")
            if badk in ("oddhex", "nonhex"):
                _check(res, "hex_decode", ERROR, got_of(rec, "hex_bad_hex"), (row["d"],), argv, srow, False, cls="invalid-input-accepted")
        res["sample"] = {"monitor": "str/codec", "base64": rows[0]["a"][:40], "hex": rows[0]["b"][:40]}
    elif group == "json":
        rows = []
        for _ in range(n):
            v = _rand_json(rng, 0)
            txt = _json_text(v, rng)
            rows.append({"a": Raw(txt), "s": json.dumps(v, ensure_ascii=rng.random() < 0.3), "_v": v})
        send = [{k: v for k, v in r.items() if not k.startswith("_")} for r in rows]
        exprs = [("parse", "json_parse($s)"), ("rt", "json_parse(json_stringify($a))"),
                 ("rt_multi", "json_parse(json_stringify($a, true))"), ("stringify", "json_stringify($a)"),
                 ("stringify_multi", "json_stringify($a, true)")]
        prog = program(exprs)
        argv = JFLAGS + ["put", prog]
        outs = eval_rows(prog, send, stats=st)
        for row, srow, rec in zip(rows, send, outs):
            v = row["_v"]
            if isinstance(rec, Fail):
                fail_violation(res, rec, "json", "batch", argv, json_rows([srow]), f"json_parse/json_stringify on {short(row['s'], 80)}")
                continue
            nt = isinstance(v, (dict, list)) and has_mb(row["s"] if not row["s"].isascii() else json.dumps(v, ensure_ascii=False))
            exp = _json_canon(v)
            for nm, fn in (("parse", "json_parse"), ("rt", "json_roundtrip"), ("rt_multi", "json_roundtrip_multiline")):
                g = got_of(rec, nm)
                res["evals"] += 1
                bump(res, "fn:" + fn)
                if nt:
                    res["nontrivial_keys"].append(_h(fn, row["s"]))
                if not (g[0] == "value" and g[1] == exp):
                    add_violation(res, {"kind": "value", "fn": fn, "class": "nested" if isinstance(v, (dict, list)) else "scalar"},
                                  f"{fn} of {short(row['s'], 80)} gives {short(repr(g[1]))}, expected {short(repr(exp))}",
                                  {"argv": argv, "stdin": json_rows([srow]), "expected": exp, "got": g[1]})
            for nm in ("stringify", "stringify_multi"):
                g = got_of(rec, nm)
                res["evals"] += 1
                bump(res, "fn:json_stringify")
                ok = False
                if g[0] == "value" and isinstance(g[1], str):
                    try:
                        ok = _json_canon(json.loads(g[1])) == exp
                        if nm == "stringify" and "\n" in g[1]:
                            ok = False       # "Default output is single-line"
                        if nm == "stringify_multi" and isinstance(v, dict) and len(v) > 0 and "\n" not in g[1]:
                            ok = False
                    except ValueError:
                        ok = False
                if not ok:
                    add_violation(res, {"kind": "value", "fn": "json_stringify", "class": nm},
                                  f"{nm} of {short(row['s'], 80)} gives {short(repr(g[1]))}",
                                  {"argv": argv, "stdin": json_rows([srow]), "expected_value": exp, "got": g[1]})
        res["sample"] = {"monitor": "str/json", "value": short(rows[0]["s"], 80)}
    for k, v in st.items():
        bump(res, k, v)
    if not case.get("want_sample"):
        res["sample"] = None
    return res


def _rand_json(rng, depth):
    r = rng.random()
    if depth < 3 and r < 0.25:
        keys = rng.sample(["a", "b", "é", "k 1", "日本", "x.y", "", "q\"r", "n:1"], rng.randint(0, 4))
        return {k: _rand_json(rng, depth + 1) for k in keys}
    if depth < 3 and r < 0.45:
        return [_rand_json(rng, depth + 1) for _ in range(rng.randint(0, 4))]
    if r < 0.6:
        return rng.choice([0, 1, -7, 42, 123456789012, -1])
    if r < 0.7:
        return rng.choice([1.5, -0.25, 3.125, 100.5])
    if r < 0.75:
        return rng.choice([True, False])
    return rand_string(rng, kind=rng.choice(["ascii", "mixed", "mb", "odd", "empty"]), maxlen=5)


def _json_text(v, rng):
    return json.dumps(v, ensure_ascii=rng.random() < 0.3)


def _json_canon(v):
    if isinstance(v, bool):
        return "true" if v else "false"
    if isinstance(v, (int, float)):
        return json.dumps(v)
    if isinstance(v, str):
        return v
    if isinstance(v, list):
        return [_json_canon(x) for x in v]
    if isinstance(v, dict):
        return {k: _json_canon(x) for k, x in v.items()}
    return v


# ==========================================================================================
# (re) regex functions against Python re on the shared RE2 subset

CAP_TEMPLATE = "\\0|\\1|\\2|\\3|\\4|\\5|\\6|\\7|\\8|\\9|\\15"
REPLS = ["", "X", "<\\0>", "[\\1]", "\\2\\1", "\\1\\1", "é\\1日", "$1", "${1}", "&", "\\0\\0", "a\\15b", "\\3-\\2-\\1", " ", "\\9|\\8|\\7"]


def re_program(bexpr):
    """bexpr: how the regex is spelled in the program: $b (data) or a "..." / "..."i literal."""
    return "\n".join([
        f"$r_eq = $a =~ {bexpr}; $t_eq = typeof($r_eq);",
        f'$r_cap = "{CAP_TEMPLATE}"; $t_cap = typeof($r_cap);',
        f"$r_sub = sub($a, {bexpr}, $c); $t_sub = typeof($r_sub);",
        f"$r_gsub = gsub($a, {bexpr}, $c); $t_gsub = typeof($r_gsub);",
        f"$r_rx = regextract($a, {bexpr}); $t_rx = typeof($r_rx);",
        f"$r_rxe = regextract_or_else($a, {bexpr}, $d); $t_rxe = typeof($r_rxe);",
        f"$r_m = strmatch($a, {bexpr}); $t_m = typeof($r_m);",
        f"$r_mx = strmatchx($a, {bexpr}); $t_mx = typeof($r_mx);",
        f'$r_cap2 = "{CAP_TEMPLATE}"; $t_cap2 = typeof($r_cap2);',
        f"$r_ne = $a !=~ {bexpr}; $t_ne = typeof($r_ne);",
    ])


def gen_many_groups(rng):
    """7-9 capturing groups in a row, so that \\7 \\8 \\9 (the top of the documented range) are exercised"""
    items = []
    for _ in range(rng.randint(7, 9)):
        r = rng.random()
        if r < 0.4:
            inner = M.Rx("lit", rng.choice(list("abcxyz012") + ["é", "日"]))
        elif r < 0.7:
            inner = M.Rx("cls", False, [rng.choice(M.CLS_RANGES), rng.choice(M.CLS_ATOMS)])
        elif r < 0.85:
            inner = M.Rx("dot")
        else:
            inner = M.Rx("alt", [M.Rx("cat", [M.Rx("lit", rng.choice("abc"))]), M.Rx("cat", [M.Rx("perl", "d")])])
        g = M.Rx("grp", M.Rx("cat", [inner]) if inner.kind != "alt" else inner, True)
        if rng.random() < 0.2:
            g = M.Rx("rep", g, 0, 1, (False, "sym"))
        items.append(g)
    return M.Rx("cat", items)


def gen_pattern(rng, safe=False):
    for _ in range(50):
        n = gen_many_groups(rng) if rng.random() < 0.08 else M.rx_gen(rng)
        if M.rx_ngroups(n) <= 9:
            go, py = M.rx_render(n, False, safe), M.rx_render(n, True, safe)
            if safe and any(ord(ch) > 0xFFFF for ch in go):
                continue      # the DSL grammar's string literal stops at U+FFFF (reported by the doc monitor)
            if len(go) <= 80:
                return n, go, py
    n = M.Rx("cat", [M.Rx("lit", "a")])
    return n, "a", "a"


def gen_subject(rng, n):
    r = rng.random()
    ctx = lambda k: "".join(rng.choice(M.SUBJ_ALPHA) for _ in range(rng.randint(0, k)))
    if r < 0.55:
        return ctx(4) + M.rx_sample(n, rng) + ctx(4)
    if r < 0.75:
        return ctx(2) + M.rx_sample(n, rng) + ctx(2) + M.rx_sample(n, rng) + ctx(2)
    if r < 0.8:
        return ""
    return ctx(10)


def _cap_string(m, ngroups):
    if m is None:
        return "||||||||||5"
    gs = []
    for g in range(10):
        if g <= ngroups:
            v = m.group(g)
            gs.append(v if v is not None else "")
        else:
            gs.append("")      # documented by example: after a successful match "\2" of a 1-group regex is empty
    return "|".join(gs) + "|" + gs[1] + "5"


def _matchx(m, ngroups, a, bytewise=False):
    if m is None:
        return {"matched": False}
    def pos(i):
        return len(a[:i].encode()) if bytewise else i
    d = {"matched": True, "full_capture": m.group(0), "full_start": pos(m.start()) + 1, "full_end": pos(m.end())}
    if ngroups:
        d["captures"] = [m.group(g) for g in range(1, ngroups + 1)]
        d["starts"] = [pos(m.start(g)) + 1 for g in range(1, ngroups + 1)]
        d["ends"] = [pos(m.end(g)) for g in range(1, ngroups + 1)]
    return d


def re_check_row(res, rec, a, go, py, ci, ngroups, minlen, c, d, argv, srow, chan, nt_base):
    flags = re.IGNORECASE if ci else 0
    rx = re.compile(py, flags)
    m = rx.search(a)
    tag = chan + ("/i" if ci else "")
    nt = nt_base and m is not None

    def chk(fn, exp, name, cls=None):
        _check(res, fn, exp, got_of(rec, name), (a, go + ("  [i]" if ci else ""), c) if fn in ("sub", "gsub") else (a, go + ("  [i]" if ci else "")),
               argv, srow, nt, cls=cls)

    chk("=~", m is not None, "eq")
    cap = _cap_string(m, ngroups)
    chk("captures", cap, "cap", cls=("after-failed-match" if m is None else "after-match") + ":" + tag)
    chk("captures-after-functions", cap, "cap2", cls="disturbed-by-sub/gsub/regextract/strmatchx:" + tag)
    chk("!=~", m is None, "ne")
    if m is None:
        es = a
    else:
        e = M.expand_repl(c, m, ngroups)
        es = DECLINE if e is DECLINE else a[:m.start()] + e + a[m.end():]
    chk("sub", es, "sub", cls=_re_class(a, go, c, ci, chan))
    # Go's replace-all rule (the engine the docs name): no empty match adjacent to the previous match,
    # advance one character after an empty match; identical to re.sub when no match is empty
    eg = M.go_replace_all(rx, a, lambda mm: M.expand_repl(c, mm, ngroups))
    chk("gsub", eg, "gsub", cls=_re_class(a, go, c, ci, chan) + (":empty-match" if minlen < 1 else ""))
    if a == "":
        # empty input: the regex reference says absent / the match "" , the null-data page says
        # "empty in, empty out"; an error is neither
        for fn, name, alts in (("regextract", "rx", (ABSENT, "")), ("regextract_or_else", "rxe", (d, ""))):
            g_ = got_of(rec, name)
            res["evals"] += 1
            bump(res, "fn:" + fn)
            if not any(agrees(x, g_) for x in alts):
                add_violation(res, {"kind": "value", "fn": fn, "class": "empty-input"},
                              f"{fn}(\"\", {go!r}{', ' + repr(d) if fn.endswith('else') else ''}) = {g_[0]} {g_[1]!r}, "
                              f"reference allows {[show(x) for x in alts]}",
                              {"argv": argv, "stdin": json_rows([srow]), "got": g_[1], "got_type": g_[2]})
    else:
        chk("regextract", m.group(0) if m else ABSENT, "rx")
        chk("regextract_or_else", m.group(0) if m else d, "rxe")
    chk("strmatch", m is not None, "m")
    # strmatchx
    g = got_of(rec, "mx")
    if m is not None and (m.end() == m.start() or any(m.group(k) is None for k in range(1, ngroups + 1))):
        # empty match / non-participating group: positions not described; compare the rest
        exp = {"matched": True, "full_capture": m.group(0)}
        got = g[1] if isinstance(g[1], dict) else {}
        gsub_ = {k: got.get(k) for k in exp}
        res["evals"] += 1
        bump(res, "fn:strmatchx")
        if g[0] != "value" or gsub_ != canon(exp):
            add_violation(res, {"kind": "value", "fn": "strmatchx", "class": "matched/full_capture"},
                          f"strmatchx({a!r}, {go!r}) = {short(repr(g[1]))}, reference says {canon(exp)} (+positions)",
                          {"argv": argv, "stdin": json_rows([srow]), "expected": canon(exp), "got": g[1]})
    else:
        exp = _matchx(m, ngroups, a)
        res["evals"] += 1
        bump(res, "fn:strmatchx")
        if nt:
            res["nontrivial_keys"].append(_h("strmatchx", a, go, ci))
        if not agrees(exp, g):
            cls = "result"
            if m is not None and g[0] == "value" and g[1] == canon(_matchx(m, ngroups, a, bytewise=True)):
                cls = "positions-are-byte-offsets"
            add_violation(res, {"kind": "value", "fn": "strmatchx", "class": cls},
                          f"strmatchx({a!r}, {go!r}{'i' if ci else ''}) = {short(json.dumps(g[1], ensure_ascii=False), 300)}, "
                          f"reference says {short(json.dumps(canon(exp), ensure_ascii=False), 300)}",
                          {"argv": argv, "stdin": json_rows([srow]), "expected": canon(exp), "got": g[1]})


def slash_check_row(res, rec, row, py, slash, ng, argv):
    """A data regex spelled /.../ or /.../i: the documentation says Miller regexes are delimited by double quotes
    "rather than slashes", so the slashes (and the i) are ordinary pattern characters."""
    a, c = row["a"], row["c"]
    lit = re.compile("/" + py + slash[3:])                                    # the documented (literal) reading
    alt = re.compile(py, re.IGNORECASE if slash.endswith("i") else 0)         # slashes taken as delimiters
    for fn, name in (("=~", "eq"), ("sub", "sub"), ("gsub", "gsub"), ("strmatch", "m")):
        def ex(rx):
            if fn in ("=~", "strmatch"):
                return rx.search(a) is not None
            return M.go_replace_all(rx, a, lambda mm: M.expand_repl(c, mm, ng), count=1 if fn == "sub" else None)
        e, e2 = ex(lit), ex(alt)
        if e is DECLINE:
            res["skipped"] += 1
            continue
        g = got_of(rec, name)
        cls = "slash-data-regex"
        if not agrees(e, g) and e2 is not DECLINE and agrees(e2, g):
            cls = "slashes-stripped-from-data-regex"
        _check(res, fn, e, g, (a, row["b"], c) if fn in ("sub", "gsub") else (a, row["b"]), argv, row, False, cls=cls)


CAPSEQ_FUNCS = ['sub($a, $b1, "<\\1>")', 'gsub($a, $b2, "\\0\\0")', "regextract_or_else($a, $b3, \"no\")", "strmatchx($a, $b1)",
                "strmatch($a, $b2)", 'any([1], func(e) { return $a =~ $b3 })', "matchx_udf($a, $b1)"]


def capseq_program(steps):
    """The capture-state machine of reference-main-regular-expressions.md, one observation of the template after
    every step: before any match "\\1" evaluates to itself; after a successful =~ / !=~ to the captures; after a failed
    one to the empty string; `=~ null` resets; sub/gsub/regextract/strmatch/strmatchx and matches inside a
    user-defined function (own frame) do not disturb the state."""
    lines = ['func matchx_udf(s, r) { return s =~ r }',
             f'$r_c0 = "{CAP_TEMPLATE}";']
    for i, st in enumerate(steps, 1):
        if st[0] == "eq":
            lines.append(f"$r_m{i} = $a =~ $b{st[1]};")
        elif st[0] == "ne":
            lines.append(f"$r_m{i} = $a !=~ $b{st[1]};")
        elif st[0] == "null":
            lines.append("$a =~ null;")
        else:
            lines.append(f"$r_m{i} = typeof({CAPSEQ_FUNCS[st[1]]});")
        lines.append(f'$r_c{i} = "{CAP_TEMPLATE}";')
    return "\n".join(lines)


def capseq_case(case, rng, res, st):
    steps = []
    for _ in range(rng.randint(3, 6)):
        r = rng.random()
        if r < 0.45:
            steps.append(("eq", rng.randint(1, 3)))
        elif r < 0.65:
            steps.append(("ne", rng.randint(1, 3)))
        elif r < 0.78:
            steps.append(("null",))
        else:
            steps.append(("fn", rng.randrange(len(CAPSEQ_FUNCS))))
    prog = capseq_program(steps)
    argv = JFLAGS + ["put", prog]
    rows, meta = [], []
    for _ in range(case["n"]):
        pats = []
        for j in range(3):
            while True:
                node, go, py = gen_pattern(rng)
                if j == 2 and rng.random() < 0.5 and M.rx_ngroups(node) > 0:
                    continue          # the third regex is often one without groups (a match that captures nothing but \\0)
                break
            pats.append((node, go, py))
        src = rng.choice(pats)[0]
        r = rng.random()
        if r < 0.5:
            a = gen_subject(rng, src)
        elif r < 0.8:
            a = "".join(M.rx_sample(p[0], rng) + rng.choice(["", " ", "-"]) for p in rng.sample(pats, 3))
        else:
            a = gen_subject(rng, pats[0][0])
        rows.append({"a": a, "b1": pats[0][1], "b2": pats[1][1], "b3": pats[2][1]})
        meta.append(pats)
    outs = eval_rows(prog, rows, stats=st)
    def judge(row, pats, rec):
        a = row["a"]
        state = None
        trail = ["start"]
        kinds = set()

        def observe(i):
            exp = CAP_TEMPLATE if state is None else state
            res["evals"] += 1
            bump(res, "fn:capture-sequence")
            got = rec.get("r_c%d" % i)
            if got != exp:
                add_violation(res, {"kind": "value", "fn": "captures", "class": "sequence:" + trail[-1] + (":first-in-record" if i == 0 else "")},
                              f"after [{' ; '.join(trail)}] on {a!r} (regexes {row['b1']!r}, {row['b2']!r}, {row['b3']!r}) the string "
                              f"\"{CAP_TEMPLATE}\" evaluates to {got!r}, documented state says {exp!r}",
                              {"argv": argv, "stdin": json_rows([row]), "expected": exp, "got": got, "steps": trail[1:]})
                return False
            return True

        if not observe(0):
            return
        for i, stp in enumerate(steps, 1):
            if stp[0] in ("eq", "ne"):
                node, go, py = pats[stp[1] - 1]
                m = re.compile(py).search(a)
                ng = M.rx_ngroups(node)
                state = _cap_string(m, ng)
                want = (m is not None) if stp[0] == "eq" else (m is None)
                trail.append(("=~" if stp[0] == "eq" else "!=~") + (" matched" if m else " failed") + (" groups" if ng else " no-groups"))
                kinds.add(trail[-1])
                res["evals"] += 1
                if rec.get("r_m%d" % i) != canon(want):
                    add_violation(res, {"kind": "value", "fn": "=~" if stp[0] == "eq" else "!=~", "class": "sequence"},
                                  f"{a!r} {'=~' if stp[0] == 'eq' else '!=~'} {go!r} = {rec.get('r_m%d' % i)!r}, reference says {canon(want)!r}",
                                  {"argv": argv, "stdin": json_rows([row]), "expected": canon(want), "got": rec.get("r_m%d" % i)})
                    break
            elif stp[0] == "null":
                state = None
                trail.append("=~ null")
            else:
                trail.append("call " + CAPSEQ_FUNCS[stp[1]].split("(")[0])
            if not observe(i):
                break
        if len(kinds) >= 2:
            res["nontrivial_keys"].append(_h("capseq", a, row["b1"], row["b2"], row["b3"], steps))

    for row, pats, rec in zip(rows, meta, outs):
        if isinstance(rec, Fail):
            fail_violation(res, rec, "captures", "capseq", argv, json_rows([row]), f"capture-state sequence on {row['a']!r}")
            continue
        budgeted(res, judge, row, pats, rec)
    res["sample"] = {"monitor": "re/capseq", "steps": steps, "subject": rows[0]["a"]}


def _re_class(a, go, c, ci, chan):
    parts = [chan]
    if ci:
        parts.append("i")
    if "^" in go.replace("[^", "[").replace("\\^", ""):
        parts.append("bol")
    if "\\" in c:
        parts.append("caprepl")
    if "$" in c:
        parts.append("dollar-in-replacement")
    if has_mb(a) or has_mb(go):
        parts.append("mb")
    return ":".join(parts)


def re_case(case):
    rng = random.Random(case["seed"])
    mode = case["mode"]
    n = case["n"]
    res = case_result(_h("re", case["seed"], mode), nontrivial=False, evals=0)
    res["nontrivial_keys"] = []
    st = {}
    if mode == "capseq":
        capseq_case(case, rng, res, st)
    elif mode == "data":
        rows, meta = [], []
        fill = case.get("fill", 0)
        # the compiled-regex cache has a size limit (cache sizes are where such bugs hide): `fill` distinct cheap
        # patterns come first in the same process, so that the ordinary rows run past the limit, then some of the
        # early patterns (cached before the limit) and of the late ones (seen only after it) are used again
        for k in range(fill):
            tag = "q%dz" % k
            go = tag + "([0-9])" if k % 2 else "(" + tag + ")[0-9]"
            a = rng.choice(["", "x", "é"]) + tag + str(k % 10) + rng.choice(["", "y"])
            rows.append({"a": a, "b": go, "c": rng.choice(["<\\1>", "\\0\\0", "X"]), "d": "no"})
            meta.append((None, go, go, 1, 1, False, None))
        for _ in range(n):
            node, go, py = gen_pattern(rng)
            ng, ml = M.rx_ngroups(node), M.rx_min_len(node)
            # the Miller delimiters are honoured in regex-as-data too: "..." and "..."i (documented: "Miller regexes
            # are wrapped with double quotes rather than slashes", i = case-insensitive); slashes are NOT delimiters
            w = rng.random()
            wrap = '"%s"' if w < 0.04 else '"%s"i' if w < 0.09 else "/%s/" if w < 0.11 else "/%s/i" if w < 0.13 else None
            if wrap and '"' in go:
                wrap = None
            for _ in range(rng.randint(1, 3)):
                a = gen_subject(rng, node)
                if wrap and wrap.endswith("i") and rng.random() < 0.7:
                    a = "".join(ch.swapcase() if (len(ch.swapcase()) == 1 and rng.random() < 0.5) else ch for ch in a)
                if wrap and wrap[0] == "/" and rng.random() < 0.5:
                    a = "/" + a + wrap[4:]
                c = rng.choice([r for r in REPLS if _max_ref(r) <= ng] or [""])
                d = rng.choice(["nonesuch", "", "é"])
                rows.append({"a": a, "b": (wrap % go) if wrap else go, "c": c, "d": d})
                meta.append((node, go, py, ng, ml, bool(wrap) and wrap.endswith('"i'), wrap if (wrap and wrap[0] == "/") else None))
        if fill:
            base = len(rows)
            for _ in range(60):
                j = rng.randrange(base)
                rows.append(dict(rows[j]))
                meta.append(meta[j])
        prog = re_program("$b")
        argv = JFLAGS + ["put", prog]
        outs = eval_rows(prog, rows, stats=st)
        for row, mt, rec in zip(rows, meta, outs):
            node, go, py, ng, ml, ci, slash = mt
            if isinstance(rec, Fail):
                fail_violation(res, rec, "regex", "data", argv, json_rows([row]), f"regex functions on {row['a']!r} with {row['b']!r}")
                continue
            if slash:
                budgeted(res, slash_check_row, res, rec, row, py, slash, ng, argv)
                continue
            budgeted(res, re_check_row, res, rec, row["a"], go, py, ci, ng, ml, row["c"], row["d"], argv, row,
                     "data" + ("-quoted" if row["b"] != go else ""), node is not None and (ng >= 1 or M.rx_has_alt(node)))
        if fill:
            bump(res, "regex_cache_fill_patterns", fill)
        res["sample"] = {"monitor": "re/data", "subject": rows[0]["a"], "regex": rows[0]["b"], "replacement": rows[0]["c"]}
    else:
        node, go, py = gen_pattern(rng, safe=True)
        ng, ml = M.rx_ngroups(node), M.rx_min_len(node)
        ci = mode == "lit-i"
        rows = []
        for _ in range(n):
            a = gen_subject(rng, node)
            if ci and rng.random() < 0.7:
                a = "".join(ch.swapcase() if (len(ch.swapcase()) == 1 and rng.random() < 0.5) else ch for ch in a)
            c = rng.choice([r for r in REPLS if _max_ref(r) <= ng] or [""])
            rows.append({"a": a, "c": c, "d": rng.choice(["nonesuch", ""])})
        lit = '"' + go + '"' + ("i" if ci else "")
        prog = re_program(lit)
        argv = JFLAGS + ["put", prog]
        outs = eval_rows(prog, rows, stats=st)
        for row, rec in zip(rows, outs):
            if isinstance(rec, Fail):
                fail_violation(res, rec, "regex", mode, argv, json_rows([row]), f"regex functions on {row['a']!r} with literal {lit}")
                continue
            budgeted(res, re_check_row, res, rec, row["a"], go, py, ci, ng, ml, row["c"], row["d"], argv, row, "lit",
                     ng >= 1 or M.rx_has_alt(node))
        res["sample"] = {"monitor": "re/" + mode, "subject": rows[0]["a"], "regex": lit, "replacement": rows[0]["c"]}
    for k, v in st.items():
        bump(res, k, v)
    if not case.get("want_sample"):
        res["sample"] = None
    return res


def _max_ref(repl):
    return max([int(x) for x in re.findall(r"\\([0-9])", repl)] or [0])


# ==========================================================================================
# (fmt) fmtnum fmtifnum hexfmt --ofmt format-values against C printf

INT_POOL = ["0", "1", "-1", "7", "17", "-17", "255", "256", "-255", "1000", "65535", "123456789", "-123456789",
            "2147483648", "4294967295", "9007199254740993", "9223372036854775807", "-9223372036854775808",
            "0xff", "0xFF", "-0x10", "0x7fffffffffffffff", "0b101", "-0b11", "0o17", "1234567", "-1234567", "999", "1000000"]
FLOAT_POOL = ["0.0", "-0.0", "0.5", "1.5", "2.5", "-2.5", "3.5", "3.14159", "1e3", "1E-2", "123456.789", "1e10", "1e15",
              "1e16", "1e21", "1.7976931348623157e308", "5e-324", "0.1", "0.30000000000000004", "999999.5", "9.995",
              "-9.995", "1e-5", "0.0001", "0.00001234", "123456789.125", "-1234567.891", "3.75", "-3.75", "0.999999",
              "99.5", "1e100", "2.675", "1.005", "1234567.0", ".5", "5.", "17.0"]
NONNUM_POOL = ["abc", "", "0xZZ", "1_000", "true", "1e", "--1", "é", "1,5", "NaN-ish"]


def rand_number(rng):
    r = rng.random()
    if r < 0.30:
        return rng.choice(INT_POOL)
    if r < 0.40:
        return str(rng.randint(-10 ** rng.randint(1, 18), 10 ** rng.randint(1, 18)))
    if r < 0.70:
        return rng.choice(FLOAT_POOL)
    if r < 0.80:
        return repr(rng.uniform(-1, 1) * 10 ** rng.randint(-8, 12))
    if r < 0.88:
        return "%.*f" % (rng.randint(1, 6), rng.uniform(-1000, 1000))
    return rng.choice(NONNUM_POOL)


FMT_LITS = ["", "", "", "X", "ab ", ":", "é", "=", "[", "0x", " ", "field ", "half "]


def rand_format(rng, verbs="dxXobeEfFgG", allow_text=True, sepok=True):
    verb = rng.choice(verbs)
    flags = ""
    for f in "-+ 0#":
        p = {"-": 0.2, "+": 0.2, " ": 0.12, "0": 0.3, "#": 0.05}[f]
        if rng.random() < p:
            flags += f
    if rng.random() < 0.35:
        flags = ""
    width = rng.choice(["", "", "1", "3", "5", "8", "12", "20", str(rng.randint(1, 20))])
    prec = rng.choice([None, None, "0", "1", "2", "3", "6", "12", "", str(rng.randint(0, 12))])
    if rng.random() < 0.08:
        # beyond the 64-character scratch buffer of Go's fmt (width + precision), where it changes code path
        width = rng.choice([width, "64", "65", "70", "130"])
        prec = rng.choice([prec, "20", "40", "64", "70"])
    ell = ""
    if verb in "dx" and rng.random() < 0.3:
        ell = rng.choice(["l", "ll"])
    elif verb in "efg" and rng.random() < 0.3:
        ell = "l"
    sep = ""
    if sepok and verb in "df" and rng.random() < 0.06:
        sep, flags, ell = "_", "", ""
        if verb == "d":
            prec = None
    pre = rng.choice(FMT_LITS) if allow_text else ""
    post = rng.choice(FMT_LITS) if allow_text and rng.random() < 0.5 else ""
    return pre + "%" + flags + width + ("." + prec if prec is not None else "") + sep + ell + verb + post


def expected_fmt(fmt, xtext):
    """(expected string | ERROR | DECLINE, parsed format, value)"""
    p = M.parse_format(fmt)
    v = M.parse_number(xtext)
    if p is None:
        return DECLINE, p, v
    if v is None:
        if re.fullmatch(r"[-+]?(0x[0-9a-fA-F]+|0b[01]+|0o[0-7]+|[0-9.]+([eE][-+]?[0-9]+)?|inf|nan|infinity)", xtext, re.I):
            return DECLINE, p, v      # number-like spellings outside the generator's clear-cut grammar (C06 decides)
        return ERROR, p, v
    if p["sep"]:
        return M.sep_printf(p, v), p, v
    return M.c_printf(p, v), p, v


def fmt_class(p, v, got, xtext=None, nopost_ok=None):
    """Narrow class of a formatting disagreement (known findings are matched on it)."""
    g = got if isinstance(got, str) else ""
    if re.search(r"l[dxfeg]", p["pre"] + p["post"]):
        return "l-in-literal-text"        # "field %d": the l/ll length-modifier handling reaches into the literal text
    if p["post"] and nopost_ok is not None:
        if nopost_ok[0]:
            return "text-after-verb"      # the same format without the trailing text renders correctly
        g = nopost_ok[1] if isinstance(nopost_ok[1], str) else ""   # classify what else is wrong
    if p["verb"] in "XobEFG":
        return "verb-not-supported"
    if p["post"] and "%!" in g:
        return "text-after-verb"
    if p["verb"] in "xXob" and isinstance(v, (int, float)) and v <= -1 and "-" in g:
        return "negative-not-twos-complement"
    if p["sep"]:
        return "thousands-separator"
    if isinstance(v, float) and p["verb"] in "dxXob":
        return "float-under-int-verb"
    if p["flags"]:
        return "flags:" + "".join(sorted(p["flags"]))
    return "render"


def tsv_rows(cols):
    def enc(rows):
        lines = ["\t".join(cols)]
        for r in rows:
            lines.append("\t".join(str(r[c]) for c in cols))
        return "\n".join(lines) + "\n"
    return enc


TFLAGS = ["--itsv", "--ojson", "--jvquoteall", "--no-auto-flatten", "--no-auto-unflatten"]


def _fmt_nt(p):
    return bool(p and p["flags"] and (p["width"] or p["prec"] is not None))


def fmt_case(case):
    rng = random.Random(case["seed"])
    mode = case["mode"]
    res = case_result(_h("fmt", case["seed"], mode), nontrivial=False, evals=0)
    res["nontrivial_keys"] = []
    st = {}
    if mode in ("fn", "grid"):
        if mode == "fn":
            rows = []
            for i in range(case["n"]):
                f = rand_format(rng)
                pp = M.parse_format(f)
                g_ = f[:len(f) - len(pp["post"])] if pp and pp["post"] else f
                for _ in range(case["m"]):
                    rows.append({"k": len(rows), "x": rand_number(rng), "f": f, "g": g_})
        else:
            rows = [{"k": i, "x": x, "f": f, "g": f} for i, (f, x) in enumerate(case["pairs"])]
        exprs = [("fmtnum", "fmtnum($x,$f)"), ("fmtifnum", "fmtifnum($x,$f)"), ("hexfmt", "hexfmt($x)"),
                 ("fmtmap", 'fmtnum({"a":$x,"b":[$x]},$f)'), ("nopost", "fmtnum($x,$g)")]
        prog = program(exprs)
        enc = tsv_rows(["k", "x", "f", "g"])
        argv = TFLAGS + ["put", prog]
        outs = eval_rows(prog, rows, flags=TFLAGS, encode=enc, stats=st)
        for row, rec in zip(rows, outs):
            x, f = row["x"], row["f"]
            if isinstance(rec, Fail):
                fail_violation(res, rec, "fmtnum", "batch", argv, enc([row]), f"fmtnum({x},{f!r})")
                continue
            exp, p, v = expected_fmt(f, x)
            nt = _fmt_nt(p) and v is not None
            nopost_ok = None
            if p and p["post"] and isinstance(exp, str):
                gnp = got_of(rec, "nopost")
                nopost_ok = (gnp[0] == "value" and isinstance(gnp[1], str) and gnp[1] + p["post"] == exp, gnp[1])
            for fn, name in (("fmtnum", "fmtnum"), ("fmtifnum", "fmtifnum")):
                e = exp
                if fn == "fmtifnum" and exp is ERROR:
                    e = x
                    if x == "":
                        e = DECLINE
                g = got_of(rec, name)
                if e is DECLINE:
                    res["skipped"] += 1
                    continue
                res["evals"] += 1
                bump(res, "fn:" + fn)
                if p:
                    bump(res, "verb:" + p["verb"])
                if nt:
                    res["nontrivial_keys"].append(_h(fn, f, x))
                ok = (g[0] == "error") if e is ERROR else (g[0] == "value" and g[1] == e)
                if not ok:
                    add_violation(res, {"kind": "value", "fn": fn, "verb": p["verb"] if p else "?",
                                        "class": fmt_class(p, v, g[1], x, nopost_ok) if (p and exp is not ERROR) else "non-numeric-input"},
                                  f"{fn}({x}, {f!r}) = {g[1]!r} [{g[0]}], " +
                                  (f"C printf says {show(e)!r}" if exp is not ERROR else f"expected {show(e)!r} for a non-numeric input"),
                                  {"argv": argv, "stdin": enc([row]), "expected": show(e), "got": g[1]})
            # recursion into collections
            if exp is not DECLINE and exp is not ERROR:
                g = got_of(rec, "fmtmap")
                res["evals"] += 1
                g1 = got_of(rec, "fmtnum")
                if g1[0] == "value" and not (g[0] == "value" and g[1] == {"a": g1[1], "b": [g1[1]]}):
                    add_violation(res, {"kind": "value", "fn": "fmtnum", "class": "recursion-into-map"},
                                  f"fmtnum of a map/array holding {x} with {f!r} = {g[1]!r}, but on the scalar {g1[1]!r}",
                                  {"argv": argv, "stdin": enc([row]), "got": g[1]})
            if isinstance(v, int):
                _check(res, "hexfmt", M.hexfmt(v), got_of(rec, "hexfmt"), (x,), argv, row, v < 0,
                       cls="negative" if v < 0 else "nonnegative")
        res["sample"] = {"monitor": "fmt/" + mode, "x": rows[0]["x"], "format": rows[0]["f"]}
    elif mode == "ofmt":
        f = rand_format(rng, verbs="efgEFG" if rng.random() < 0.5 else "efg", allow_text=False, sepok=False)
        f = f.replace("#", "")
        rows = [{"k": i, "x": rand_number(rng)} for i in range(case["m"])]
        enc = tsv_rows(["k", "x"])
        argv = ["--ofmt", f] + TFLAGS + ["cat"]
        r = run_mlr(argv, stdin=enc(rows), cpu_s=10)
        bump(res, "procs")
        recs = parse_out(r.out) if r.ok and not r.crashed() else None
        if recs is None or len(recs) != len(rows):
            fail_violation(res, Fail(r), "--ofmt", "batch", argv, enc(rows), f"--ofmt {f!r}")
        else:
            p = M.parse_format(f)
            for row, rec in zip(rows, recs):
                x = row["x"]
                v = M.parse_number(x)
                if isinstance(v, float):
                    e = M.c_printf(p, v)
                elif isinstance(v, int) or expected_fmt(f, x)[0] is ERROR:
                    e = x          # ints and non-numbers are not touched by the float format
                else:
                    e = DECLINE
                if e is DECLINE:
                    res["skipped"] += 1
                    continue
                res["evals"] += 1
                bump(res, "fn:--ofmt")
                if _fmt_nt(p) and isinstance(v, float):
                    res["nontrivial_keys"].append(_h("ofmt", f, x))
                if rec.get("x") != e:
                    add_violation(res, {"kind": "value", "fn": "--ofmt", "verb": p["verb"],
                                        "class": fmt_class(p, v, rec.get("x"), x) if isinstance(v, float) else "touches-non-float"},
                                  f"--ofmt {f!r} renders {x} as {rec.get('x')!r}, C printf says {e!r}",
                                  {"argv": argv, "stdin": enc([row]), "expected": e, "got": rec.get("x")})
        res["sample"] = {"monitor": "fmt/ofmt", "format": f, "x": rows[0]["x"]}
    elif mode == "fv":
        # numeric formats: leading text only (the documented example with text on both sides is -s X%sX)
        fi = rng.choice(FMT_LITS) + rand_format(rng, verbs="ddxXob" if rng.random() < 0.5 else "dx", sepok=False, allow_text=False)
        ff = rng.choice(FMT_LITS) + rand_format(rng, verbs="efgEFG" if rng.random() < 0.5 else "efg", sepok=False, allow_text=False)
        sflags = rng.choice(["", "", "-"])
        sw = rng.choice(["", "", "3", "8", "12"])
        fs = rng.choice(FMT_LITS) + "%" + sflags + sw + "s" + rng.choice(FMT_LITS)
        coerce = rng.random() < 0.25
        rows = [{"k": "r%d" % i, "x": rand_number(rng), "s": rng.choice(["abc", "é日", "", "x y", "true"])} for i in range(case["m"])]
        enc = tsv_rows(["k", "x", "s"])
        argv = TFLAGS + ["format-values", "-i", fi, "-f", ff, "-s", fs] + (["-n"] if coerce else [])
        r = run_mlr(argv, stdin=enc(rows), cpu_s=10)
        bump(res, "procs")
        recs = parse_out(r.out) if r.ok and not r.crashed() else None
        if recs is None or len(recs) != len(rows):
            fail_violation(res, Fail(r), "format-values", "batch", argv, enc(rows), f"format-values -i {fi!r} -f {ff!r} -s {fs!r}")
        else:
            pi, pf, ps = M.parse_format(fi), M.parse_format(ff), M.parse_format(fs)

            def sfmt(t):
                body = ("%" + sflags + sw + "s") % t
                if sw and len(t) < int(sw):     # Python pads by code points, as C pads by bytes: only claim ASCII
                    if not t.isascii():
                        return DECLINE
                return ps["pre"] + body + ps["post"]
            for row, rec in zip(rows, recs):
                for col in ("k", "x", "s"):
                    t = row[col]
                    v = M.parse_number(t)
                    if isinstance(v, int) and not coerce:
                        e, p = M.c_printf(pi, v), pi
                    elif isinstance(v, (int, float)):
                        e, p = M.c_printf(pf, v), pf
                    elif expected_fmt(ff, t)[0] is ERROR:
                        e, p = sfmt(t), ps
                    else:
                        e, p = DECLINE, None
                    if e is DECLINE:
                        res["skipped"] += 1
                        continue
                    res["evals"] += 1
                    bump(res, "fn:format-values")
                    if _fmt_nt(p) and v is not None:
                        res["nontrivial_keys"].append(_h("fv", fi, ff, fs, coerce, t))
                    if rec.get(col) != e:
                        add_violation(res, {"kind": "value", "fn": "format-values", "verb": p["verb"],
                                            "class": fmt_class(p, v, rec.get(col), t) if v is not None else
                                            ("l-in-literal-text" if re.search(r"l[dxfeg]", fs) else
                                             "text-after-verb" if ps["post"] and rec.get(col) == t else "string-format")},
                                      f"format-values -i {fi!r} -f {ff!r} -s {fs!r}{' -n' if coerce else ''} renders {t!r} as {rec.get(col)!r}, C printf says {e!r}",
                                      {"argv": argv, "stdin": enc([row]), "expected": e, "got": rec.get(col)})
        res["sample"] = {"monitor": "fmt/format-values", "argv": argv[5:], "x": rows[0]["x"]}
    for k, v in st.items():
        bump(res, k, v)
    if not case.get("want_sample"):
        res["sample"] = None
    return res


def fmt_grid(chk):
    """thorough: the full flag-subset x verb x width x precision grid, each with 40 numbers"""
    rng = chk.rng("fmtgrid")
    fmts = []
    flagsets = []
    for m in range(16):
        flagsets.append("".join(f for i, f in enumerate("-+ 0") if m >> i & 1))
    for verb in "dxXobeEfFgG":
        for fl in flagsets:
            for w in ("", "3", "12"):
                for pr in (None, "0", "3", "12"):
                    fmts.append("%" + fl + w + ("." + pr if pr is not None else "") + verb)
    cases = []
    chunk = 40
    for i in range(0, len(fmts), chunk):
        pairs = []
        for f in fmts[i:i + chunk]:
            for _ in range(40):
                x = rand_number(rng)
                pairs.append((f, x))
        cases.append({"seed": f"{chk.seed}/fmt/grid/{i}", "mode": "grid", "pairs": pairs})
    return cases, len(fmts)


# ==========================================================================================
# (verb) wrapping verbs == put applying the function per field (metamorphic, no model)

KEY_POOL = ["a", "b", "c", "name", "Ab c", "x y", "é", "Key2", "日本", " pad ", "q_r", "Zz", "long key", "n1", "wÖrd"]


def dsl_lit(t):
    """A DSL string literal for text without backslashes / quotes / non-BMP characters."""
    assert '"' not in t and "\\" not in t and all(ord(c) <= 0xFFFF for c in t), t
    return '"' + t + '"'


TITLE_OK = set("abcdefghijklmnopqrstuvwxyzABCDEFGHIJKLMNOPQRSTUVWXYZ éöñüÉÖàαβΩдЖ")


def case_safe(t, strict):
    """Keep the characters on which every casing library agrees (one-to-one simple mapping);
    strict: letters and single spaces only (what "word" / "first letter" mean is only clear there)."""
    out = []
    for ch in t:
        if M.toupper(ch) is DECLINE or M.tolower(ch) is DECLINE or "\u10d0" <= ch <= "\u10ff" or "\u1c90" <= ch <= "\u1cbf":
            continue
        if strict and ch not in TITLE_OK:
            continue
        out.append(ch)
    t = "".join(out)
    return re.sub(" +", " ", t) if strict else t


def verb_records(rng, n, ws=False):
    recs = []
    for _ in range(n):
        keys = rng.sample(KEY_POOL, rng.randint(1, 6))
        # no two keys equal after case folding / whitespace cleaning / unspacing
        seen, ks = set(), []
        for k in keys:
            f = re.sub(r"\s+", " ", k.strip()).lower().replace(" ", "_")
            if f not in seen:
                seen.add(f)
                ks.append(k)
        rec = {}
        for k in ks:
            kind = rng.choice(["ascii", "mixed", "mb", "ws", "empty", "one", "latin1"] + (["ws", "ws"] if ws else []))
            v = rand_string(rng, kind=kind, maxlen=5)
            rec[k] = v
        recs.append(rec)
    return recs


def _sel_expr(sel, kvar="k"):
    """DSL boolean: is field name `k` selected by the verb's field option."""
    if sel[0] == "all":
        return "true"
    if sel[0] == "f":
        return "(" + " || ".join(f"{kvar} == {dsl_lit(x)}" for x in sel[1]) + ")"
    return f"strmatch({kvar}, {dsl_lit(sel[1])})"


def verb_case(case):
    rng = random.Random(case["seed"])
    res = case_result(_h("verb", case["seed"]), nontrivial=False, evals=0)
    res["nontrivial_keys"] = []
    which = case["verb"]
    if which == "subs-law":
        return subs_case(case)
    recs = verb_records(rng, case["n"], ws=which in ("clean-whitespace", "unspace"))
    how = None
    if which == "case":
        how = rng.choice(["-u", "-l", "-s", "-t"])
        recs2 = []
        for rec in recs:
            o = {}
            for k, v in rec.items():
                k2 = case_safe(k, how in ("-s", "-t")) or "k"
                if k2.lower() not in {x.lower() for x in o}:
                    o[k2] = case_safe(v, how in ("-s", "-t"))
            recs2.append(o)
        recs = recs2
    allkeys = sorted({k for r in recs for k in r})
    inp = json_rows(recs)
    io = ["--ijson", "--ojson"]
    model = None
    if which in ("sub", "gsub", "ssub"):
        r = rng.random()
        if r < 0.4:
            fs = rng.sample(allkeys, min(len(allkeys), rng.randint(1, 3))) + (["nosuch"] if rng.random() < 0.3 else [])
            fs = [f for f in fs if "," not in f]
            sel, vopt = ("f", fs), ["-f", ",".join(fs)]
        elif r < 0.7:
            sel, vopt = ("all",), ["-a"]
        else:
            # the regression corpus spells it `-r -f {regex}` (the usage text says `-r {regex}`, which the parser rejects)
            rx = rng.choice(["^[a-c]$", "e", "^.$", "[A-Z]", " ", "^n", "é|日"])
            sel, vopt = ("r", rx), ["-r", "-f", rx]
        if which == "ssub":
            old = rng.choice([".", "a", "é", "b c", "*", "(", "l", " ", "日", "ab", "[a]"])
            new = rng.choice(["", "X", "é", "<>", "a", "  "])
            fexpr = f"ssub(v, {dsl_lit(old)}, {dsl_lit(new)})"
        else:
            while True:
                node, go, py = gen_pattern(rng, safe=True)
                if M.rx_min_len(node) < 1:
                    continue      # the verbs pass empty values through untouched ("safe_sub"); only matters for empty matches
                if go.startswith("-"):
                    continue      # would be read as an option
                break
            ng = M.rx_ngroups(node)
            new = rng.choice([x for x in ["", "X", "[\\0]", "<\\1>", "\\2\\1", "é", "a b"] if _max_ref(x) <= ng])
            old = go
            fexpr = f'{which}(v, "{go}", "{new}")'
        vargv = [which] + vopt + [old, new]
        prog = f"for (k,v in $*) {{ if ({_sel_expr(sel)}) {{ $[k] = {fexpr} }} }}"
    elif which == "case":
        part = rng.choice([[], ["-k"], ["-v"]])
        if rng.random() < 0.5:
            fs = [f for f in rng.sample(allkeys, min(len(allkeys), rng.randint(1, 3))) if "," not in f]
            sel, vopt = ("f", fs), ["-f", ",".join(fs)]
        else:
            sel, vopt = ("all",), []
        fn = {"-u": "toupper({})", "-l": "tolower({})", "-s": "capitalize(tolower({}))", "-t": None}[how]
        vargv = ["case", how] + part + vopt
        if how == "-t":
            prog = None

            def title(t):
                low = M.tolower(t)
                if low is DECLINE:
                    return DECLINE
                ws_ = []
                for w in low.split(" "):
                    c = M.capitalize(w)
                    if c is DECLINE:
                        return DECLINE
                    ws_.append(c)
                return " ".join(ws_)

            def model(rec):
                out = {}
                for k, v in rec.items():
                    chosen = sel[0] == "all" or k in sel[1]
                    nk = title(k) if (chosen and part != ["-v"]) else k
                    nv = title(v) if (chosen and part != ["-k"]) else v
                    if nk is DECLINE or nv is DECLINE or not M.is_ws_simple(k + v) or "\t" in k + v:
                        return DECLINE
                    out[nk] = nv
                return out
        else:
            kf = fn.format("k") if part != ["-v"] else "k"
            vf = fn.format("v") if part != ["-k"] else "v"
            prog = (f"map o = {{}}; for (k,v in $*) {{ if ({_sel_expr(sel)}) {{ o[{kf}] = {vf} }} else {{ o[k] = v }} }} $* = o")
    elif which == "clean-whitespace":
        part = rng.choice([[], ["-k"], ["-v"], ["--keys-only"], ["--values-only"]])
        vargv = ["clean-whitespace"] + part
        kf = "clean_whitespace(k)" if part not in (["-v"], ["--values-only"]) else "k"
        vf = "clean_whitespace(v)" if part not in (["-k"], ["--keys-only"]) else "v"
        prog = f"map o = {{}}; for (k,v in $*) {{ o[{kf}] = {vf} }} $* = o"
    elif which == "unspace":
        part = rng.choice([[], ["-k"], ["-v"]])
        fill = rng.choice([None, "X", "é", "__", "."])
        vargv = ["unspace"] + (["-f", fill] if fill is not None else []) + part
        fl = dsl_lit(fill if fill is not None else "_")
        kf = f'gssub(k, " ", {fl})' if part != ["-v"] else "k"
        vf = f'gssub(v, " ", {fl})' if part != ["-k"] else "v"
        prog = f"map o = {{}}; for (k,v in $*) {{ o[{kf}] = {vf} }} $* = o"
    elif which == "utf8-to-latin1":
        vargv = ["utf8-to-latin1"]
        prog = "$* = utf8_to_latin1($*)"
    elif which == "latin1-to-utf8":
        # Latin-1 bytes travel in DKVP (JSON text has to be UTF-8)
        io = ["--idkvp", "--ojson", "--jvquoteall", "--no-auto-unflatten"]
        lines = []
        for rec in recs:
            pairs = []
            for i, (k, v) in enumerate(rec.items()):
                v2 = "".join(c for c in v if ord(c) < 256 and c not in ",=\n\r")
                pairs.append(f"f{i}=" + v2)
            lines.append(",".join(pairs))
        inp = ("\n".join(lines) + "\n").encode("latin-1")
        vargv = ["latin1-to-utf8"]
        prog = "$* = latin1_to_utf8($*)"

        def model_bytes():
            return ("\n".join(lines) + "\n")
    elif which == "format-values":
        io = ["--ijson", "--ojson"]
        fi = rand_format(rng, verbs="dx", allow_text=False, sepok=False).replace("#", "")
        ff = rand_format(rng, verbs="efg", allow_text=False, sepok=False).replace("#", "")
        recs = [{"k": "r%d" % i, "x": Num(x), "y": "abc"} for i, x in enumerate(
            [t for t in (rand_number(rng) for _ in range(case["n"] * 2)) if M.parse_number(t) is not None and re.fullmatch(r"-?(0|[1-9][0-9]*)(\.[0-9]+)?([eE][-+]?[0-9]+)?", t)])]
        inp = json_rows(recs)
        vargv = ["format-values", "-i", fi, "-f", ff]
        prog = (f"for (k,v in $*) {{ if (is_int(v)) {{ $[k] = fmtnum(v, {dsl_lit(fi)}) }} "
                f"elif (is_float(v)) {{ $[k] = fmtnum(v, {dsl_lit(ff)}) }} }}")
    else:
        raise ValueError(which)

    if which in ("sub", "gsub", "ssub") and sel[0] == "r":
        # the usage text documents `-r {regex}`; the regression corpus uses `-r -f {regex}`; both must select the same fields
        dargv = [which, "-r", sel[1], old, new]
        rd = run_mlr(io + dargv, stdin=inp, cpu_s=10)
        bump(res, "procs")
        res["evals"] += 1
        if not rd.ok:
            add_violation(res, {"kind": "documented-option-rejected", "verb": which, "opt": "-r {regex}"},
                          f"mlr {' '.join(shlex.quote(a) for a in dargv)}: the form documented by `mlr {which} --help` "
                          f"(-r {{regex}}) fails: {rd.err.strip()[:100]!r}",
                          {"argv": io + dargv, "stdin": inp, "stderr": rd.err[:500]})
    r1 = run_mlr(io + vargv, stdin=inp, cpu_s=10)
    bump(res, "procs")
    if which in ("sub", "gsub", "ssub") and sel[0] == "r" and rd.ok and r1.ok and rd.stdout != r1.stdout:
        add_violation(res, {"kind": "option-spellings-differ", "verb": which, "opt": "-r"},
                      f"mlr {' '.join(shlex.quote(a) for a in dargv)} and mlr {' '.join(shlex.quote(a) for a in vargv)} "
                      f"(the two spellings of -r) give different output",
                      {"argv": io + dargv, "stdin": inp, "other_argv": io + vargv, "stdout": rd.stdout[:2000], "other_stdout": r1.stdout[:2000]})
    detail = {"argv": io + vargv, "stdin": inp, "partner_argv": io + ["put", prog] if prog else None}
    opts = " ".join(a for a in vargv[1:] if a in ("-f", "-r", "-a", "-k", "-v", "-u", "-l", "-s", "-t", "-i", "-n",
                                                   "--keys-only", "--values-only"))
    if not r1.ok or r1.crashed():
        fail_violation(res, Fail(r1), which, "verb-run " + opts, io + vargv, inp, f"mlr {' '.join(vargv)}")
        return res
    res["evals"] += len(recs)
    bump(res, "verb:" + which, len(recs))
    if prog is not None:
        r2 = run_mlr(io + ["put", prog], stdin=inp, cpu_s=10)
        bump(res, "procs")
        if not r2.ok or r2.crashed():
            fail_violation(res, Fail(r2), which, "partner-run", io + ["put", prog], inp, f"partner program of mlr {' '.join(vargv)}")
            return res
        if r1.stdout != r2.stdout:
            o1, o2 = parse_out(r1.stdout.decode("utf-8", "replace")), parse_out(r2.stdout.decode("utf-8", "replace"))
            what = ""
            if o1 and o2 and len(o1) == len(o2):
                for i, (x, y) in enumerate(zip(o1, o2)):
                    if x != y or list(x) != list(y):
                        what = f"record {i+1}: verb gives {short(json.dumps(x, ensure_ascii=False), 200)}, function gives {short(json.dumps(y, ensure_ascii=False), 200)}"
                        break
            add_violation(res, {"kind": "verb-vs-function", "verb": which, "opts": opts},
                          f"mlr {' '.join(shlex.quote(a) for a in vargv)} differs from put applying the function per field; {what}",
                          dict(detail, verb_stdout=r1.stdout[:3000], function_stdout=r2.stdout[:3000]))
    if model is not None:
        outs = parse_out(r1.out)
        for rec, o in zip(recs, outs or []):
            e = model(rec)
            if e is DECLINE:
                res["skipped"] += 1
                continue
            if o != e or list(o) != list(e):
                add_violation(res, {"kind": "verb-vs-model", "verb": which, "opts": opts},
                              f"mlr {' '.join(vargv)} on {short(json.dumps(rec, ensure_ascii=False), 150)} gives "
                              f"{short(json.dumps(o, ensure_ascii=False), 150)}, expected {short(json.dumps(e, ensure_ascii=False), 150)}",
                              dict(detail, expected=e, got=o))
    if which == "latin1-to-utf8":
        # the verb's output must be the Latin-1 reading of the input bytes
        outs = parse_out(r1.stdout.decode("utf-8", "replace"))
        exp = [dict(p.split("=", 1) for p in ln.split(",")) for ln in lines]
        if outs != exp:
            add_violation(res, {"kind": "verb-vs-model", "verb": which, "opts": ""},
                          f"latin1-to-utf8 output is not the Latin-1 decoding of the input",
                          dict(detail, expected=exp[:5], got=(outs or [])[:5]))
    changed = r1.stdout != (inp if isinstance(inp, bytes) else inp.encode())
    if changed and (has_mb(inp) if isinstance(inp, str) else True):
        res["nontrivial_keys"].append(_h("verb", which, vargv, case["seed"]))
    res["sample"] = {"monitor": "verb", "argv": vargv, "records": len(recs)} if case.get("want_sample") else None
    return res


# ==========================================================================================
# (verb/subs-law) the sub / gsub / ssub verbs are documented as the DSL functions of the same name applied
# to the chosen fields ("like the `sub` DSL function"): verb == put with the function per field == the
# independent reference (Python re under Go's replace-all rule), over a hostile regex pool
# (backslash sequences that are regex syntax, anchors, classes, quantifiers, alternation, flags,
# the Miller "..."i form, pieces that match the empty string).  The regex reaches the verb as a
# command-line argument and the function as a string variable (put -s), byte for byte the same text.

SUBS_NEW = ["", "X", "<\\0>", "[\\1]", "\\2\\1", "é", "a b", "\\t", "<\\t\\0>", "\\\\", "\\x41", "\\n", "\\x1f", "a\\\\b",
            "\\1\\1", "$1", "&", "日\\0本", "<\\0|\\0>", "\\3\\2\\1"]
SSUB_NEW = ["", "X", "é", "<>", "a b", "\\t", "\\\\", "\\x41", "$1", "&", "日本", "a\\\\b"]
SSUB_OLD = [".", "a", "é", "b c", "*", "(", "l", " ", "日", "ab", "[a]", "\\t", "\\\\", "\\x2e", "a?b", "?", "|", "\\\\\\\\",
            "cat", "^", "$", "\\n", "C:\\\\tmp", "\\x5c", ".*", "a\\\\b", "\\x3f", "x.y", "k?", "\\x41"]
NAME_RX = [("^[a-c]$", False), ("e", False), ("^.$", False), ("[A-Z]", False), (" ", False), ("^n", False), ("é|日", False),
           ("^[A-C]", True), ("KEY|name", True), ("z$", True)]
_NUMLIKE = re.compile(r"[-+]?[0-9a-fA-FxXoObBpP._+\-]*|[-+]?(?i:inf|infinity|nan)")


def subs_records(rng, n, samples):
    recs = []
    for _ in range(n):
        ks = rng.sample(KEY_POOL, rng.randint(1, 5))
        recs.append({k: M.hostile_subject(rng, samples) for k in ks})
    return recs


def subs_case(case):
    rng = random.Random(case["seed"])
    res = case_result(_h("subs-law", case["seed"]), nontrivial=False, evals=0)
    res["nontrivial_keys"] = []
    which = case["which"]
    io = ["--ijson", "--ojson"]
    # ---- the search text
    if which == "ssub":
        old = rng.choice(SSUB_OLD)
        old_u = M.c_unescape(old)      # "Both the search and replacement strings support C-style backslash escapes"
        new = rng.choice(SSUB_NEW)
        samples = [old_u, old_u + old_u, "x" + old_u + "y", old, "cat", "a?b", "x.y", "xzy", "C:\\tmp", "C:\tmp", "a\\b"]
        h = None
        rx = None
        ng = 0
    else:
        for _ in range(200):
            if rng.random() < 0.75:
                h = M.hostile_regex(rng)
            else:
                node, go, py = gen_pattern(rng)
                h = {"go": go, "bare": go, "py": py, "flags": 0, "groups": M.rx_ngroups(node), "empty": M.rx_min_len(node) < 1,
                     "samples": [M.rx_sample(node, rng) for _ in range(4)], "quoted": None}
            if h["go"].startswith("-") or _NUMLIKE.fullmatch(h["go"]):
                continue        # would be read as an option / inferred as a number by put -s
            break
        old = h["go"]
        old_u = old                    # sub / gsub: only "the replacement string supports C-style backslash escapes"
        rx = None
        if h["py"] is not None:
            try:
                rx = re.compile(h["py"], h["flags"])
                if rx.groups != h["groups"]:
                    rx = None
            except re.error:
                rx = None
        ng = h["groups"]
        new = rng.choice([x for x in SUBS_NEW if _max_ref(x) <= ng])
        samples = h["samples"]
    new_u = M.c_unescape(new)
    assert new_u is not DECLINE and old_u is not DECLINE, (old, new)
    recs = subs_records(rng, case["n"], samples)
    allkeys = sorted({k for r in recs for k in r})
    inp = json_rows(recs)
    # ---- field selection
    r = rng.random()
    alt_vopt = None
    if r < 0.4:
        fs = rng.sample(allkeys, min(len(allkeys), rng.randint(1, 3))) + (["nosuch"] if rng.random() < 0.3 else [])
        sel, vopt = ("f", fs), ["-f", ",".join(fs)]
        chosen = lambda k: k in fs
    elif r < 0.7:
        sel, vopt = ("all",), ["-a"]
        chosen = lambda k: True
    else:
        nrx, nci = rng.choice(NAME_RX)
        arg = '"' + nrx + '"i' if nci else nrx
        sel = ("r", nrx, nci)
        # documented spelling `-r {regex}` and the regression corpus's `-r -f {regex}`: same selection
        vopt, alt_vopt = (["-r", arg], ["-r", "-f", arg]) if rng.random() < 0.5 else (["-r", "-f", arg], ["-r", arg])
        nrc = re.compile(nrx, re.IGNORECASE if nci else 0)
        chosen = lambda k: nrc.search(k) is not None
    if sel[0] == "r":
        selx = "strmatch(k, " + dsl_lit(sel[1]) + ("i" if sel[2] else "") + ")"
    else:
        selx = _sel_expr(sel)
    vargv = [which] + vopt + [old, new]
    if which == "ssub":
        prog = f"for (k,v in $*) {{ if ({selx}) {{ $[k] = ssub(v, @old, @new) }} }}"
        pargv = io + ["put", "-s", "old=" + old_u, "-s", "new=" + new_u, prog]
    else:
        prog = f"for (k,v in $*) {{ if ({selx}) {{ $[k] = {which}(v, @re, @new) }} }}"
        pargv = io + ["put", "-s", "re=" + old_u, "-s", "new=" + new_u, prog]
    opts = vopt[0] if len(vopt) < 3 else "-r -f"
    rcls = "ssub" if which == "ssub" else ("regex-backslash" if "\\" in old else "regex-quoted" if h["quoted"] else "regex")

    # ---- the reference
    def ref(v):
        if which == "ssub":
            return v.replace(old_u, new_u, 1) if old_u != "" else DECLINE
        if rx is None:
            return DECLINE
        f = lambda m: M.expand_repl(new_u, m, ng)
        return M.go_replace_all(rx, v, f, count=1 if which == "sub" else None)

    r1 = run_mlr(io + vargv, stdin=inp, cpu_s=10)
    r2 = run_mlr(pargv, stdin=inp, cpu_s=10)
    bump(res, "procs", 2)
    detail = {"argv": io + vargv, "stdin": inp, "partner_argv": pargv}
    ok1, ok2 = r1.ok and not r1.crashed(), r2.ok and not r2.crashed()
    if r1.verdict == "slow" or r2.verdict == "slow":
        res["inconc"] += 1
        return res
    if not ok1 and not ok2 and r1.verdict == "exited" and r2.verdict == "exited" and not r1.crashed() and not r2.crashed() \
            and rx is None and which != "ssub":
        res["skipped"] += len(recs)      # a text neither Go's regexp nor the reference accepts: outside the domain
        bump(res, "skipped:subs-law-regex-rejected")
        return res
    if not ok1:
        fail_violation(res, Fail(r1), which, "verb-run " + opts + " " + rcls, io + vargv, inp,
                       f"mlr {' '.join(shlex.quote(a) for a in vargv)} (the function form " + ("also fails" if not ok2 else "succeeds") + ")")
        return res
    if not ok2:
        fail_violation(res, Fail(r2), which, "partner-run " + rcls, pargv, inp,
                       f"{which}() with the regex {old!r} as a string variable (the verb succeeds)")
        return res
    o1 = parse_out(r1.stdout.decode("utf-8", "replace"))
    o2 = parse_out(r2.stdout.decode("utf-8", "replace"))
    if o1 is None or o2 is None or len(o1) != len(recs) or len(o2) != len(recs):
        add_violation(res, {"kind": "verb-vs-function", "verb": which, "opts": opts, "class": "structure"},
                      f"mlr {' '.join(shlex.quote(a) for a in vargv)}: output is not {len(recs)} JSON records",
                      dict(detail, verb_stdout=r1.stdout[:2000], function_stdout=r2.stdout[:2000]))
        return res
    res["evals"] += len(recs)
    bump(res, "verb:" + which + "-law", len(recs))
    seen = set()
    nfield = 0
    touched = False
    for i, (rec, a, b) in enumerate(zip(recs, o1, o2)):
        if list(a) != list(rec) or list(b) != list(rec):
            if "structure" not in seen:
                seen.add("structure")
                add_violation(res, {"kind": "verb-vs-function", "verb": which, "opts": opts, "class": "structure"},
                              f"mlr {' '.join(shlex.quote(x) for x in vargv)}: record {i+1} has keys {list(a)} (verb) / {list(b)} (function), input {list(rec)}",
                              dict(detail, record=rec))
            continue
        for k, v in rec.items():
            e = v
            if chosen(k):
                box = []
                e = box[0] if budgeted(res, lambda: box.append(ref(v)), count=False) else DECLINE
            gv, gf = a[k], b[k]
            nfield += 1
            if gv != v:
                touched = True
            emptycls = v == "" and chosen(k) and gv == ""
            if gv != gf:
                cls = "empty-value-untouched" if emptycls else rcls
                if ("vf", cls) not in seen:
                    seen.add(("vf", cls))
                    add_violation(res, {"kind": "verb-vs-function", "verb": which, "opts": opts, "class": cls},
                                  f"mlr {' '.join(shlex.quote(x) for x in vargv)} on the field value {v!r} gives {gv!r}; "
                                  f"{which}(v, {old!r}, {new!r}) per field gives {gf!r}" + (f"; reference {e!r}" if e is not DECLINE else ""),
                                  dict(detail, field=k, value=v, verb_gives=gv, function_gives=gf, reference=show(e) if e is not DECLINE else None))
            if e is DECLINE:
                res["skipped"] += 1
                continue
            res["evals"] += 1
            if gv != e and not (gv != gf and gf == e):
                cls = "empty-value-untouched" if (emptycls and gf == e) else rcls
                if ("vm", cls) not in seen:
                    seen.add(("vm", cls))
                    add_violation(res, {"kind": "verb-vs-model", "verb": which, "opts": opts, "class": cls},
                                  f"mlr {' '.join(shlex.quote(x) for x in vargv)} on the field value {v!r} gives {gv!r}; "
                                  f"the reference regex engine gives {e!r}",
                                  dict(detail, field=k, value=v, expected=e, got=gv))
            if gf != e:
                if ("fm", rcls) not in seen:
                    seen.add(("fm", rcls))
                    add_violation(res, {"kind": "value", "fn": which, "class": "hostile:" + rcls},
                                  f"{which}({v!r}, {old!r}, {new_u!r}) = {gf!r}; the reference regex engine gives {e!r}",
                                  {"argv": pargv, "stdin": json_rows([{k: v}]), "expected": e, "got": gf})
    if r1.stdout != r2.stdout and not seen:
        add_violation(res, {"kind": "verb-vs-function", "verb": which, "opts": opts, "class": "bytes"},
                      f"mlr {' '.join(shlex.quote(x) for x in vargv)}: same parsed records as the function form but different output bytes",
                      dict(detail, verb_stdout=r1.stdout[:2000], function_stdout=r2.stdout[:2000]))
    if alt_vopt is not None:
        aargv = [which] + alt_vopt + [old, new]
        r3 = run_mlr(io + aargv, stdin=inp, cpu_s=10)
        bump(res, "procs")
        res["evals"] += 1
        if r3.verdict == "slow":
            res["inconc"] += 1
        elif not r3.ok or r3.crashed():
            add_violation(res, {"kind": "documented-option-rejected", "verb": which, "opt": "-r {regex}" if len(alt_vopt) == 2 else "-r -f {regex}"},
                          f"mlr {' '.join(shlex.quote(x) for x in aargv)} fails although mlr {' '.join(shlex.quote(x) for x in vargv)} runs: {r3.err.strip()[:100]!r}",
                          {"argv": io + aargv, "stdin": inp, "stderr": r3.err[:500]})
        elif r3.stdout != r1.stdout:
            add_violation(res, {"kind": "option-spellings-differ", "verb": which, "opt": "-r"},
                          f"mlr {' '.join(shlex.quote(x) for x in aargv)} and mlr {' '.join(shlex.quote(x) for x in vargv)} (the two spellings of -r) give different output",
                          {"argv": io + aargv, "stdin": inp, "other_argv": io + vargv, "stdout": r3.stdout[:2000], "other_stdout": r1.stdout[:2000]})
    if touched:
        res["nontrivial_keys"].append(_h("subs-law", which, vargv, case["seed"]))
    res["sample"] = {"monitor": "verb/subs-law", "argv": vargv, "records": len(recs)} if case.get("want_sample") else None
    return res


# ==========================================================================================
# (bad) invalid UTF-8 arguments: no crash, a value comes back, strlen >= 0; byte functions exact

BAD_BYTES = [b"\xff", b"\xfe", b"\xc3", b"\xe2\x82", b"\x80", b"\xbf", b"\xf0\x9f\x98", b"\xc0\xaf", b"\xed\xa0\x80",
             b"\xf4\x90\x80\x80", b"\xe9", b"\xc3\x28", b"\xa0\xa1", b"\xf8\x88\x80\x80\x80"]
BAD_EXPRS = [("strlen", "strlen($a)"), ("toupper", "toupper($a)"), ("tolower", "tolower($a)"), ("capitalize", "capitalize($a)"),
             ("lstrip", "lstrip($a)"), ("rstrip", "rstrip($a)"), ("strip", "strip($a)"),
             ("clean_whitespace", "clean_whitespace($a)"), ("collapse_whitespace", "collapse_whitespace($a)"),
             ("truncate", "truncate($a,$n)"), ("leftpad", 'leftpad($a,$w,"*")'), ("rightpad", 'rightpad($a,$w,"é")'),
             ("substr0", "substr0($a,$m,$n)"), ("substr1", "substr1($a,$m,$n)"), ("slice", "$a[$m:$n]"),
             ("contains", "contains($a,$b)"), ("index", "index($a,$b)"), ("ssub", 'ssub($a,$b,"X")'), ("gssub", 'gssub($a,$b,"X")'),
             ("sub", 'sub($a,"[^a]","<\\0>")'), ("gsub", 'gsub($a,".","x")'), ("gsub2", 'gsub($a,"([^a-z])","[\\1]")'),
             ("regextract", 'regextract($a,".+")'), ("regextract_or_else", 'regextract_or_else($a,"[^ -~]+","no")'),
             ("strmatch", 'strmatch($a,"^.*$")'), ("strmatchx", 'strmatchx($a,"(.)(.)")'),
             ("match", '$a =~ "(.)(.*)"'), ("cap", '"\\1|\\2"'), ("matchi", '$a =~ "A(.)"i'),
             ("splitax", 'splitax($a,$b)'), ("splitnvx", 'splitnvx($a,"a")'), ("joinv", 'joinv(splitax($a,"a"),"a")'),
             ("format", 'format("{}:{}",$a,$b)'), ("unformatx", 'unformatx("{}a{}",$a)'), ("dot", "$a . $b"),
             ("json_stringify", "json_stringify($a)"), ("json_rt", "json_parse(json_stringify($a))"),
             ("latin1_to_utf8", "latin1_to_utf8($a)"), ("utf8_to_latin1", "utf8_to_latin1($a)"),
             ("fmtifnum", 'fmtifnum($a,"%d")'), ("hexfmt", "hexfmt($a)"), ("string", "string($a)"), ("bytes", "strlen(bytes($a))"),
             ("md5", "md5($a)"), ("sha1", "sha1($a)"), ("sha256", "sha256($a)"), ("sha512", "sha512($a)"),
             ("hex_encode", "hex_encode($a)"), ("base64_encode", "base64_encode($a)"),
             ("b64rt", "hex_encode(base64_decode(base64_encode($a)))")]
# byte-exact laws that need no character semantics (the result is read through hex_encode, so the bytes are
# observable although the JSON carrier cannot show them): concatenation, placeholder formatting, literal
# substitution of a valid-UTF-8 needle, split/join inverse, string(), are byte-transparent by definition
# (NOT json_stringify: a JSON text must be valid Unicode, an encoder may substitute U+FFFD - and Miller's does)
BAD_HEX = [("hx_dot", "hex_encode($a . $b)", lambda a, b: a + b),
           ("hx_format", 'hex_encode(format("{}:{}",$a,$b))', lambda a, b: a + b":" + b),
           ("hx_ssub", 'hex_encode(ssub($a,"a","é"))', lambda a, b: a.replace(b"a", "é".encode(), 1)),
           ("hx_gssub", 'hex_encode(gssub($a,"a","é"))', lambda a, b: a.replace(b"a", "é".encode())),
           ("hx_gssub_mb", 'hex_encode(gssub($a,"é","a"))', lambda a, b: a.replace("é".encode(), b"a")),
           ("hx_joinsplit", 'hex_encode(joinv(splitax($a,"a"),"a"))', lambda a, b: a),
           ("hx_string", "hex_encode(string($a))", lambda a, b: a),
           ("hx_b64rt", "hex_encode(string(base64_decode(base64_encode($a))))", lambda a, b: a)]
BAD_EXPRS = BAD_EXPRS + [(n, e) for n, e, _ in BAD_HEX]
BAD_EXACT = {"md5": lambda b: hashlib.md5(b).hexdigest(), "sha1": lambda b: hashlib.sha1(b).hexdigest(),
             "sha256": lambda b: hashlib.sha256(b).hexdigest(), "sha512": lambda b: hashlib.sha512(b).hexdigest(),
             "hex_encode": lambda b: b.hex(), "base64_encode": lambda b: base64.b64encode(b).decode(),
             "b64rt": lambda b: b.hex(), "bytes": lambda b: str(len(b))}
BAD_VERBS = [["case", "-u"], ["case", "-t"], ["case", "-s", "-k"], ["clean-whitespace"], ["unspace"], ["sub", "-a", ".", "x"],
             ["gsub", "-a", "[^a]", "<\\0>"], ["ssub", "-a", "a", "b"], ["utf8-to-latin1"], ["latin1-to-utf8"],
             ["format-values"], ["format-values", "-s", "[%8s]"]]


def bad_bytes(rng):
    parts = []
    for _ in range(rng.randint(1, 5)):
        r = rng.random()
        if r < 0.45:
            parts.append(rng.choice(BAD_BYTES))
        elif r < 0.8:
            parts.append(rng.choice(["a", "b", "ab", "hello", " ", "é", "日", "😀", "1", "A", "xyz"]).encode())
        else:
            parts.append(bytes([rng.choice([x for x in range(0x80, 0x100)])]))
    raw = b"".join(parts)
    try:
        raw.decode("utf-8")
        raw = rng.choice(BAD_BYTES) + raw if rng.random() < 0.5 else raw + rng.choice(BAD_BYTES)
    except UnicodeDecodeError:
        pass
    return raw


def bad_case(case):
    rng = random.Random(case["seed"])
    res = case_result(_h("bad", case["seed"]), nontrivial=False, evals=0)
    res["nontrivial_keys"] = []
    raws = [bad_bytes(rng) for _ in range(case["n"])]
    rows = []
    for raw in raws:
        ln = len(raw)
        bsub = raw[rng.randrange(ln):][:rng.randint(1, 3)] if rng.random() < 0.6 else rng.choice([b"a", b"\xff", b"\xc3"])
        rows.append((raw, bsub, rng.randint(-ln - 1, ln + 1), rng.randint(-ln - 1, ln + 1), rng.randint(0, ln + 4)))

    def enc(rs):
        lines = [b"a\tb\tm\tn\tw"]
        for raw, bsub, m, n, w in rs:
            lines.append(b"\t".join([raw, bsub, str(m).encode(), str(n).encode(), str(w).encode()]))
        return b"\n".join(lines) + b"\n"

    prog = program(BAD_EXPRS)
    flags = ["--itsv", "--ojson", "--jvquoteall", "--no-auto-flatten", "--no-auto-unflatten"]
    argv = flags + ["put", prog]

    def go(lo, hi):
        r = run_mlr(argv, stdin=enc(rows[lo:hi]), cpu_s=10)
        bump(res, "procs")
        if r.ok and not r.crashed():
            recs = parse_out(r.stdout.decode("utf-8", "replace"))
            if recs is None or len(recs) != hi - lo:
                # isolate the row (one bad row must not hide the other 39 - nor itself)
                if hi - lo <= 1:
                    add_violation(res, {"kind": "output-unparseable" if recs is None else "record-count", "fn": "any", "class": "invalid-utf8"},
                                  f"string functions on invalid UTF-8 {rows[lo][0]!r}: exit 0 but the output is "
                                  + ("not parseable JSON" if recs is None else f"{len(recs)} records for 1 input record"),
                                  {"argv": argv, "stdin": enc(rows[lo:hi]), "stdout": r.stdout[:1500]})
                    return
                mid = (lo + hi) // 2
                go(lo, mid)
                go(mid, hi)
                return
            for (raw, bsub, m, n, w), rec in zip(rows[lo:hi], recs):
                for name, _, law in BAD_HEX:
                    e = law(raw, bsub).hex()
                    res["evals"] += 1
                    if rec.get("r_" + name) != e:
                        add_violation(res, {"kind": "value", "fn": name[3:], "class": "invalid-utf8-bytes"},
                                      f"{dict((n_, e_) for n_, e_, _ in BAD_HEX)[name]} with a={raw!r} b={bsub!r} = {rec.get('r_' + name)!r}, "
                                      f"the bytes should be {e!r}",
                                      {"argv": argv, "stdin": enc([(raw, bsub, m, n, w)]), "expected": e, "got": rec.get("r_" + name)})
                for name, _ in BAD_EXPRS:
                    res["evals"] += 1
                    t = rec.get("t_" + name)
                    if t is None:
                        add_violation(res, {"kind": "no-value", "fn": name, "class": "invalid-utf8"},
                                      f"{name} on invalid UTF-8 {raw!r}: no result at all", {"argv": argv, "stdin": enc([(raw, bsub, m, n, w)])})
                    if name == "strlen":
                        v = rec.get("r_strlen")
                        if not (t == "int" and isinstance(v, str) and v.isdigit() and 0 <= int(v) <= len(raw)):
                            add_violation(res, {"kind": "value", "fn": "strlen", "class": "invalid-utf8"},
                                          f"strlen of invalid UTF-8 {raw!r} = {v!r} [{t}]", {"argv": argv, "stdin": enc([(raw, bsub, m, n, w)])})
                    if name in BAD_EXACT:
                        e = BAD_EXACT[name](raw)
                        if rec.get("r_" + name) != e:
                            add_violation(res, {"kind": "value", "fn": name, "class": "invalid-utf8-bytes"},
                                          f"{name} of the bytes {raw!r} = {rec.get('r_' + name)!r}, expected {e!r}",
                                          {"argv": argv, "stdin": enc([(raw, bsub, m, n, w)]), "expected": e, "got": rec.get("r_" + name)})
                res["nontrivial_keys"].append(_h("bad", raw))
            return
        if hi - lo <= 1:
            fail_violation(res, Fail(r), "any", "invalid-utf8", argv, enc(rows[lo:hi]), f"string functions on invalid UTF-8 {rows[lo][0]!r}")
            return
        mid = (lo + hi) // 2
        go(lo, mid)
        go(mid, hi)

    go(0, len(rows))
    # verbs
    vin = b"".join(b"k=" + raw.replace(b",", b"").replace(b"=", b"") + b",j=ok\n" for raw in raws[:8])
    for v in BAD_VERBS:
        r = run_mlr(["--ojson"] + v, stdin=vin, cpu_s=10)
        bump(res, "procs")
        res["evals"] += 1
        if not r.ok or r.crashed():
            fail_violation(res, Fail(r), v[0], "invalid-utf8", ["--ojson"] + v, vin, f"mlr {' '.join(v)} on invalid UTF-8")
    res["sample"] = ({"monitor": "bad", "bytes": raws[0].hex(), "functions": len(BAD_EXPRS), "verbs": len(BAD_VERBS)}
                     if case.get("want_sample") else None)
    return res


# ==========================================================================================
# (doc) the documentation's own examples, replayed

DOC_PAGES = ["reference-main-strings.md", "reference-main-regular-expressions.md", "reference-main-number-formatting.md"]
DOC_FUNCS = ("base64_decode base64_encode capitalize clean_whitespace collapse_whitespace contains format gssub gsub "
             "hex_decode hex_encode index latin1_to_utf8 leftpad lstrip regextract regextract_or_else rightpad rstrip ssub "
             "strip strlen strmatch strmatchx sub substr substr0 substr1 tolower toupper truncate unformat unformatx "
             "utf8_to_latin1 md5 sha1 sha256 sha512 fmtifnum fmtnum hexfmt joink joinkv joinv splita splitax splitkv "
             "splitkvx splitnv splitnvx string bytes json_parse json_stringify").split()


# parsable examples in `mlr help function F` today: a help text that stops printing them (or a help command that fails)
# must not silently empty the case
DOC_HELP_MIN = {'base64_decode': 2, 'base64_encode': 2, 'contains': 5, 'format': 5, 'gssub': 1, 'gsub': 5, 'hex_decode': 2,
                'hex_encode': 1, 'index': 5, 'leftpad': 3, 'regextract': 2, 'regextract_or_else': 2, 'rightpad': 3, 'ssub': 1,
                'strmatch': 5, 'strmatchx': 3, 'sub': 5, 'unformat': 3, 'unformatx': 3, 'fmtifnum': 2, 'joink': 2, 'joinkv': 2,
                'joinv': 2, 'splita': 1, 'splitax': 1, 'splitkv': 1, 'splitkvx': 1, 'splitnv': 1, 'splitnvx': 1, 'bytes': 2}


def _unhtml(t):
    return t.replace("&lt;", "<").replace("&gt;", ">").replace("&quot;", '"').replace("&amp;", "&")


def doc_blocks(page):
    """(command text, expected stdout) pairs of a generated docs page."""
    txt = open(os.path.join(DOCS, page), encoding="utf-8").read()
    out = []
    pat = re.compile(r'<pre class="pre-highlight-in-pair">\n(.*?)</pre>\n<pre class="pre-non-highlight-in-pair">\n(.*?)</pre>', re.S)
    for m in pat.finditer(txt):
        cmd = "\n".join(_unhtml(l[3:-4]) for l in m.group(1).split("\n") if l.startswith("<b>") and l.endswith("</b>"))
        out.append((cmd, _unhtml(m.group(2))))
    return out


def _norm_value(v):
    v = v.strip()
    if v.endswith(".") and not re.search(r"[0-9]\.$", v):
        v = v[:-1].rstrip()
    if v.startswith("the bytes "):
        v = v[len("the bytes "):]
    if v.startswith("(absent)"):
        return ""
    if v.startswith("(error)"):
        return "(error)"
    if len(v) >= 2 and v[0] == '"' and v[-1] == '"' and v.count('"') == 2:
        return v[1:-1]
    return v.strip('"') if v.count('"') == 1 else v


def help_examples(text):
    """[(expression, expected print text or parsed JSON)] from a `mlr help function` text."""
    out = []
    lines = text.split("\n")
    i = 0
    while i < len(lines):
        ln = lines[i]
        m = re.match(r"^(\S.*?\))\s+returns:\s*$", ln)
        if m:
            j = i + 1
            blk = []
            while j < len(lines) and lines[j].startswith("  "):
                blk.append(lines[j])
                j += 1
            try:
                out.append((m.group(1), json.loads("\n".join(blk))))
            except ValueError:
                pass
            i = j
            continue
        m = re.match(r"^((?:is_error\()?[a-z_0-9]+\(.*\))\s+(gives|is|=)\s+(.+)$", ln)
        if m and not ln.startswith("$"):
            out.append((m.group(1), _norm_value(m.group(3))))
        i += 1
    return out


def _same_doc_value(exp, outtext):
    got = outtext.rstrip("\n")
    if isinstance(exp, (dict, list)):
        try:
            return json.loads(got) == exp
        except ValueError:
            return False
    if exp[:1] in "[{":
        try:
            return json.loads(got) == json.loads(exp)
        except ValueError:
            pass
    return got == exp


def repl_transcript(expected):
    """[mlr] EXPR lines with their outputs -> [(expr, expected text)]"""
    items = []
    cur = None
    for ln in expected.split("\n"):
        if ln.startswith("[mlr] "):
            cur = [ln[6:], []]
            items.append(cur)
        elif cur is not None:
            cur[1].append(ln)
    out = []
    for e, ls in items:
        while ls and ls[-1] == "":
            ls.pop()
        t = "\n".join(ls)
        if len(t) >= 2 and t[0] == '"' and t[-1] == '"':
            t = t[1:-1]
        out.append((e, t))
    return out


ESCAPES = [("\\a", b"\x07"), ("\\b", b"\x08"), ("\\f", b"\x0c"), ("\\n", b"\n"), ("\\r", b"\r"), ("\\t", b"\t"), ("\\v", b"\x0b"),
           ("\\\\", b"\\"), ('\\"', b'"'), ("\\123", b"S"), ("\\101", b"A"), ("\\x7f", b"\x7f"), ("\\x41", b"A"),
           ("\\u2766", "❦".encode()), ("\\u00e9", "é".encode()), ("\\U00010877", "\U00010877".encode()),
           ("\\U0001F600", "\U0001F600".encode())]
REGEX_ESCAPES = [".", "*", "+", "?", "|", "(", ")", "[", "]", "{", "}", "^", "$"]
LITERALS = ["é", "日本", "€", "\U0001F600", "\U0001D11E", "a\U00010877b"]


def doc_case(case):
    kind = case["kind"]
    res = case_result(_h("doc", kind, case.get("id")), nontrivial=False, evals=0)
    res["nontrivial_keys"] = []
    if kind == "help":
        fn = case["fn"]
        r = run_mlr(["help", "function", fn])
        bump(res, "procs")
        exs = help_examples(r.out)
        res["evals"] += 1
        if r.verdict == "slow":
            res["inconc"] += 1
        elif not r.ok or not r.out.startswith(fn) or len(exs) < DOC_HELP_MIN.get(fn, 0):
            add_violation(res, {"kind": "doc-example", "fn": fn, "class": "help-examples-missing"},
                          f"`mlr help function {fn}` " + (f"fails (rc={r.rc})" if not r.ok else
                          f"prints {len(exs)} parsable examples, {DOC_HELP_MIN.get(fn, 0)} are pinned" if r.out.startswith(fn) else
                          f"does not describe {fn}: {r.out[:80]!r}"),
                          {"argv": ["help", "function", fn], "stdin": "", "stdout": r.out[:1500], "stderr": r.err[:300]})
        for expr, exp in exs:
            argv = ["-n", "put", "end{print " + expr + "}"]
            r2 = run_mlr(argv, cpu_s=5)
            bump(res, "procs")
            res["evals"] += 1
            bump(res, "doc_examples")
            res["nontrivial_keys"].append(_h("help", expr))
            if not r2.ok or r2.crashed():
                fail_violation(res, Fail(r2), fn, "help-example", argv, "", f"help example {expr}")
            elif not _same_doc_value(exp, r2.out):
                add_violation(res, {"kind": "doc-example", "fn": fn, "class": "function-help"},
                              f"`mlr help function {fn}` says {expr} gives {exp!r}; the binary prints {r2.out.rstrip()!r}",
                              {"argv": argv, "stdin": "", "expected": exp, "got": r2.out})
        res["sample"] = {"monitor": "doc/help", "function": fn}
    elif kind == "page":
        page = case["page"]
        for cmd, expected in doc_blocks(page):
            if cmd.strip() == "mlr repl":
                items = repl_transcript(expected)
                if not items:
                    continue
                prog = "end{\n" + "\n".join(f'print {e};\nprint "#--#";' for e, _ in items) + "\n}"
                argv = ["-n", "put", prog]
                r = run_mlr(argv, cpu_s=5)
                bump(res, "procs")
                res["evals"] += len(items)
                bump(res, "doc_examples", len(items))
                res["nontrivial_keys"].append(_h("page", page, cmd, expected))
                if r.verdict == "slow":
                    res["inconc"] += 1
                    continue
                if not r.ok or r.crashed():
                    # attribute the failure: replay the lines one by one (capture state is lost, so only failures count)
                    for e, t in items:
                        a1 = ["-n", "put", "end{print " + e + "}"]
                        r1 = run_mlr(a1, cpu_s=5)
                        bump(res, "procs")
                        if r1.verdict == "slow":
                            res["inconc"] += 1
                        elif not r1.ok or r1.crashed():
                            add_violation(res, {"kind": "doc-example", "fn": page, "class": "repl-transcript-fails", "expr": e},
                                          f"{page} shows [mlr] {e} -> {t!r}; the binary fails: {r1.err.strip()[:160]!r}",
                                          {"argv": a1, "stdin": "", "expected": t, "stderr": r1.err[:400]})
                        elif t != "" and not re.search(r"\\[0-9]", e):
                            g1 = r1.out[:-1] if r1.out.endswith("\n") else r1.out
                            if g1 != t:
                                add_violation(res, {"kind": "doc-example", "fn": page, "class": "repl-transcript", "expr": e},
                                              f"{page} shows [mlr] {e} -> {t!r}; the binary prints {g1!r}",
                                              {"argv": a1, "stdin": "", "expected": t, "got": g1})
                    continue
                gots = r.out.split("#--#\n")
                for (e, t), g in zip(items, gots):
                    g = g[:-1] if g.endswith("\n") else g
                    if t == "":
                        continue        # the REPL shows nothing for this line (absent / statement): evaluated for effect only
                    ok = g == t
                    if not ok and t[:1] == "{":
                        try:
                            ok = json.loads(g) == json.loads(t)
                        except ValueError:
                            ok = False
                    if not ok:
                        add_violation(res, {"kind": "doc-example", "fn": page, "class": "repl-transcript", "expr": e},
                                      f"{page} shows [mlr] {e} -> {t!r}; the binary prints {g!r}",
                                      {"argv": argv, "stdin": "", "expected": t, "got": g})
                continue
            stdin = b""
            c = cmd
            m = re.match(r"^echo '([^']*)' \| (mlr .*)$", c, re.S)
            if m:
                stdin = (m.group(1) + "\n").encode()
                c = m.group(2)
            if not c.startswith("mlr ") or "|" in c.split("'")[0]:
                res["skipped"] += 1
                continue
            try:
                args = shlex.split(c)[1:]
            except ValueError:
                res["skipped"] += 1
                continue
            files = {}
            for a in args:
                pth = os.path.join(DOCS, a)
                if "/" not in a.strip("./") or a.startswith("data/") or a.startswith("example"):
                    if os.path.isfile(pth):
                        files[a] = open(pth, "rb").read()
            r = run_mlr(args, stdin=stdin, files=files, cpu_s=5)
            bump(res, "procs")
            res["evals"] += 1
            bump(res, "doc_examples")
            res["nontrivial_keys"].append(_h("page", page, cmd))
            if r.crashed() or r.verdict != "exited":
                fail_violation(res, Fail(r), page, "doc-block", args, stdin, f"{page}: {cmd[:80]}")
            elif r.out != expected and r.out + r.err != expected:
                add_violation(res, {"kind": "doc-example", "fn": page, "class": "genmd-block", "cmd": _h(cmd)},
                              f"{page}: `{cmd[:120]}` is documented to print {expected[:160]!r}; the binary prints {r.out[:160]!r}",
                              {"argv": args, "stdin": stdin, "files": files, "expected": expected, "got": r.out})
        res["sample"] = {"monitor": "doc/page", "page": page}
    elif kind == "escapes":
        for esc, exp in ESCAPES:
            argv = ["-n", "put", 'end{print hex_encode("' + esc + '")}']
            r = run_mlr(argv, cpu_s=5)
            bump(res, "procs")
            if r.verdict == "slow":
                res["inconc"] += 1
                continue
            res["evals"] += 1
            res["nontrivial_keys"].append(_h("esc", esc))
            if not (r.ok and r.out.strip() == exp.hex()):
                add_violation(res, {"kind": "doc-example", "fn": "string-literal", "class": "escape", "escape": esc[:2]},
                              f'reference-main-strings.md lists the escape {esc} = bytes {exp.hex()}; the binary gives '
                              f'{(r.out.strip() or r.err.strip()[:120])!r} (rc={r.rc})',
                              {"argv": argv, "stdin": "", "expected": exp.hex(), "got": r.out, "stderr": r.err[:300]})
        for lit in LITERALS:
            argv = ["-n", "put", 'end{print strlen("' + lit + '") . ":" . hex_encode("' + lit + '")}']
            r = run_mlr(argv, cpu_s=5)
            bump(res, "procs")
            if r.verdict == "slow":
                res["inconc"] += 1
                continue
            res["evals"] += 1
            res["nontrivial_keys"].append(_h("lit", lit))
            e = f"{len(lit)}:{lit.encode().hex()}"
            if not (r.ok and r.out.strip() == e):
                add_violation(res, {"kind": "doc-example", "fn": "string-literal", "class": "utf8-literal",
                                    "plane": "non-bmp" if any(ord(ch) > 0xFFFF for ch in lit) else "bmp"},
                              f'string literal "{lit}" (valid UTF-8): expected strlen:hex {e}; the binary gives '
                              f'{(r.out.strip() or r.err.strip()[:120])!r} (rc={r.rc})',
                              {"argv": argv, "stdin": "", "expected": e, "got": r.out, "stderr": r.err[:300]})
        # "use \\( and \\) to match against parentheses": an escaped metacharacter in a regex literal matches itself
        for ch in REGEX_ESCAPES:
            subject = "a" + ch + "b"
            row = {"a": subject}
            prog_ = program([("sub", 'sub($a, "\\' + ch + '", "X")')])
            argv = JFLAGS + ["put", prog_]
            r = run_mlr(argv, stdin=json_rows([row]), cpu_s=5)
            bump(res, "procs")
            if r.verdict == "slow":
                res["inconc"] += 1
                continue
            res["evals"] += 1
            res["nontrivial_keys"].append(_h("rxesc", ch))
            recs = parse_out(r.out) if r.ok else None
            if not (recs and recs[0].get("r_sub") == "aXb"):
                add_violation(res, {"kind": "doc-example", "fn": "regex-literal", "class": "escape", "escape": "\\" + ch},
                              f'regex literal "\\{ch}" (a valid Go regex, the documented syntax) in sub("a{ch}b", "\\{ch}", "X"): expected aXb; the binary gives '
                              f'{(recs[0].get("r_sub") if recs else r.err.strip()[:120])!r} (rc={r.rc})',
                              {"argv": argv, "stdin": json_rows([row]), "expected": "aXb", "stderr": r.err[:300]})
        # each user-defined function has its own frame for captures (reference-main-regular-expressions.md)
        prog = ('func f() { if ("456 defg" =~ "([0-9]+) ([a-z]+)") { print "INNER: \\1 \\2"; } }\n'
                'end { if ("123 abc" =~ "([0-9]+) ([a-z]+)") { print "OUTER PRE:  \\1 \\2"; f(); print "OUTER POST: \\1 \\2"; } }')
        argv = ["-n", "put", prog]
        r = run_mlr(argv, cpu_s=5)
        res["evals"] += 1
        e = "OUTER PRE:  123 abc\nINNER: 456 defg\nOUTER POST: 123 abc\n"
        if r.verdict == "slow":
            res["inconc"] += 1
        elif r.out != e:
            add_violation(res, {"kind": "doc-example", "fn": "=~", "class": "udf-capture-frame"},
                          f"captures across a user-defined function call: expected {e!r}, got {r.out!r}",
                          {"argv": argv, "stdin": "", "expected": e, "got": r.out})
        # "strmatchx offers an arbitrary number of captures, not just \1..\9"
        argv = JFLAGS + ["put", program([("mx", 'strmatchx($a, "(a)(b)(c)(d)(e)(f)(g)(h)(i)(j)(k)")')])]
        row = {"a": "xabcdefghijkx"}
        r = run_mlr(argv, stdin=json_rows([row]), cpu_s=5)
        res["evals"] += 1
        recs = parse_out(r.out) if r.ok else None
        e = {"matched": "true", "full_capture": "abcdefghijk", "full_start": "2", "full_end": "12",
             "captures": list("abcdefghijk"), "starts": [str(i) for i in range(2, 13)], "ends": [str(i) for i in range(2, 13)]}
        if r.verdict == "slow":
            res["inconc"] += 1
        elif not (recs and recs[0].get("r_mx") == e):
            add_violation(res, {"kind": "doc-example", "fn": "strmatchx", "class": "more-than-9-captures"},
                          f"strmatchx with 11 groups: expected {e}, got {recs[0].get('r_mx') if recs else r.err[:200]!r}",
                          {"argv": argv, "stdin": json_rows([row]), "expected": e})
        res["sample"] = {"monitor": "doc/escapes", "escapes": len(ESCAPES)}
    if not case.get("want_sample"):
        res["sample"] = None
    return res


# ==========================================================================================

def run(chk):
    only = getattr(chk, "only", None)
    q = chk.quick()

    def want(m):
        return not only or m in only

    chk.rule = (
        "str: per function group (unary / index+slice / pad / two-string / key-value / format / codec / JSON) N argument tuples per process from a "
        "string pool (ASCII, 2-/3-/4-byte, combining, ZWJ emoji, RTL, Latin-1, odd whitespace, empty, 1-char, 10k-char) x index pool "
        "{-n-1,-n,-1,0,1,n,n+1,2n,...}; re: random ASTs over the shared RE2/Python subset (literals, ., classes, \\d\\w\\s, greedy/lazy * + ? {m,n}, "
        "groups <= 9, alternation, ^ $) x subjects sampled from the pattern, regex as data and as \"...\"/\"...\"i literal; "
        "fmt: random %[flags][width][.prec][l|ll]verb formats with literal text x number spellings (ints incl. hex/binary/boundaries, floats, "
        "non-numbers), plus --ofmt and format-values runs (thorough: the full flag-subset x 11 verbs x 3 widths x 4 precisions grid x 40 numbers); "
        "re/capseq: random 3-6 step sequences of =~ / !=~ / =~ null / function calls over three data regexes with the capture template observed "
        "after every step and before the first (40 records per process); one re/data process per run first sends 1100 distinct patterns "
        "(past the 1000-entry compile cache) and re-uses early and late ones; "
        "verb: 9 wrapping verbs x option variants vs put with the function; verb/subs-law: sub/gsub/ssub verb x (-f | -a | -r rx | -r -f rx) "
        "x hostile regex pool (165 atoms: \\b \\B \\\\ \\? \\| \\{ hex/octal escapes of metacharacters, C escapes, Perl/POSIX/Unicode classes, "
        "anchors, flags, \\Q..\\E, named groups, empty-matching pieces; 1-3 atoms concatenated / alternated / quantified, 25% random ASTs, "
        "\"...\" and \"...\"i wrapped) x replacement with captures and C escapes, on 10 (every 60th case: 520) records: verb output == put "
        "with the function per field == Python reference; bad: invalid UTF-8 byte strings through 58 functions (8 byte-exact laws read "
        "through hex_encode) and 12 verb invocations; doc: every example of `mlr help function` for the 50 functions and the GENMD/REPL blocks of the 3 reference pages. "
        "Non-trivial = string has >= 1 multi-byte character and an index/width strictly inside it (unary functions: has a multi-byte character); "
        "regex has >= 1 group or alternation and matches; format has >= 1 flag and a width or precision; verb run changes a record containing "
        "multi-byte text; distinct = by (function, argument tuple) hash")
    chk.assumptions = [
        "arguments travel as JSON strings / TSV fields (carrier integrity is C01's subject); results are read back with --ojson --jvquoteall",
        "\"whitespace\" is not defined by the docs: strip/lstrip/rstrip/clean_whitespace/collapse_whitespace are judged only on strings whose "
        "only whitespace-like characters are space and tab (collapse: only spaces); other inputs are counted as skipped",
        "toupper/tolower/capitalize and the case verb are compared only on code points whose Unicode mapping is one-to-one and context free "
        "(Python single-code-point mapping; not sigma, sharp s, dotted/dotless i, ligatures, Georgian); case -s/-t only on letters and single spaces",
        "substr/substr0/substr1 out-of-bounds follow the slice rule of reference-main-strings.md (indices trimmed); truncate with negative "
        "length, splitax with empty separator or empty input, utf8_to_latin1 outside Latin-1, format placeholders other than {} {n}: skipped",
        "regex: only the shared RE2/Python subset (the hostile pool spells RE2's ASCII-only \\b \\d \\w \\s, POSIX classes, \\Q..\\E, \\x{..}, \\z, "
        "(?U:..) as explicit Python equivalents; \\pL-style classes have no reference and are judged verb-vs-function only); a quantified "
        "sub-pattern never matches the empty string; gsub with a pattern that can match the empty string is judged by Go's replace-all rule "
        "(the docs name Go's regexp as the engine: no empty match adjacent to the previous match, advance one character); "
        "sub/gsub/ssub verb law: the regex reaches the function through put -s (texts that would be inferred as numbers or read as options "
        "are not used); the verb's replacement (ssub: also its search text) is C-unescaped as its usage says (\\n \\t \\xHH \\\\ only); a text that "
        "neither Go nor the reference compiles is skipped; captures are reset at the start of every record (the put expression is evaluated "
        "per record; 'before any match is done' \\1 evaluates to itself); !=~ sets captures like =~ ('for the =~ and !=~ operators'); "
        "a data regex /x/ is the literal text (docs: 'double quotes rather than slashes'), \"x\" and \"x\"i are the delimited forms; "
        "case-insensitive subjects avoid characters with multi-way folds; "
        "replacement references only to existing groups; strmatchx positions are character (not byte) indices as all Miller string indices are; "
        "non-participating groups read as empty",
        "printf: C semantics for d x X o b e E f F g G; negative ints under x X o b are 64-bit two's complement (as hexfmt documents); a float "
        "given to an int verb is converted as a C cast; declined: %g/%G without precision (C says 6 digits, Go's fmt - cited by the docs - says "
        "shortest), # with X b/zero/precision, + and space with unsigned verbs, sign flag with zero value and zero precision, inf/nan, %s for "
        "numbers, bool input; l/ll only in the documented combinations (lld llx ld lx lf le lg); LANG is unset (%_d/%_f read it)",
        "--ofmt is judged for float verbs only (flag help: 'for floating-point numbers'); ints and non-numbers must pass through untouched",
        "wrapping verbs are compared on string-typed values (JSON strings); the sub/gsub/ssub verbs deliberately pass non-string values through",
        "on invalid UTF-8 only: exit 0, no crash, every function yields a value, 0 <= strlen <= byte length; byte-level functions "
        "(md5 sha1 sha256 sha512 hex_encode base64_encode) must still be exact",
        "crc32 is not a function of this tree (not in `mlr help list-functions`, not in the docs): not checked",
    ]

    if want("str"):
        cases = []
        #        group, quick cases, quick rows, thorough cases, thorough rows
        plan = [("unary", 8, 80, 60, 200), ("index", 8, 100, 60, 250), ("pad", 4, 100, 30, 250), ("pair", 8, 100, 60, 250),
                ("kv", 2, 80, 16, 200), ("format", 3, 100, 20, 250), ("codec", 3, 80, 20, 200), ("json", 4, 60, 30, 150),
                ("padedge", 4, 1, 12, 1)]
        for group, nq, rq, nt, rt in plan:
            for i in range(nq if q else nt):
                cases.append({"seed": f"{chk.seed}/str/{group}/{i}", "group": group, "n": rq if q else rt})
        for c in cases:
            if c["seed"].endswith("/index/0"):
                c["want_sample"] = True
        chk.pmap(str_case, cases, label="str")
    if want("re"):
        cases = []
        for i in range(12 if q else 150):
            cases.append({"seed": f"{chk.seed}/re/data/{i}", "mode": "data", "n": 60 if q else 100})
        cases[0]["fill"] = 1100        # > the 1000-entry compiled-regex cache, once per run (thorough: three processes)
        if not q:
            cases[1]["fill"] = 1000
            cases[2]["fill"] = 2100
        for i in range(24 if q else 300):
            cases.append({"seed": f"{chk.seed}/re/capseq/{i}", "mode": "capseq", "n": 40})
        for i in range(150 if q else 2500):
            cases.append({"seed": f"{chk.seed}/re/lit/{i}", "mode": "lit", "n": 4})
        for i in range(150 if q else 2500):
            cases.append({"seed": f"{chk.seed}/re/lit-i/{i}", "mode": "lit-i", "n": 4})
        cases[-1]["want_sample"] = True
        chk.pmap(re_case, cases, label="re")
    if want("fmt"):
        cases = []
        for i in range(16 if q else 320):
            cases.append({"seed": f"{chk.seed}/fmt/fn/{i}", "mode": "fn", "n": 50, "m": 12})
        for i in range(80 if q else 1200):
            cases.append({"seed": f"{chk.seed}/fmt/ofmt/{i}", "mode": "ofmt", "m": 24})
        for i in range(80 if q else 1200):
            cases.append({"seed": f"{chk.seed}/fmt/fv/{i}", "mode": "fv", "m": 16})
        if not q:
            g, nf = fmt_grid(chk)
            cases += g
            chk.extra["format_grid_formats"] = nf
        cases[0]["want_sample"] = True
        chk.pmap(fmt_case, cases, label="fmt")
    if want("verb"):
        cases = []
        verbs = ["sub", "gsub", "ssub", "case", "case", "clean-whitespace", "unspace", "utf8-to-latin1", "latin1-to-utf8", "format-values"]
        for i in range(200 if q else 3000):
            cases.append({"seed": f"{chk.seed}/verb/{i}", "verb": verbs[i % len(verbs)], "n": 12})
        laws = ["gsub", "sub", "gsub", "sub", "ssub"]
        for i in range(240 if q else 2500):
            # every 60th case crosses the 500-record batch boundary
            cases.append({"seed": f"{chk.seed}/verb/subs-law/{i}", "verb": "subs-law", "which": laws[i % len(laws)],
                          "n": 520 if i % 60 == 7 else 10})
        cases[0]["want_sample"] = True
        chk.pmap(verb_case, cases, label="verb")
    if want("bad"):
        cases = [{"seed": f"{chk.seed}/bad/{i}", "n": 40} for i in range(10 if q else 150)]
        cases[0]["want_sample"] = True
        chk.pmap(bad_case, cases, label="bad")
    if want("doc"):
        cases = [{"kind": "help", "fn": f, "id": f} for f in DOC_FUNCS]
        cases += [{"kind": "page", "page": pg, "id": pg} for pg in DOC_PAGES]
        cases += [{"kind": "escapes", "id": "escapes"}]
        chk.pmap(doc_case, cases, label="doc")

    st = chk.stats
    chk.extra["functions_covered"] = sorted(k[3:] for k in st if k.startswith("fn:"))
    chk.extra["evaluations_per_function"] = {k[3:]: v for k, v in sorted(st.items()) if k.startswith("fn:")}
    chk.extra["format_verbs_reached"] = {k[5:]: v for k, v in sorted(st.items()) if k.startswith("verb:") and len(k) == 6}
    chk.extra["wrapping_verb_records"] = {k[5:]: v for k, v in sorted(st.items()) if k.startswith("verb:") and len(k) > 6}
    chk.extra["skipped_per_function"] = {k[8:]: v for k, v in sorted(st.items()) if k.startswith("skipped:")}
    chk.extra["mlr_processes"] = st.get("procs", 0)
    chk.extra["regex_cache_fill_patterns"] = st.get("regex_cache_fill_patterns", 0)
    chk.extra["documentation_examples_replayed"] = st.get("doc_examples", 0)
    for k in [k for k in st if k.startswith(("fn:", "verb:", "skipped:"))]:
        st.pop(k)
