"""C01 - every file format round-trips its own output and speaks the standard dialect.

Monitors (DESIGN.md section 3, C01):
  rt     self round trip per (format x option variant): records R -> (JSON carrier with string
         values, or the format's own independent Python writer for byte-exact content)
         -> `mlr --oF V` -> text T -> `mlr --iF V' --ojson --jvquoteall` -> R' == R (names, order,
         value bytes); `mlr --iF --oF cat < T` == T (idempotence); independent reader on T == R
         (direction 1); independent writer in every legal style -> Miller reads R (direction 2)
  json   the JSON family (json, jsonl, yaml) with typed and nested values: Python writer in
         several RFC-8259 styles -> `mlr --ijson --oF V` -> strict reader == R (tokens for numbers)
  opts   reader-option models: ragged input, implicit header, lazy quotes on conforming text,
         trim-leading-space, BOM, comments, documented rejections (multi-char CSV IFS)
  docs   doc-replay: the recorded executions (GENMD blocks) of the file-format pages that are one plain mlr command
  flags  the option-variant table is compared with `mlr help ...-flags` at run time
         (evidence only: a flag nobody exercises shows up as not covered)
"""
import hashlib
import json
import random
import re

from .. import run as R
from ..harness import add_violation, bump, case_result
from ..model import codecs as C
from ..model import formats as F
from ..model import docreplay

BINARIES = ("mlr-verif",)
LEVEL = "exploration"

READBACK = ["--ojson", "--jvquoteall", "--no-auto-unflatten"]


def _h(*xs):
    return hashlib.sha1(repr(xs).encode()).hexdigest()[:16]


def _short(b, n=160):
    if isinstance(b, bytes):
        return b if len(b) <= n else b[:n] + b"...(%d bytes)" % len(b)
    return b


# ------------------------------------------------------------------------------------------
# cell-level diff with a *named* transformation, so that findings can be matched narrowly

_UWS = set("\t\n\x0b\x0c\r \x85\xa0\u1680\u2000\u2001\u2002\u2003\u2004\u2005\u2006\u2007\u2008\u2009\u200a\u2028\u2029\u202f\u205f\u3000")


def _ustrip(b):
    try:
        t = b.decode("utf-8")
    except UnicodeDecodeError:
        return None
    i, j = 0, len(t)
    while i < j and t[i] in _UWS:
        i += 1
    while j > i and t[j - 1] in _UWS:
        j -= 1
    return t[i:j].encode("utf-8")


def _nonl(b):
    return b.replace(b"\r", b"").replace(b"\n", b"")


def delta(e, g):
    """Names of ALL the known transformations that map the expected cell to the observed one,
    joined by '|' ('other' when none does): findings match on them with a regex."""
    if e == g:
        return "same"
    cands = [
        ("crlf->lf", lambda: e.replace(b"\r\n", b"\n")),
        ("lone-cr-dropped", lambda: re.sub(rb"\r(?!\n)", b"", e)),
        ("lf->crlf", lambda: re.sub(rb"(?<!\r)\n", b"\r\n", e)),
        ("all-cr-dropped", lambda: e.replace(b"\r", b"")),
        ("lone-cr-dropped+lf->crlf", lambda: re.sub(rb"(?<!\r)\n", b"\r\n", re.sub(rb"\r(?!\n)", b"", e))),
        ("tsv-escapes-not-decoded", lambda: C.tsv_encode(e)),
        ("tsv-lazy-escapes-not-decoded", lambda: C.tsv_encode_lazy(e)),
        ("tsv-escapes-decoded-twice", lambda: C.tsv_decode(e)),
        ("tsv-escapes-not-decoded+invalid-utf8->U+FFFD", lambda: C.tsv_encode(e.decode("utf-8", "replace").encode("utf-8"))),
        ("tsv-lazy-escapes-not-decoded+invalid-utf8->U+FFFD", lambda: C.tsv_encode_lazy(e.decode("utf-8", "replace").encode("utf-8"))),
        ("invalid-utf8->U+FFFD", lambda: e.decode("utf-8", "replace").encode("utf-8")),
        ("invalid-utf8-dropped", lambda: e.decode("utf-8", "ignore").encode("utf-8")),
        ("edge-spaces-trimmed", lambda: e.strip(b" ")),
        ("edge-whitespace-trimmed", lambda: _ustrip(e)),
        ("leading-newlines-dropped", lambda: e.lstrip(b"\r\n") if e[:1] in (b"\r", b"\n") else None),
        ("trailing-newlines-dropped", lambda: e.rstrip(b"\r\n") if e[-1:] in (b"\r", b"\n") else None),
        ("bom-stripped", lambda: e[3:] if e.startswith(C.BOM) else None),
        ("bom-kept", lambda: C.BOM + e),
        ("newline-only->positional", lambda: g if (e and e.strip(b"\r\n") == b"" and g.isdigit()) else None),
        ("pipe-escape-not-undone", lambda: e.replace(b"|", b"\\|")),
        ("pipe-escape-consumed", lambda: e.replace(b"\\|", b"|") if b"\\|" in e else None),
        ("quotes-kept", lambda: b'"' + e.replace(b'"', b'""') + b'"'),
        ("outer-quotes-stripped", lambda: e[1:-1] if len(e) >= 2 and e[:1] == b'"' and e[-1:] == b'"' else None),
        ("empty->dash", lambda: b"-" if e == b"" else None),
        ("dash->empty", lambda: b"" if e == b"-" else None),
        ("nul-truncated", lambda: e.split(b"\x00")[0] if b"\x00" in e else None),
        ("edge-whitespace-trimmed+dash->empty", lambda: b"" if _ustrip(e) == b"-" else None),
    ]
    names = []
    for name, f in cands:
        try:
            if f() == g:
                names.append(name)
        except Exception:
            pass
    if not names and len(g) < len(e) and _nonl(e) == _nonl(g):
        names.append("newlines-lost")
    if not names and e.startswith(g):
        names.append("truncated")
    return "|".join(names) if names else "other"


def _all_empty(rec):
    return all(v == b"" for _, v in rec)


def _all_blank(rec):
    return all(_ustrip(v) == b"" for _, v in rec)


def diff_records(exp, got, limit=6):
    """-> list of dicts {where, delta, cls, exp, got, at}. Empty = equal."""
    out = []
    if len(exp) != len(got):
        d = "record-count"
        rule = lambda r: bool(r) and all(re.fullmatch(rb":?-+:?", v) for _, v in r)
        allcls = "+".join(sorted(set().union(*[F.classes_of(x) for r in exp for kv in r for x in kv]) - {"empty"})) if exp else ""
        if len(exp) - len([r for r in exp if _all_empty(r)]) == len(got):
            d = "all-empty-records-dropped"
        elif len(got) > len(exp) and len([r for r in got if not rule(r)]) == len(exp):
            d = "rule-line-read-as-record"
        elif len([r for r in exp if not _all_blank(r)]) == len(got):
            d = "all-blank-records-dropped"
        elif len(got) < len(exp) and all(r in exp for r in got):
            d = "records-lost"
        return [{"where": "structure", "delta": d, "cls": allcls if d in ("record-count", "records-lost") else "", "exp": len(exp),
                 "got": len(got), "at": None}]
    seen = set()
    for ri, (er, gr) in enumerate(zip(exp, got)):
        if len(er) != len(gr):
            rcls = "+".join(sorted(set().union(*[F.classes_of(x) for kv in er for x in kv]) - {"empty"})) if er else ""
            out.append({"where": "structure", "delta": "field-count", "cls": rcls, "exp": len(er), "got": len(gr), "at": ri})
            if len(out) >= limit:
                break
            continue
        for fi, ((ek, ev), (gk, gv)) in enumerate(zip(er, gr)):
            for where, e, g in (("key", ek, gk), ("val", ev, gv)):
                if e != g:
                    d = delta(e, g)
                    cls = "+".join(sorted(F.classes_of(e)))
                    if (where, d, cls) in seen:
                        continue
                    seen.add((where, d, cls))
                    out.append({"where": where, "delta": d, "cls": cls, "exp": _short(e), "got": _short(g), "at": [ri, fi]})
        if len(out) >= limit:
            break
    return out


def text_delta(e, g):
    d = delta(e, g)
    return d


def report_diffs(res, v, kind, diffs, what, detail, extra_sig=None):
    for d in diffs:
        sig = {"kind": kind, "format": v.fmt, "variant": v.name, "where": d["where"], "delta": d["delta"], "class": d["cls"]}
        if extra_sig:
            sig.update(extra_sig)
        if res.get("trigger"):
            sig["trigger"] = res["trigger"]
        add_violation(res, sig,
                      f"{v.name}: {what}: {d['where']} {d['delta']} (cell classes: {d['cls'] or '-'}) expected {d['exp']!r} got {d['got']!r}",
                      dict(detail, expected_cell=d["exp"], got_cell=d["got"], at=d["at"]))


def mlr_json_to_records(stdout):
    objs = C.parse_json_records(stdout)
    return [C.record_from_jobj(o) for o in objs]


def err_class(r):
    """First diagnostic line of a failed process with every number replaced by N (so that a known failure can be pinned on
    the message and a crash, a different diagnostic or a silent failure gets a different signature)."""
    if r.crashed():
        m = re.search(r"(panic: [^\n]*|fatal error: [^\n]*)", r.err)
        return re.sub(r"\d+", "N", (m.group(1) if m else "crash")[:120])
    lines = [ln for ln in r.err.splitlines() if ln.strip()]
    if not lines:
        return "(no diagnostic)"
    return re.sub(r"\d+", "N", lines[0][:120])


def proc_delta(r):
    if r.verdict != "exited":
        return "hang:" + str(r.verdict)
    if r.rc is None or r.signal:
        return "signal=%s" % r.signal
    return "rc=%s" % r.rc


def _fail(res, v, kind, r, what, detail, cls=""):
    """A process that did not exit 0 on in-domain input. `cls` = classes of the 1-minimal set of cells the failure needs
    (see culprits()), never a property of the whole record list."""
    sig = {"kind": kind, "format": v.fmt, "variant": v.name, "where": "process", "delta": proc_delta(r), "class": cls,
           "err": err_class(r)}
    if res.get("trigger"):
        sig["trigger"] = res["trigger"]
    add_violation(res, sig,
                  f"{v.name}: {what}: rc={r.rc} signal={r.signal} verdict={r.verdict} needs cells of class [{cls}] stderr={r.err[:300]!r}",
                  dict(detail, stderr=r.err[:2000]))


def _proc_ok(res, v, kind, r, what, detail, cls=""):
    if r.verdict == "slow":
        res["inconc"] += 1
        return False
    if not r.ok:
        _fail(res, v, kind, r, what, detail, cls() if callable(cls) else cls)
        return False
    return True


def same_fail(r, r0):
    return r.verdict != "slow" and not r.ok and r.rc == r0.rc and r.signal == r0.signal and r.verdict == r0.verdict


# ------------------------------------------------------------------------------------------
# witness reduction: which cells does a whole-input failure (process failure, unparseable text, lost record) NEED?
# The signature of such a failure carries the classes of a 1-minimal set of cells, so that a known-finding matcher is
# evaluated on the witness and not on whatever else the generator happened to put into the same record list.

_PLAIN_CELL = re.compile(rb"[A-Za-z0-9]+")


def cell_classes(c):
    cs = F.classes_of(c)
    if not cs and not _PLAIN_CELL.fullmatch(c):
        cs = {"punct"}
    return cs


def plainify(recs, targets):
    """Replace every cell in `targets` (set of (kind, bytes)) by a plain stand-in: keys consistently over the list."""
    if not targets:
        return recs
    used = {k for r in recs for k, _ in r}
    kmap = {}
    for kind, c in sorted(targets):
        if kind == "key":
            i = len(kmap)
            nk = b"zk%d" % i
            while nk in used:
                i += 1
                nk = b"zk%dq" % i
            used.add(nk)
            kmap[c] = nk
    vals = {c for kind, c in targets if kind == "val"}
    return [[(kmap.get(k, k), (b"zv" if val in vals else val)) for k, val in r] for r in recs]


def culprits(recs, fails, positional=False, budget=48):
    """-> (class string, set of (kind, cell)): a 1-minimal set of non-plain cells without which `fails` no longer holds.
    ('unreproducible', set()) when fails(recs) itself is false (flaky)."""
    if not fails(recs):
        return "unreproducible", set()
    items = list(recs)
    while len(items) > 1 and budget > 0:
        h = len(items) // 2
        budget -= 1
        if fails(items[:h]):
            items = items[:h]
            continue
        budget -= 1
        if fails(items[h:]):
            items = items[h:]
            continue
        break
    cells = []
    for r in items:
        for k, val in r:
            for kind, c in (("key", k), ("val", val)):
                if kind == "key" and positional:
                    continue
                if cell_classes(c) and (kind, c) not in cells:
                    cells.append((kind, c))
    neutral, needed = set(), []
    for kc in cells:
        if budget <= 0:
            needed.append(kc)
            continue
        budget -= 1
        if fails(plainify(items, neutral | {kc})):
            neutral.add(kc)
        else:
            needed.append(kc)
    cls = "+".join(sorted({kind + ":" + c for kind, cell in needed for c in cell_classes(cell)})) or "plain"
    return cls, set(needed)


def rec_classes(recs):
    cs = set()
    for r in recs:
        for k, val in r:
            cs |= {"key:" + c for c in F.classes_of(k)}
            cs |= {"val:" + c for c in F.classes_of(val) if c != "empty"}
    return cs


def _jsonable_recs(recs, n=6):
    return [[[_short(k, 80), _short(val, 80)] for k, val in r] for r in recs[:n]]


# ==========================================================================================
# rt: flat formats

def flat_case(case):
    v = F.variant_by_name(case["variant"])
    rng = random.Random(case["seed"])
    focus = F.PIECE_BY_NAME[case["focus"]][0] if case.get("focus") else None
    recs, info = F.gen_records(rng, v, focus=focus, position=case.get("position"),
                               allow_bytes=case.get("allow_bytes", True))
    if recs is None:
        res = case_result(_h("skip", case["variant"], case.get("focus"), case.get("position")), False, evals=0)
        res["skipped"] += 1
        bump(res, "skipped:" + str(info))
        return res
    hetero = len({tuple(k for k, _ in r) for r in recs}) > 1
    cls = rec_classes(recs)
    res = case_result(_h("rt", v.name, recs), nontrivial=bool(cls) or hetero, evals=0)
    if v.irs and any(v.irs[-1:] in k or v.irs[-1:] in val for r in recs for k, val in r):
        res["trigger"] = "irs-last-byte-in-cell"
    bump(res, "variant:" + v.name)
    bump(res, "fmt:" + v.fmt)
    for c in cls:
        bump(res, "class:" + v.fmt + ":" + c)
    if case.get("focus"):
        bump(res, "focus:" + v.fmt + ":" + case["focus"])
    if len(recs) >= 12 or max(len(r) for r in recs) >= 12:
        bump(res, "cases_with_12+_records_or_fields")
    _flat_check(res, v, recs, case, rng, 0)
    return res


def _raises(f, *a):
    try:
        f(*a)
        return False
    except C.CodecError:
        return True


def _flat_check(res, v, recs, case, rng, depth):
    """All comparisons of the rt monitor on one record list. A whole-input failure (process failure, unparseable text,
    lost record) is reported with the classes of the cells it needs (culprits) and the comparisons are then repeated
    on the list with exactly those cells made plain, so that one known defect does not hide the rest of the list."""
    X = getattr(F, "EXTRA_CODECS", {}).get(v.name, {})
    pyread = v.pyread or X.get("pyread")
    pywrite = v.pywrite or X.get("pywrite")
    styles = v.styles or X.get("styles", [])
    bytes_mode = any(not F.is_utf8(k) or not F.is_utf8(val) for r in recs for k, val in r)
    batch = list(case.get("batch") or [])
    base_detail = {"variant": v.name, "records_head": _jsonable_recs(recs), "n_records": len(recs), "depth": depth}
    write_argv = v.oflags + ["--ijson", "cat"]
    read_argv = batch + v.iflags + READBACK + ["cat"]
    both_argv = batch + v.iflags + v.oflags + ["cat"]
    state = {"needed": set()}

    def write(rs):
        if not bytes_mode:
            jt = C.write_json([C.jobj_from_record(r_) for r_ in rs])
            return R.mlr(write_argv, stdin=jt), write_argv, jt
        t0 = pywrite(rs)
        return R.mlr(both_argv, stdin=t0), both_argv, t0

    def shrunk(fails):
        def counted(rs):
            bump(res, "witness_reduction_runs")
            return bool(rs) and fails(rs)
        c, needed = culprits(recs, counted, v.positional)
        state["needed"] |= needed
        return c

    def go_on():
        if state["needed"] and depth < 2:
            bump(res, "continued_without_culprit_cells")
            _flat_check(res, v, plainify(recs, state["needed"]), case, rng, depth + 1)

    def read_back(text):
        """-> records, or None when the process fails / the carrier is unparseable"""
        rr = R.mlr(read_argv, stdin=text)
        if not rr.ok:
            return None
        try:
            return mlr_json_to_records(rr.stdout)
        except C.CodecError:
            return None

    def rt_structure(rs, d):
        w = write(rs)[0]
        if not w.ok:
            return False
        g = read_back(w.stdout)
        return g is not None and any(x["where"] == "structure" and x["delta"] == d for x in diff_records(rs, g))

    def idem(Tin):
        """-> (status, text fed, text got, Result); status ok | mismatch | fail | slow"""
        r_ = R.mlr(both_argv, stdin=Tin)
        if r_.verdict == "slow":
            return "slow", Tin, None, r_
        if not r_.ok:
            return "fail", Tin, None, r_
        if r_.stdout == Tin:
            return "ok", Tin, r_.stdout, r_
        if v.idem2:
            tainted = False
            if pyread is not None:
                try:
                    tainted = pyread(Tin) != pyread(r_.stdout)   # the first pass already changed cells: reported as usual
                except C.CodecError:
                    tainted = True
            if not tainted:
                # layout depends on inferred types (numeric right-alignment) and T was written from JSON
                # strings: the fixed point must be reached after one pass over format-F input
                T2 = r_.stdout
                r2 = R.mlr(both_argv, stdin=T2)
                if r2.verdict == "slow":
                    return "slow", T2, None, r2
                if not r2.ok:
                    return "fail", T2, None, r2
                return ("ok" if r2.stdout == T2 else "mismatch"), T2, r2.stdout, r2
        return "mismatch", Tin, r_.stdout, r_

    # ---- inject
    if bytes_mode and pywrite is None:
        res["skipped"] += 1
        return
    if bytes_mode:
        bump(res, "bytes_mode_cases")
    r, argv0, stdin0 = write(recs)
    res["evals"] += 1
    det = dict(base_detail, argv=argv0, stdin=stdin0)
    if r.verdict == "slow":
        res["inconc"] += 1
        return
    if not r.ok:
        r0 = r
        c = shrunk(lambda rs: same_fail(write(rs)[0], r0))
        _fail(res, v, "write-fail", r, "F->F pass failed on byte-exact in-domain text" if bytes_mode else "writer failed on in-domain records", det, c)
        go_on()
        return
    T = r.stdout
    if depth == 0:
        res["sample"] = {"monitor": "rt", "variant": v.name, "argv_write": write_argv, "argv_read": read_argv,
                         "records_head": _jsonable_recs(recs, 2), "text_head": _short(T, 300)}

    # ---- Miller reads its own output
    if not bytes_mode:
        r = R.mlr(read_argv, stdin=T)
        res["evals"] += 1
        det = dict(base_detail, argv=read_argv, stdin=T, written_by=write_argv)
        if r.verdict == "slow":
            res["inconc"] += 1
        elif not r.ok:
            r0 = r
            c = shrunk(lambda rs: (lambda w: w.ok and same_fail(R.mlr(read_argv, stdin=w.stdout), r0))(write(rs)[0]))
            _fail(res, v, "read-fail", r, "reader failed on Miller's own output", det, c)
            go_on()
            return
        else:
            try:
                got = mlr_json_to_records(r.stdout)
            except C.CodecError as e:
                c = shrunk(lambda rs: (lambda w: w.ok and (lambda rr: rr.ok and _raises(mlr_json_to_records, rr.stdout))(R.mlr(read_argv, stdin=w.stdout)))(write(rs)[0]))
                add_violation(res, {"kind": "carrier", "format": v.fmt, "variant": v.name, "where": "json-output", "delta": "unparseable", "class": c},
                              f"{v.name}: --ojson output of the read-back is not strict JSON: {e}", dict(det, stdout=_short(r.stdout, 2000)))
                got = None
            if got is not None:
                diffs = diff_records(recs, got)
                if diffs:
                    structural = False
                    for d in diffs:
                        if d["where"] == "structure":
                            structural = True
                            d["cls"] = shrunk(lambda rs, dd=d["delta"]: rt_structure(rs, dd))
                    report_diffs(res, v, "roundtrip", diffs, "read(write(R)) != R", dict(det, text=_short(T, 4000)))
                    if structural:
                        go_on()
                        return
                else:
                    bump(res, "roundtrip_held")

    # ---- idempotence of mlr --F cat on its own output
    status, Tin, Tout, r = idem(T)
    res["evals"] += 1
    det = dict(base_detail, argv=both_argv, stdin=Tin)
    if status == "slow":
        res["inconc"] += 1
    elif status == "fail":
        r0 = r
        c = shrunk(lambda rs: (lambda w: w.ok and (lambda x: x[0] == "fail" and same_fail(x[3], r0))(idem(w.stdout)))(write(rs)[0]))
        _fail(res, v, "idem-fail", r, "F->F pass failed on Miller's own output", det, c)
        go_on()
        return
    elif status == "ok":
        bump(res, "idempotence_held")
    elif v.fmt == "markdown" and re.search(rb" :?-+: \|", Tin):
        # the writer's own right-alignment rule ('---:') is not recognised by the reader: everything after it shifts
        report_diffs(res, v, "idempotence", [{"where": "structure", "delta": "rule-line-read-as-record", "cls": "", "exp": _short(Tin, 300),
                                              "got": _short(Tout, 300), "at": None}],
                     "mlr --md --right-align-numeric cat is not idempotent on its own output", det)
    else:
        diffs = None
        if pyread is not None:
            try:
                diffs = diff_records(pyread(Tin), pyread(Tout))
            except C.CodecError:
                diffs = None
        if not diffs or any(d["where"] == "structure" for d in diffs):
            c = shrunk(lambda rs: (lambda w: w.ok and idem(w.stdout)[0] == "mismatch")(write(rs)[0]))
            if diffs:
                for d in diffs:
                    if d["where"] == "structure":
                        d["cls"] = c
            elif diffs is not None:
                diffs = [{"where": "text", "delta": "same-cells-different-text", "cls": c, "exp": _short(Tin, 300), "got": _short(Tout, 300), "at": None}]
            else:
                diffs = [{"where": "text", "delta": text_delta(Tin, Tout), "cls": c, "exp": _short(Tin, 300), "got": _short(Tout, 300), "at": None}]
        report_diffs(res, v, "idempotence", diffs, "mlr --F cat is not idempotent on its own output", det)

    # ---- direction 1: independent reader on Miller's text
    if pyread is not None:
        res["evals"] += 1
        det = dict(base_detail, argv=write_argv, text=_short(T, 4000))
        try:
            got = pyread(T)
        except C.CodecError as e:
            c = shrunk(lambda rs: (lambda w: w.ok and _raises(pyread, w.stdout))(write(rs)[0]))
            add_violation(res, {"kind": "std-read", "format": v.fmt, "variant": v.name, "where": "text", "delta": "not-well-formed", "class": c},
                          f"{v.name}: independent reader rejects Miller's output (needs cells of class [{c}]): {e}", det)
            got = None
        if got is not None:
            diffs = diff_records(recs, got)
            if diffs:
                for d in diffs:
                    if d["where"] == "structure":
                        d["cls"] = shrunk(lambda rs, dd=d["delta"]: (lambda w: w.ok and not _raises(pyread, w.stdout) and any(
                            x["where"] == "structure" and x["delta"] == dd for x in diff_records(rs, pyread(w.stdout))))(write(rs)[0]))
                report_diffs(res, v, "std-read", diffs, "independent reader recovers different cells from Miller's output", det)
            else:
                bump(res, "std_read_held")

    # ---- direction 2: independent writer, every legal style -> Miller
    if styles and not bytes_mode:
        k = case.get("nstyles", len(styles))
        if k < len(styles):
            start = rng.randrange(len(styles))
            styles = [styles[(start + i) % len(styles)] for i in range(k)]
        for sname, sfn in styles:
            srng = random.Random(rng.random())
            text = sfn(recs, random.Random(srng.random()))
            r = R.mlr(read_argv, stdin=text)
            res["evals"] += 1
            bump(res, "style:" + v.fmt + ":" + sname)
            det = dict(base_detail, argv=read_argv, stdin=text, style=sname)
            if r.verdict == "slow":
                res["inconc"] += 1
                continue
            if not r.ok:
                r0 = r
                c = shrunk(lambda rs: same_fail(R.mlr(read_argv, stdin=sfn(rs, random.Random(0))), r0))
                _fail(res, v, "std-write-fail", r, f"reader failed on standard text (style {sname})", det, c)
                continue
            try:
                got = mlr_json_to_records(r.stdout)
            except C.CodecError as e:
                add_violation(res, {"kind": "carrier", "format": v.fmt, "variant": v.name, "where": "json-output", "delta": "unparseable",
                                    "class": ""}, f"{v.name}: --ojson output not strict JSON: {e}", det)
                continue
            diffs = diff_records(recs, got)
            if diffs:
                for d in diffs:
                    if d["where"] == "structure":
                        d["cls"] = shrunk(lambda rs, dd=d["delta"]: (lambda g: g is not None and any(
                            x["where"] == "structure" and x["delta"] == dd for x in diff_records(rs, g)))(read_back(sfn(rs, random.Random(0)))))
                report_diffs(res, v, "std-write", diffs, f"Miller reads different cells from standard text (style {sname})", det,
                             {"style": sname})
            else:
                bump(res, "std_write_held")
        if state["needed"] and depth == 0:
            go_on()


# ==========================================================================================
# json: the JSON family with typed and nested values

NUM_TOKENS = ["0", "1", "-1", "42", "-17", "-0.5", "1.500", "0.10", "1E5", "1e+5", "1.0E+2", "10e-1", "0e0", "-0.0", "0.0",
              "9223372036854775807", "-9223372036854775808", "3.141592653589793", "1e-7", "123456789.123456789",
              "1e308", "5e-324", "2.5e-3", "100", "007".lstrip("0") or "7", "0.000001", "1E-2", "6.02e23"]
NUM_EDGE = {"-0": "int-minus-zero", "9223372036854775808": "int-beyond-int64", "-9223372036854775809": "int-beyond-int64",
            "123456789012345678901234567890": "int-beyond-int64", "1e400": "float-beyond-double", "-1e400": "float-beyond-double",
            "1e-400": "float-underflow"}
STR_SPECIAL = ["", " ", "123", "-4.5", "0x1F", "1e5", "true", "false", "null", "~", "yes", "no", "on", "off", "Null", "TRUE",
               "1_000", "0o17", ".5", "5.", ".inf", "-.inf", ".nan", "NaN", "Inf", "2001-01-01", "2001-01-01T00:00:00Z", "<<", "=",
               "!!str x", "- a", "a: b", "a:", "#c", "x #c", "&a", "*a", "|", ">", "%x", "@x", "`x", "? x", "[a", "{a", "a]", "]",
               "}", ",", "'", '"', "''", "a'b", 'a"b', "\\", "\\n", "a\\", "line1\nline2", "trail\n", "\nlead", "a\n\nb", " lead",
               "trail ", "  ", "\t", "a\tb", "\ttab", "a\r\nb", "a\rb", "\r", "---", "...", "- ", "key: value\nother: x", "é", "☃",
               "\U0001d11e", "é", " ", " ", "\u0085", "﻿", "\x00", "\x01", "\x1b", "\x7f", "\x1f", "a\x00b", "/", "</script>",
               "0", "00", "+1", "-", "--", "1:30", "1:30:00", "0b101", "1e", "e1", "0.", "12:30:45", "A" * 300, "x " * 60]


def num_class(tok):
    """Class of a JSON number token: the edges at which Miller's number model is documented/known to differ."""
    if tok in NUM_EDGE:
        return NUM_EDGE[tok]
    if re.fullmatch(r"-?\d+", tok):
        return "number" if -2 ** 63 <= int(tok) < 2 ** 63 else "int-beyond-int64"
    try:
        f = float(tok)
    except ValueError:
        return "number"
    if f in (float("inf"), float("-inf")):
        return "float-beyond-double"
    if f == 0 and re.search(r"[1-9]", re.split(r"[eE]", tok)[0]):
        return "float-underflow"
    if f == 0 and tok.startswith("-"):
        return "minus-zero"
    return "number"


def rand_json_number(rng):
    """A random token of the RFC-8259 number grammar: -?(0|[1-9][0-9]*)(.[0-9]+)?([eE][+-]?[0-9]+)?"""
    t = "-" if rng.random() < 0.3 else ""
    nd = rng.choice([1, 1, 2, 3, 6, 15, 16, 17, 18, 19, 20, 25])
    t += "0" if rng.random() < 0.25 else (rng.choice("123456789") + "".join(rng.choice("0123456789") for _ in range(nd - 1)))
    if rng.random() < 0.55:
        t += "." + "".join(rng.choice("0123456789") for _ in range(rng.choice([1, 1, 2, 3, 6, 12, 17, 20]))) + rng.choice(["", "", "0", "00"])
    if rng.random() < 0.4:
        t += rng.choice("eE") + rng.choice(["", "+", "-"]) + rng.choice(["0", "1", "2", "5", "05", "10", "22", "100", "300", "307", "308", "309", "323", "324", "325", "400"])
    return t


def gen_json_value(rng, depth, strings, allow_null=True, edge_p=0.06):
    x = rng.random()
    if depth > 0 and x < 0.22:
        n = rng.choice([0, 0, 1, 2, 3])
        if rng.random() < 0.5:
            keys = []
            while len(keys) < n:
                k = rng.choice(strings) if rng.random() < 0.3 else rng.choice(["a", "b", "c", "x", "y", "1", "2", "3", "k1", "id"])
                if k not in keys:
                    keys.append(k)
            return C.JObj((k, gen_json_value(rng, depth - 1, strings, allow_null, edge_p)) for k in keys)
        return [gen_json_value(rng, depth - 1, strings, allow_null, edge_p) for _ in range(n)]
    if x < 0.45:
        if rng.random() < edge_p:
            return C.JNum(rng.choice(sorted(NUM_EDGE)))
        return C.JNum(rng.choice(NUM_TOKENS))
    if x < 0.52:
        return rng.choice([True, False])
    if x < 0.56 and allow_null:
        return None
    if x < 0.75:
        return rng.choice(STR_SPECIAL)
    return rng.choice(strings)


def gen_json_records(rng, v, focus=None, big=None):
    strings = []
    for name, b, cls in F.PIECES:
        if cls in ("invalid-utf8", "long"):
            continue
        t = b.decode("utf-8")
        strings += [t, "a" + t + "b"]
    if focus is not None:
        strings = strings + [focus] * 40
    allow_null = "--jvquoteall" not in v.oflags
    nrec = rng.choice([0, 1, 1, 2, 3, 5, 9])
    recs = []
    for _ in range(nrec):
        nf = rng.choice([0, 1, 2, 3, 5, 8, 13])
        keys = []
        while len(keys) < nf:
            k = rng.choice(strings + STR_SPECIAL) if rng.random() < 0.35 else rng.choice(F.FILLER).decode() + str(len(keys))
            if k not in keys:
                keys.append(k)
        recs.append(C.JObj((k, gen_json_value(rng, 3, strings, allow_null)) for k in keys))
    if focus is not None and recs and recs[0]:
        k0 = recs[0][0][0]
        recs[0][0] = (k0, focus)
    # representation thresholds the table above never reaches (strings/keys of 64 KiB as in the flat formats, deep nesting,
    # number tokens drawn from the whole RFC-8259 grammar instead of a fixed list)
    if big == "long":
        L = F.PIECE_BY_NAME["long-64k"][0].decode()
        H = F.PIECE_BY_NAME["long-hostile"][0].decode()
        recs.insert(rng.randrange(len(recs) + 1), C.JObj([("k1", L), ("K" + L, "v"), ("k3", H), ("k4", [L[:5000], C.JObj([(H[:7000], "x")])])]))
    elif big == "deep":
        x = rng.choice(STR_SPECIAL)
        for d in range(64):
            x = C.JObj([(rng.choice(["a", "b", "k", rng.choice(STR_SPECIAL)]), x)]) if rng.random() < 0.5 else [x]
        recs.insert(rng.randrange(len(recs) + 1), C.JObj([("deep", x), ("after", "z")]))
    elif big == "numbers":
        recs.insert(rng.randrange(len(recs) + 1), C.JObj([("n%d" % i, C.JNum(rand_json_number(rng))) for i in range(13)] +
                                                        [("arr", [C.JNum(rand_json_number(rng)) for _ in range(6)])]))
    return recs


JSON_STYLES = [
    ("array-compact", {"shape": "array", "colon": ":", "comma": ","}),
    ("array-indent2", {"shape": "array", "indent": 2}),
    ("array-ascii-solidus", {"shape": "array", "ascii_only": True, "esc_solidus": True}),
    ("array-u-escape-all", {"shape": "array", "u_escape_all": True}),
    ("concat-newline", {"shape": "concat"}),
    ("concat-space-indent", {"shape": "concat", "concat_nl": False, "indent": 1}),
    ("lines", {"shape": "lines"}),
    ("lines-nofinal", {"shape": "lines", "final_eol": False}),
    ("array-crlf-indent", {"shape": "array", "indent": 4, "nl": "\r\n"}),
    ("array-space-empties", {"shape": "array", "space_empty": True, "indent": 2}),
]


def quoteall(v):
    if isinstance(v, C.JObj):
        return C.JObj((k, quoteall(x)) for k, x in v)
    if isinstance(v, list):
        return [quoteall(x) for x in v]
    if isinstance(v, C.JNum):
        return str(v)
    if v is True:
        return "true"
    if v is False:
        return "false"
    return v


def _num_eq(a, b):
    try:
        if re.fullmatch(r"-?\d+", a) and re.fullmatch(r"-?\d+", b) and all(-2 ** 63 <= int(x) < 2 ** 63 for x in (a, b)):
            return int(a) == int(b)      # (integers outside int64 are floats to Miller: compared as doubles below)
        return float(a) == float(b)
    except ValueError:
        return False


def jdiff(e, g, path, out, numeric=False, sort_keys=False, limit=8):
    """Structural diff of JSON trees -> out: list of (where, delta, cls, exp, got, path)."""
    if len(out) >= limit:
        return
    if isinstance(e, C.JObj):
        if not isinstance(g, C.JObj):
            out.append(("structure", "map->" + type(g).__name__, "", "map", repr(g)[:80], path))
            return
        ek, gk = [k for k, _ in e], [k for k, _ in g]
        if ek != gk:
            if sorted(ek) == sorted(gk) and gk == sorted(gk) and len(set(ek)) == len(ek):
                out.append(("key-order", "keys-sorted", "", ek[:8], gk[:8], path))
                gd = dict(g)
                for k, x in e:
                    jdiff(x, gd[k], path + [k], out, numeric, sort_keys, limit)
                return
            miss, extra = [k for k in ek if k not in gk], [k for k in gk if k not in ek]
            if miss and len(miss) == len(extra):
                for a_, b_ in list(zip(miss, extra))[:2]:
                    ab, bb = a_.encode("utf-8", "surrogatepass"), b_.encode("utf-8", "surrogatepass")
                    out.append(("key", delta(ab, bb), "+".join(sorted(F.classes_of(ab) | ({"merge-key"} if a_ == "<<" else set()))), a_, b_, path))
            elif miss or extra:
                out.append(("structure", "key-list", "merge-key" if "<<" in miss else "+".join(sorted(set().union(*[F.classes_of(k.encode("utf-8", "surrogatepass")) for k in miss]))) if miss else "",
                            ek[:8], gk[:8], path))
            else:
                out.append(("key-order", "other-order", "", ek[:8], gk[:8], path))
            return
        for (k, x), (_, y) in zip(e, g):
            jdiff(x, y, path + [k], out, numeric, sort_keys, limit)
        return
    if isinstance(e, list):
        if not isinstance(g, list) or isinstance(g, C.JObj):
            out.append(("structure", "array->" + type(g).__name__, "", "array", repr(g)[:80], path))
            return
        if len(e) != len(g):
            out.append(("structure", "array-length", "", len(e), len(g), path))
            return
        for i, (x, y) in enumerate(zip(e, g)):
            jdiff(x, y, path + [i], out, numeric, sort_keys, limit)
        return
    if isinstance(e, C.JNum):
        if isinstance(g, C.JNum):
            if str(e) == str(g):
                return
            out.append(("number", "token-changed-same-value" if _num_eq(str(e), str(g)) else "token-changed", num_class(str(e)), str(e), str(g), path))
        elif isinstance(g, str):
            out.append(("number", "number->string" if g == str(e) else "number->other-string", num_class(str(e)), str(e), g, path))
        else:
            out.append(("number", "number->" + type(g).__name__, num_class(str(e)), str(e), repr(g), path))
        return
    if isinstance(e, str):
        if isinstance(g, str) and not isinstance(g, C.JNum):
            if e != g:
                eb, gb = e.encode("utf-8", "surrogatepass"), g.encode("utf-8", "surrogatepass")
                out.append(("string", delta(eb, gb), "+".join(sorted(F.classes_of(eb))), e[:120], g[:120], path))
        else:
            out.append(("string", "string->" + ("number" if isinstance(g, C.JNum) else type(g).__name__), "text:" + e[:24], e[:120], repr(g)[:120], path))
        return
    if e is not g and not (e == g and type(e) is type(g)):
        out.append(("scalar", "%r->%s" % (e, type(g).__name__), "", repr(e), repr(g)[:80], path))


def jclasses(recs):
    cs = set()

    def walk(x):
        if isinstance(x, C.JObj):
            for k, y in x:
                cs.update("key:" + c for c in F.classes_of(k.encode("utf-8", "surrogatepass")))
                if k == "<<":
                    cs.add("merge-key")
                walk(y)
        elif isinstance(x, list):
            for y in x:
                walk(y)
        elif isinstance(x, C.JNum):
            if str(x) in NUM_EDGE:
                cs.add(NUM_EDGE[str(x)])
            if str(x) in ("-0", "-0.0"):
                cs.add("minus-zero")
        elif isinstance(x, str):
            cs.update(F.classes_of(x.encode("utf-8", "surrogatepass")) - {"empty"})
            if x.startswith("\n") or x.startswith("\r"):
                cs.add("leading-newline")
    for r in recs:
        walk(r)
        for k, _ in r:
            if k.startswith("\n"):
                cs.add("leading-newline")
    return "+".join(sorted(cs))


_PLAIN_STR = re.compile(r"[A-Za-z][A-Za-z0-9]*")


def leaf_classes(kind, x):
    """Classes of one JSON leaf (kind key | str | num | other) for signatures."""
    if kind == "num":
        cs = {num_class(str(x))}
        if str(x) in ("-0", "-0.0"):
            cs.add("minus-zero")
        return cs
    if kind == "other":
        return {"literal:" + repr(x)}
    b_ = x.encode("utf-8", "surrogatepass")
    cs = set(F.classes_of(b_)) - {"empty"}
    if x[:1] in ("\n", "\r"):
        cs.add("leading-newline")
    if kind == "key" and x == "<<":
        cs.add("merge-key")
    if x == "":
        cs.add("empty")
    if not cs and not _PLAIN_STR.fullmatch(x):
        cs = {"text:" + x[:16]}
    return {("key:" + c if kind == "key" else c) for c in cs}


def jmap(x, fn, path=()):
    """Rebuild a JSON tree; fn(path, kind, value) -> replacement for every key and scalar leaf. Paths are positional
    (so that replacing a key does not move anything): (i,) = i-th member's value, (i, 'k') = its key."""
    if isinstance(x, C.JObj):
        return C.JObj((fn(path + (i, "k"), "key", k), jmap(y, fn, path + (i,))) for i, (k, y) in enumerate(x))
    if isinstance(x, list):
        return [jmap(y, fn, path + (i,)) for i, y in enumerate(x)]
    if isinstance(x, C.JNum):
        return fn(path, "num", x)
    if isinstance(x, str):
        return fn(path, "str", x)
    return fn(path, "other", x)


def jplainify(recs, targets):
    """targets: set of (record index, path)."""
    if not targets:
        return recs

    def one(ri, r):
        def fn(path, kind, x):
            if (ri, path) not in targets:
                return x
            if kind == "key":
                return "zk%d" % path[-2]
            return C.JNum("1") if kind == "num" else "zs"
        return jmap(r, fn)
    return [one(ri, r) for ri, r in enumerate(recs)]


def jculprits(recs, fails, budget=60):
    """As culprits(), for JSON trees: -> (class string, set of (record index, path))."""
    if not fails(recs):
        return "unreproducible", set()
    lo, hi = 0, len(recs)
    while hi - lo > 1 and budget > 0:
        h = (lo + hi) // 2
        budget -= 1
        if fails(recs[lo:h]):
            hi = h
            continue
        budget -= 1
        if fails(recs[h:hi]):
            lo = h
            continue
        break
    items = recs[lo:hi]
    leaves = []
    for ri, r in enumerate(items):
        def fn(path, kind, x, ri=ri):
            if leaf_classes(kind, x) - {"number"} or (kind == "num" and str(x) != "1"):
                leaves.append((ri, path, kind, x))
            return x
        jmap(r, fn)
    neutral, needed = set(), []
    for ri, path, kind, x in leaves:
        if budget <= 0:
            needed.append((ri, path, kind, x))
            continue
        budget -= 1
        if fails(jplainify(items, neutral | {(ri, path)})):
            neutral.add((ri, path))
        else:
            needed.append((ri, path, kind, x))
    cls = "+".join(sorted(set().union(*[leaf_classes(kind, x) for _, _, kind, x in needed]))) if needed else "plain"
    return cls, {(ri + lo, path) for ri, path, _, _ in needed}


def json_case(case):
    v = F.variant_by_name(case["variant"])
    rng = random.Random(case["seed"])
    focus = case.get("focus")
    recs = gen_json_records(rng, v, focus, big=case.get("big"))
    res = case_result(_h("json", v.name, repr(recs)[:20000], len(repr(recs))), False, evals=0)
    nested = any(isinstance(x, (list,)) for r in recs for _, x in r)
    res["nontrivial"] = bool(recs) and (nested or any(isinstance(x, str) and F.classes_of(x.encode("utf-8", "surrogatepass")) for r in recs for _, x in r))
    bump(res, "variant:" + v.name)
    bump(res, "fmt:" + v.fmt)
    if case.get("big"):
        bump(res, "json_big:" + case["big"])
    styles = JSON_STYLES
    k = case.get("nstyles", len(styles))
    start = rng.randrange(len(styles))
    styles = [styles[(start + i) % len(styles)] for i in range(min(k, len(styles)))]
    batch = list(case.get("batch") or [])
    for sname, st in styles:
        bump(res, "style:json:" + sname)
        _json_check(res, v, recs, sname, st, batch, 0)
    if recs:
        res["sample"] = {"monitor": "json", "variant": v.name, "records_head": _short(C.write_json(recs[:1], {"shape": "lines"}), 300)}
    return res


def _json_check(res, v, recs, sname, st, batch, depth):
    """One input style through one JSON-family variant. A whole-input failure is reported with the classes of the leaves
    it needs (jculprits) and the comparison is repeated with exactly those leaves made plain."""
    yaml = v.fmt == "yaml"
    expected = [quoteall(r) for r in recs] if "--jvquoteall" in v.oflags else recs
    text = C.write_json(recs, st)
    state = {"needed": set()}

    def shrunk(fails):
        def counted(rs):
            bump(res, "witness_reduction_runs")
            return fails(rs)
        c, needed = jculprits(recs, counted)
        state["needed"] |= needed
        return c

    def go_on():
        if state["needed"] and depth < 2:
            bump(res, "continued_without_culprit_cells")
            _json_check(res, v, jplainify(recs, state["needed"]), sname, st, batch, depth + 1)

    def failing(r, kind, what, det, fails_with):
        """-> True when the process result is usable"""
        if r.verdict == "slow":
            res["inconc"] += 1
            return False
        if not r.ok:
            c = shrunk(lambda rs: fails_with(rs, r))
            _fail(res, v, kind, r, what, det, c)
            go_on()
            return False
        return True

    if not yaml:
        argv = batch + v.iflags + v.oflags + ["cat"]
        r = R.mlr(argv, stdin=text)
        res["evals"] += 1
        det = {"variant": v.name, "argv": argv, "stdin": text, "style": sname, "depth": depth}
        if not failing(r, "json-fail", f"JSON pass failed on RFC-8259 text (style {sname})", det,
                       lambda rs, r0: same_fail(R.mlr(argv, stdin=C.write_json(rs, st)), r0)):
            return
        out = r.stdout
        try:
            got = C.parse_json_records(out)
            if v.single_doc == "json":
                C.read_json_document(out)
            elif v.single_doc == "jsonl":
                C.read_jsonl_document(out)
            if "--no-jlistwrap" in v.oflags and out.lstrip()[:1] == b"[":
                raise C.CodecError("--no-jlistwrap output starts with '['")
            if ("--no-jvstack" in v.oflags or (v.fmt == "jsonl" and "--jvstack" not in v.oflags)) and recs:
                nl = out.count(b"\n")
                wrap = 2 if v.single_doc == "json" else 0
                if nl != len(recs) + wrap:
                    raise C.CodecError("single-line layout: %d newlines for %d records" % (nl, len(recs)))
        except C.CodecError as e:
            add_violation(res, {"kind": "json-output", "format": v.fmt, "variant": v.name, "where": "text", "delta": "not-well-formed",
                                "class": ""}, f"{v.name}: output is not a well-formed {v.single_doc or 'JSON'} document: {e}",
                          dict(det, stdout=_short(out, 3000)))
            return
        diffs = []
        if len(got) != len(expected):
            diffs.append(("structure", "record-count", "", len(expected), len(got), []))
        else:
            for i, (e, g) in enumerate(zip(expected, got)):
                jdiff(e, g, [i], diffs)
        for where, d, cls, ex, go, path in diffs:
            add_violation(res, {"kind": "json-roundtrip", "format": v.fmt, "variant": v.name, "where": where, "delta": d, "class": cls},
                          f"{v.name}: JSON in (style {sname}) != JSON out at {path}: {where} {d} ({cls or '-'}) expected {ex!r} got {go!r}",
                          dict(det, path=path, expected=ex, got=go, stdout=_short(out, 3000)))
        if not diffs:
            bump(res, "json_roundtrip_held")
        r2 = R.mlr(argv, stdin=out)
        res["evals"] += 1

        def idem_fails(rs, r0):
            w = R.mlr(argv, stdin=C.write_json(rs, st))
            return w.ok and same_fail(R.mlr(argv, stdin=w.stdout), r0)
        if failing(r2, "idem-fail", "JSON pass failed on Miller's own output", dict(det, stdin=out), idem_fails):
            if r2.stdout != out and not diffs:
                def idem_differs(rs):
                    w = R.mlr(argv, stdin=C.write_json(rs, st))
                    if not w.ok:
                        return False
                    w2 = R.mlr(argv, stdin=w.stdout)
                    return w2.ok and w2.stdout != w.stdout
                add_violation(res, {"kind": "idempotence", "format": v.fmt, "variant": v.name, "where": "text",
                                    "delta": text_delta(out, r2.stdout), "class": shrunk(idem_differs)},
                              f"{v.name}: mlr --json cat is not idempotent on its own output", dict(det, stdin=out, got=_short(r2.stdout, 3000)))
            elif r2.stdout == out:
                bump(res, "idempotence_held")
        return

    # ---- YAML: JSON -> YAML -> JSON, and YAML -> YAML
    wargv = v.oflags + ["--ijson", "cat"]
    rargv = batch + v.iflags + ["--ojson", "cat"]
    bargv = batch + v.iflags + v.oflags + ["cat"]

    def ywrite(rs):
        return R.mlr(wargv, stdin=C.write_json(rs, st))

    r = R.mlr(wargv, stdin=text)
    res["evals"] += 1
    det = {"variant": v.name, "argv": wargv, "stdin": text, "style": sname, "depth": depth}
    if not failing(r, "write-fail", "YAML writer failed", det, lambda rs, r0: same_fail(ywrite(rs), r0)):
        return
    Y = r.stdout
    r = R.mlr(rargv, stdin=Y)
    res["evals"] += 1
    det = {"variant": v.name, "argv": rargv, "stdin": Y, "written_by": wargv, "json": _short(text, 2000), "depth": depth}
    if not failing(r, "read-fail", "YAML reader failed on Miller's own YAML", det,
                   lambda rs, r0: (lambda w: w.ok and same_fail(R.mlr(rargv, stdin=w.stdout), r0))(ywrite(rs))):
        return
    try:
        got = C.parse_json_records(r.stdout)
    except C.CodecError as e:
        add_violation(res, {"kind": "carrier", "format": v.fmt, "variant": v.name, "where": "json-output", "delta": "unparseable", "class": ""},
                      f"{v.name}: --ojson output not strict JSON: {e}", det)
        return
    diffs = []
    if len(got) != len(expected):
        def count_differs(rs):
            w = ywrite(rs)
            if not w.ok:
                return False
            rr = R.mlr(rargv, stdin=w.stdout)
            try:
                return rr.ok and len(C.parse_json_records(rr.stdout)) != len(rs)
            except C.CodecError:
                return False
        diffs.append(("structure", "record-count", shrunk(count_differs), len(expected), len(got), []))
    else:
        for i, (e, g) in enumerate(zip(expected, got)):
            jdiff(e, g, [i], diffs)
    for where, d, cls, ex, go, path in diffs:
        add_violation(res, {"kind": "roundtrip", "format": v.fmt, "variant": v.name, "where": where, "delta": d, "class": cls},
                      f"{v.name}: JSON -> YAML -> JSON differs at {path}: {where} {d} ({cls or '-'}) expected {ex!r} got {go!r}",
                      dict(det, path=path, expected=ex, got=go))
    if not diffs:
        bump(res, "roundtrip_held")

    def yidem(Yin, reordered):
        """-> (status, text fed, text got, Result): the reader sorts keys (C01-F6, reported above as key-order), so when
        the round trip showed a re-ordering the fixed point is looked for one pass later"""
        r1 = R.mlr(bargv, stdin=Yin)
        if r1.verdict == "slow" or not r1.ok:
            return ("slow" if r1.verdict == "slow" else "fail"), Yin, None, r1
        if r1.stdout == Yin:
            return "ok", Yin, r1.stdout, r1
        if not reordered:
            return "mismatch", Yin, r1.stdout, r1
        r2 = R.mlr(bargv, stdin=r1.stdout)
        if r2.verdict == "slow" or not r2.ok:
            return ("slow" if r2.verdict == "slow" else "fail"), r1.stdout, None, r2
        return ("ok" if r2.stdout == r1.stdout else "mismatch"), r1.stdout, r2.stdout, r2

    # differences that do not change what the YAML text Y itself says (the writer has already re-rendered the number /
    # the reader will re-order) leave the idempotence law intact; any other difference would only be repeated here
    benign = all(d[0] == "key-order" or (d[0] == "number" and d[1] == "token-changed-same-value") for d in diffs)
    if not benign:
        return
    reordered = any(d[0] == "key-order" for d in diffs)
    status, Yin, Yout, r1 = yidem(Y, reordered)
    res["evals"] += 1
    det = dict(det, argv=bargv, stdin=Yin)
    if status == "slow":
        res["inconc"] += 1
    elif status == "fail":
        failing(r1, "idem-fail", "YAML pass failed on Miller's own YAML", det,
                lambda rs, r0: (lambda w: w.ok and (lambda x: x[0] == "fail" and same_fail(x[3], r0))(yidem(w.stdout, reordered)))(ywrite(rs)))
    elif status == "ok":
        bump(res, "idempotence_held")
    else:
        mz = re.sub(rb"(^|[\s\[,])-0(?=[\s\],]|$)", rb"\g<1>0", Yin) == Yout
        # (the reduction renames keys, which changes their sorted order -- C01-F6 -- so its predicate compares the two texts as
        #  multisets of lines, blind to re-ordering; it only decides which leaves the signature names, never whether there is a violation)
        def lines_of(t):
            return sorted(re.sub(rb"^(\s*)- ", rb"\1  ", ln) for ln in t.split(b"\n"))

        def still_differs(rs):
            w = ywrite(rs)
            if not w.ok:
                return False
            r_ = R.mlr(bargv, stdin=w.stdout)
            return r_.ok and lines_of(r_.stdout) != lines_of(w.stdout)
        c = shrunk(still_differs)
        add_violation(res, {"kind": "idempotence", "format": v.fmt, "variant": v.name, "where": "text",
                            "delta": "minus-zero->zero" if mz else "other", "class": c},
                      f"{v.name}: mlr --yaml cat is not idempotent on its own output (needs leaves of class [{c}])",
                      dict(det, got=_short(Yout, 3000)))


def json_cases(chk):
    q = chk.quick()
    cases = []
    vs = [v for v in F.variants() if v.json_typed]
    per = 24 if q else 300
    for v in vs:
        for i in range(per):
            focus = STR_SPECIAL[(i * 5 + chk.seed) % len(STR_SPECIAL)] if i % 2 == 0 else None
            case = {"variant": v.name, "seed": f"{chk.seed}/json/{v.name}/{i}", "focus": focus, "nstyles": 2 if q else 4}
            if i % 4 == 3:
                case["batch"] = ["--records-per-batch", str(1 + (i // 4) % 2)]
            cases.append(case)
        for i in range(1 if q else 12):
            for big in ("long", "deep", "numbers"):
                cases.append({"variant": v.name, "seed": f"{chk.seed}/jsonbig/{v.name}/{big}/{i}", "focus": None, "big": big,
                              "nstyles": 1 if q else 3})
    return cases


# ==========================================================================================
# opts: reader/writer option models written from the flag help and the doc pages

def _cells(rng, v, n, kind="val", hostile_p=0.4, extra_ok=None):
    al = F.allowed_pieces(v, kind, with_bytes=False)
    out = []
    while len(out) < n:
        c = F._rand_cell(rng, v.dom, kind, al, hostile_p)
        if extra_ok is None or extra_ok(c):
            out.append(c)
    return out


def _uniq_keys(rng, v, n, extra_ok=None):
    ks = []
    while len(ks) < n:
        k = _cells(rng, v, 1, "key", 0.3, extra_ok)[0]
        if k and k not in ks and k.decode("utf-8", "replace").strip() not in [x.decode("utf-8", "replace").strip() for x in ks] \
                and not k.startswith(C.BOM):
            ks.append(k)
    return ks


def _read_records(res, v, argv, text, what, det_extra=None, cls=""):
    r = R.mlr(argv, stdin=text)
    res["evals"] += 1
    det = dict({"argv": argv, "stdin": text}, **(det_extra or {}))
    if not _proc_ok(res, v, "opt-fail", r, what, det, cls):
        return None, det, r
    try:
        return mlr_json_to_records(r.stdout), det, r
    except C.CodecError as e:
        add_violation(res, {"kind": "carrier", "format": v.fmt, "variant": v.name, "where": "json-output", "delta": "unparseable", "class": cls},
                      f"{what}: --ojson output not strict JSON: {e}", det)
        return None, det, r


def _not_int_like(c):
    return not re.fullmatch(rb"[0-9]+", c)


def opt_case(case):
    kind = case["kind"]
    rng = random.Random(case["seed"])
    fmt = case.get("fmt", "csv")
    v = F.variant_by_name({"csv": "csv", "tsv": "tsv", "csvlite": "csvlite", "dkvp": "dkvp", "nidx": "nidx", "xtab": "xtab",
                           "pprint": "pprint", "json": "json", "tsvlite": "tsvlite", "markdown": "markdown", "usv": "usv",
                           "dkvpx": "dkvpx"}[fmt])
    res = case_result(_h("opt", kind, fmt, case["seed"]), True, evals=0)
    bump(res, "opt:" + kind + ":" + fmt)
    iflag = {"csv": "--icsv", "tsv": "--itsv", "csvlite": "--icsvlite", "dkvp": "--idkvp", "nidx": "--inidx", "xtab": "--ixtab",
             "pprint": "--ipprint", "json": "--ijson", "tsvlite": "--itsvlite", "markdown": "--imd", "usv": "--iusv", "dkvpx": "-i"}[fmt]      # (dkvpx has no --iF spelling: its users pass ["-i", "dkvpx"])
    # field counts on both sides of the 12-field threshold at which records switch to a key index
    wide = lambda small: rng.choice(small + [12, 13, 20]) if rng.random() < 0.4 else rng.choice(small)

    def write_rows(rows):
        if fmt == "csv":
            return C.write_csv(rows, {"quote": rng.choice(["minimal", "all", "random"]), "rng": rng})
        if fmt == "tsv":
            return C.write_tsv(rows)
        if fmt == "tsvlite":
            return b"".join(b"\t".join(r) + b"\n" for r in rows)
        return b"".join(b",".join(r) + b"\n" for r in rows)

    def sigd(d, **kw):
        sg = {"kind": "opt-" + kind, "format": fmt, "variant": v.name, "where": d["where"], "delta": d["delta"], "class": d["cls"]}
        sg.update(kw)
        return sg

    if kind == "ragged":
        n = wide([2, 3, 4, 5, 6])
        keys = _uniq_keys(rng, v, n, _not_int_like)
        rows = [keys]
        exp_fill, exp_trunc = [], []
        for _ in range(rng.randint(1, 8)):
            m = rng.choice([1, n - 1, n, n, n + 1, n + 3] + ([11, 12, 13] if n >= 12 else []))
            m = max(1, m)
            cells = _cells(rng, v, m)
            if m == 1 and cells[0] == b"":
                cells = [b"e"]
            rows.append(cells)
            if m <= n:
                exp_trunc.append(list(zip(keys[:m], cells)))
                exp_fill.append(list(zip(keys, cells + [b""] * (n - m))))
            else:
                rec = list(zip(keys, cells[:n])) + [(str(i + 1).encode(), c) for i, c in enumerate(cells) if i >= n]
                exp_trunc.append(rec)
                exp_fill.append(rec)
        text = write_rows(rows)
        flag = rng.choice(["--allow-ragged-csv-input", "--ragged"] + (["--allow-ragged-tsv-input"] if fmt == "tsv" else []))
        got, det, _ = _read_records(res, v, [iflag, flag] + READBACK + ["cat"], text, f"{fmt} ragged input")
        if got is not None:
            # short rows: the flag help says 'fill remaining keys with empty string'; the recorded execution in
            # record-heterogeneity.md (CSV) shows the keys simply absent. One outcome per format, for every short row of the run:
            # CSV as recorded on that page, CSV-lite / TSV / TSV-lite as the flag help says (the same pin as C05-b)
            exp = exp_trunc if fmt == "csv" else exp_fill
            ds = diff_records(exp, got)
            for d in ds[:2]:
                add_violation(res, sigd(d), f"{fmt} {flag}: records differ from the documented ragged rule ({'keys absent' if fmt == 'csv' else 'fill with empty'} for short rows, "
                              f"positional keys for the excess of long rows): {d['where']} {d['delta']} expected {d['exp']!r} got {d['got']!r}",
                              dict(det, expected=_jsonable_recs(exp), got=_jsonable_recs(got)))
            if not ds:
                bump(res, "opt_held")
                if n >= 12:
                    bump(res, "opt_held_12+_fields")
    elif kind == "implicit-header":
        n = wide([1, 2, 3, 4, 5, 6])
        rows = [_cells(rng, v, n) for _ in range(rng.randint(1, 6))]
        rows = [r if not (n == 1 and r[0] == b"") else [b"e"] for r in rows]
        if rows[0][0].startswith(C.BOM):
            rows[0][0] = b"x" + rows[0][0]
        text = write_rows(rows)
        flag = rng.choice(["--implicit-csv-header", "--headerless-csv-input", "--hi"] + (["--implicit-tsv-header"] if fmt == "tsv" else []))
        got, det, _ = _read_records(res, v, [iflag, flag] + READBACK + ["cat"], text, f"{fmt} implicit header")
        exp = [[(str(i + 1).encode(), c) for i, c in enumerate(r)] for r in rows]
        if got is not None:
            ds = diff_records(exp, got)
            for d in ds[:3]:
                add_violation(res, sigd(d), f"{fmt} {flag}: {d['where']} {d['delta']} expected {d['exp']!r} got {d['got']!r}", det)
            if not ds:
                bump(res, "opt_held")
    elif kind == "lazy-quotes":
        table = [
            (b'a,b\nx"y,z\n', [[(b"a", b'x"y'), (b"b", b"z")]]),
            (b'a,b\nx"y"z,"q"\n', [[(b"a", b'x"y"z'), (b"b", b"q")]]),
            (b'a,b\n"p"q",z\n', [[(b"a", b'p"q'), (b"b", b"z")]]),
            (b'a,b\n1,5" pipe\n2,"3 ""in"" 4"\n', [[(b"a", b"1"), (b"b", b'5" pipe')], [(b"a", b"2"), (b"b", b'3 "in" 4')]]),
            (b'a,b\n"x,y",z"\n', [[(b"a", b"x,y"), (b"b", b'z"')]]),
        ]
        text, exp = table[case["idx"] % len(table)]
        got, det, _ = _read_records(res, v, ["--icsv", "--lazy-quotes"] + READBACK + ["cat"], text, "csv --lazy-quotes")
        if got is not None:
            ds = diff_records(exp, got)
            for d in ds[:2]:
                add_violation(res, sigd(d), f"csv --lazy-quotes on {text!r}: {d['where']} {d['delta']} expected {d['exp']!r} got {d['got']!r}", det)
            if not ds:
                bump(res, "opt_held")
    elif kind == "trim-leading-space":
        n = rng.randint(1, 5)
        nolead = lambda c: not c.startswith(C.BOM) and not (c.decode("utf-8", "replace")[:1] in _UWS and c != b"")
        keys = _uniq_keys(rng, v, n, nolead)
        recs = [list(zip(keys, _cells(rng, v, n, extra_ok=nolead))) for _ in range(rng.randint(1, 5))]
        for r_ in recs:
            if n == 1 and r_[0][1] == b"":
                r_[0] = (r_[0][0], b"e")
        lines = []
        for row in C.records_to_rows(recs):
            cells = []
            for i, c in enumerate(row):
                q = C.csv_needs_quote(c) or rng.random() < 0.3 or (len(row) == 1 and c == b"")
                cells.append((b" " * rng.choice([0, 1, 1, 3]) if i else b"") + (C.csv_quote(c) if q else c))
            lines.append(b",".join(cells))
        text = b"\n".join(lines) + b"\n"
        got, det, _ = _read_records(res, v, ["--icsv", "--csv-trim-leading-space"] + READBACK + ["cat"], text, "csv --csv-trim-leading-space")
        if got is not None:
            ds = diff_records(recs, got)
            for d in ds[:2]:
                add_violation(res, sigd(d), f"csv --csv-trim-leading-space: {d['where']} {d['delta']} expected {d['exp']!r} got {d['got']!r}", det)
            if not ds:
                bump(res, "opt_held")
    elif kind == "comments":
        vv = F.variant_by_name(fmt)
        nohash = lambda c: not c.startswith(b"#") and not c.startswith(b"%")
        recs = None
        while recs is None:
            recs, _ = F.gen_records(rng, vv, allow_bytes=False, nrec=rng.randint(1, 5), nfld=rng.randint(1, 4))
        hetero_ok = vv.hetero
        recs = [[(k if nohash(k) else b"k" + k, val if nohash(val) else b"v" + val) for k, val in r] for r in recs]
        if not hetero_ok:
            keys = [k for k, _ in recs[0]]
            recs = [list(zip(keys, [val for _, val in r][:len(keys)])) for r in recs if len(r) == len(keys)]
        mode, prefix = case["mode"], case["prefix"]
        if fmt == "markdown" and any(b"|" in c for r in recs for kv in r for c in kv):
            res["skipped"] += 1        # C01-F8 (pipes in markdown cells) is reported by rt
            return res
        if fmt == "json":
            body = C.write_json([C.jobj_from_record(r_) for r_ in recs], {"shape": "lines"})
            body = body if isinstance(body, bytes) else body.encode("utf-8")
        else:
            body = vv.pywrite(recs)
        if fmt == "csv":
            body = C.write_csv(C.records_to_rows(recs), {"quote": "minimal"})
            if any(b"\n" in c or b"\r" in c for r in recs for kv in r for c in kv):
                res["skipped"] += 1   # comment lines between physical lines of a quoted field: not a line start of a record
                return res
        lines = body.split(b"\n")
        comments = []
        outl = []
        for ln in lines[:-1]:
            if rng.random() < 0.4:
                cm = prefix + rng.choice([b" a comment", b"x,y=z", b"", b' "q'])
                comments.append(cm)
                outl.append(cm)
            outl.append(ln)
        cm = prefix + b" last"
        if fmt != "xtab":
            comments.append(cm)
            outl.append(cm)
        text = b"\n".join(outl) + b"\n"
        flags = {("skip", b"#"): ["--skip-comments"], ("pass", b"#"): ["--pass-comments"],
                 ("skip", b"%"): ["--skip-comments-with", "%"], ("pass", b"%"): ["--pass-comments-with", "%"]}[(mode, prefix)]
        # comment lines are printed 'immediately': use an output format that writes whole lines per record
        argv = [iflag] + flags + ["--ojsonl", "--jvquoteall", "--no-auto-unflatten", "cat"]
        r = R.mlr(argv, stdin=text)
        res["evals"] += 1
        det = {"argv": argv, "stdin": text}
        if _proc_ok(res, v, "opt-fail", r, f"{fmt} {flags[0]}", det):
            out = r.stdout
            passed = []
            if mode == "pass":
                keep = []
                for ln in out.split(b"\n"):
                    if ln.startswith(prefix):
                        passed.append(ln)
                    else:
                        keep.append(ln)
                out = b"\n".join(keep)
            try:
                got = mlr_json_to_records(out)
            except C.CodecError as e:
                got = None
                add_violation(res, {"kind": "opt-comments", "format": fmt, "variant": v.name, "where": "text", "delta": "unparseable", "class": mode},
                              f"{fmt} {flags[0]}: output not JSON after removing comment lines: {e}", dict(det, stdout=_short(r.stdout, 2000)))
            if got is not None:
                ds = diff_records(recs, got)
                for d in ds[:2]:
                    add_violation(res, sigd(d, mode=mode), f"{fmt} {flags[0]}: {d['where']} {d['delta']} expected {d['exp']!r} got {d['got']!r}", det)
                if mode == "pass" and sorted(passed) != sorted(comments):
                    add_violation(res, {"kind": "opt-comments", "format": fmt, "variant": v.name, "where": "comments", "delta": "not-passed-verbatim", "class": mode},
                                  f"{fmt} {flags[0]}: comment lines printed {passed!r} != comment lines in input {comments!r}", det)
                elif not ds:
                    bump(res, "opt_held")
    elif kind == "bom":
        # a UTF-8 byte-order mark at the head of a file is an encoding signature, not data (release notes 5.2.0: 'CSV UTF BOM strip'):
        # the file reads as the same file without it -- with a header line, with an implicit header (the BOM must not land in the
        # first data cell), under the other reader options, and at the head of EVERY file of a multi-file run
        mode = case["mode"]
        implicit = mode.startswith("implicit")
        flags = list(case.get("flags") or [])
        fs = b";" if "--ifs" in flags else {"tsv": b"\t", "tsvlite": b"\t", "usv": "\u241f".encode()}.get(fmt, b",")
        gname = {"csv": "csv-fs-semicolon" if fs == b";" else "csv"}.get(fmt, fmt)
        if implicit:
            gname = {"csv": "csv-headerless", "tsv": "tsv-headerless", "csvlite": "csvlite-headerless", "tsvlite": "tsvlite-headerless"}[fmt]
        gv = F.variant_by_name(gname)

        def text_of(recs):
            if fmt == "csv":
                return C.write_csv(C.records_to_rows(recs, header=not implicit), {"quote": rng.choice(["minimal", "all", "random"]), "rng": rng, "fs": fs})
            if fmt == "tsv":
                return C.write_tsv(C.records_to_rows(recs, header=not implicit))
            if fmt in ("csvlite", "tsvlite", "usv"):
                return C.write_csvlite(recs, fs=fs, rs="\u241e".encode() if fmt == "usv" else b"\n", header=not implicit)
            if fmt == "dkvpx":
                return C.write_dkvpx(recs)
            return {"pprint": C.write_pprint, "markdown": C.write_markdown}[fmt](recs)
        lists = []
        for _ in range(2 if mode.endswith("2files") else 1):
            recs = None
            while recs is None or (fmt == "dkvpx" and any(b"\n" in c or b"\r" in c for r_ in recs for kv in r_ for c in kv)) \
                    or (fmt == "tsv" and any(F.classes_of(k) & {"backslash", "tab", "lf", "cr", "crlf"} for r_ in recs for k, _ in r_)) \
                    or ("--skip-comments" in flags and any(c.startswith(b"#") or b"\n#" in c or b"\r#" in c for r_ in recs for kv in r_ for c in kv)):
                # (newlines in DKVPX cells: C01-F7, escapes in TSV names: C01-F1, both reported by rt; comment-looking lines are not data)
                recs, _i = F.gen_records(rng, gv, allow_bytes=False, nrec=rng.randint(1, 4), nfld=rng.choice([1, 2, 3, 5, 12]))
            lists.append(recs)
        if fmt == "markdown" and any(b"|" in c for recs in lists for r in recs for kv in r for c in kv):
            res["skipped"] += 1
            return res
        hflag = [rng.choice(["--implicit-csv-header", "--hi"])] if implicit else []
        argv = (["-i", "dkvpx"] if fmt == "dkvpx" else [iflag]) + flags + hflag + READBACK + ["cat"]
        exp = [r_ for recs in lists for r_ in recs]
        if len(lists) == 1:
            text = C.BOM + text_of(lists[0])
            r = R.mlr(argv, stdin=text)
            det = {"argv": argv, "stdin": text}
        else:
            files = {"a.dat": C.BOM + text_of(lists[0]), "b.dat": C.BOM + text_of(lists[1])}
            argv = argv + ["a.dat", "b.dat"]
            r = R.mlr(argv, files=files)
            det = {"argv": argv, "files": files}
        res["evals"] += 1
        if _proc_ok(res, v, "opt-bom-fail", r, f"{fmt} reader on a file that begins with a BOM ({mode})", det, mode):
            try:
                got = mlr_json_to_records(r.stdout)
            except C.CodecError as e:
                got = None
                add_violation(res, {"kind": "carrier", "format": fmt, "variant": v.name, "where": "json-output", "delta": "unparseable", "class": mode}, f"--ojson output not strict JSON: {e}", det)
            if got is not None:
                ds = diff_records(exp, got)
                for d in ds[:2]:
                    add_violation(res, sigd(d, mode=mode), f"{fmt} file beginning with a UTF-8 BOM ({mode}{' ' + ' '.join(flags) if flags else ''}) does not read as the same file without it: "
                                  f"{d['where']} {d['delta']} expected {d['exp']!r} got {d['got']!r}", det)
                if not ds:
                    bump(res, "opt_held")
    elif kind == "lazy-quotes-gen":
        # flag help: 'Accepts quotes appearing in unquoted fields, and non-doubled quotes appearing in quoted fields.' Conforming
        # rows with one cell per row spelled in one of the tolerated ways; everything else stays RFC 4180
        word = lambda: b"".join(rng.choice([b"a", b"b", b"x1", b"7", b" ", b"q", b"Zz", b"'", b";"]) for _ in range(rng.randint(1, 4)))
        n = rng.choice([1, 2, 3, 5, 12])
        keys = [b"k%d" % i for i in range(n)]
        rows, exp = [b",".join(keys)], []
        for _ in range(rng.randint(1, 5)):
            cells, vals = [], []
            odd = rng.randrange(n)
            for i in range(n):
                a_, b_ = word().strip(b" ") or b"w", word()
                how = rng.choice(["unquoted-inner", "unquoted-final", "quoted-lone-inner"]) if i == odd else rng.choice(["plain", "plain", "quoted-fs", "quoted-doubled"])
                if how == "plain":
                    cells.append(a_ + b_); vals.append(a_ + b_)
                elif how == "quoted-fs":
                    cells.append(b'"' + a_ + b"," + b_ + b'"'); vals.append(a_ + b"," + b_)
                elif how == "quoted-doubled":
                    cells.append(b'"' + a_ + b'""' + b_ + b'"'); vals.append(a_ + b'"' + b_)
                elif how == "unquoted-inner":
                    cells.append(a_ + b'"' + b_ + b"z"); vals.append(a_ + b'"' + b_ + b"z")
                elif how == "unquoted-final":
                    cells.append(a_ + b_ + b'"'); vals.append(a_ + b_ + b'"')
                else:
                    cells.append(b'"' + a_ + b'"' + b"z" + b_ + b'"'); vals.append(a_ + b'"' + b"z" + b_)
                bump(res, "lazy:" + how)
            rows.append(b",".join(cells))
            exp.append(list(zip(keys, vals)))
        text = b"\n".join(rows) + b"\n"
        got, det, _ = _read_records(res, v, ["--icsv", "--lazy-quotes"] + READBACK + ["cat"], text, "csv --lazy-quotes")
        if got is not None:
            ds = diff_records(exp, got)
            for d in ds[:2]:
                add_violation(res, sigd(d), f"csv --lazy-quotes: {d['where']} {d['delta']} expected {d['exp']!r} got {d['got']!r}", det)
            if not ds:
                bump(res, "opt_held")
    elif kind == "reject":
        argv, why = case["argv"], case["why"]
        r = R.mlr(argv, stdin=case["stdin"])
        res["evals"] += 1
        if r.verdict == "slow":
            res["inconc"] += 1
        elif r.rc == 0 or not r.stderr.strip():
            add_violation(res, {"kind": "opt-reject", "format": fmt, "variant": "-", "where": "process", "delta": "accepted", "class": why},
                          f"documented restriction not enforced ({why}): rc={r.rc} stdout={r.stdout[:200]!r}", {"argv": argv, "stdin": case["stdin"]})
        else:
            bump(res, "opt_held")
    elif kind == "unsparsify-writer":
        # file-formats.md: too few keys matching the header -> empty fields; too many keys matching the header up to
        # its length -> the extra fields are emitted (data line longer than the header); otherwise an error
        n = wide([2, 3, 4, 5])
        keys = _uniq_keys(rng, v, n + 2, _not_int_like)
        hdr = keys[:n]
        recs = [list(zip(hdr, _cells(rng, v, n)))]
        exp_rows = [hdr, [c for _, c in recs[0]]]
        for _ in range(rng.randint(1, 5)):
            m = rng.choice([n - 1, n, n + 1, n + 2, 1])
            m = max(1, m)
            ks = keys[:m]
            cells = _cells(rng, v, m)
            if m == 1 and cells[0] == b"":
                cells = [b"e"]          # a sole empty cell is a blank line (inherent; same exclusion as in rt)
            recs.append(list(zip(ks, cells)))
            exp_rows.append(cells + [b""] * max(0, n - m))
        flag = case.get("flag")
        argv = ["--ijson", "--o" + fmt] + ([flag] if flag else []) + ["cat"]
        jtext = C.write_json([C.jobj_from_record(r_) for r_ in recs])
        r = R.mlr(argv, stdin=jtext)
        res["evals"] += 1
        det = {"argv": argv, "stdin": jtext}
        if flag == "--no-auto-unsparsify":
            # flag help: 'if the record keys change from one row to another, emit a blank line and a new header line'
            if _proc_ok(res, v, "opt-fail", r, f"{fmt} writer with --no-auto-unsparsify on key-count changes", det, "no-auto-unsparsify"):
                try:
                    got = C.read_csv_blocks(r.stdout) if fmt == "csv" else \
                        [[(k, C.tsv_decode(x)) for k, x in rr] for rr in C.read_csvlite_document(r.stdout, fs=b"\t")]
                    ds = diff_records(recs, got)
                except C.CodecError as e:
                    ds = [{"where": "text", "delta": "not-schema-change-blocks", "cls": "", "exp": "blank line + new header per key change", "got": str(e), "at": None}]
                for d in ds[:1]:
                    add_violation(res, {"kind": "opt-no-auto-unsparsify", "format": fmt, "variant": v.name, "where": d["where"], "delta": d["delta"], "class": ""},
                                  f"--o{fmt} --no-auto-unsparsify does not emit 'a blank line and a new header line' on a key change: {d['delta']} ({d['got']!r})",
                                  dict(det, stdout=_short(r.stdout, 2000)))
                if not ds:
                    bump(res, "opt_held")
        elif _proc_ok(res, v, "opt-fail", r, f"{fmt} writer on under/over-keyed records matching the header", det):
            try:
                rows = C.parse_csv(r.stdout) if fmt == "csv" else C.parse_tsv(r.stdout)
            except C.CodecError as e:
                rows = None
                add_violation(res, {"kind": "opt-unsparsify-writer", "format": fmt, "variant": v.name, "where": "text", "delta": "not-well-formed", "class": ""},
                              f"{fmt} writer output unparseable: {e}", dict(det, stdout=_short(r.stdout, 2000)))
            if rows is not None:
                if rows != exp_rows:
                    add_violation(res, {"kind": "opt-unsparsify-writer", "format": fmt, "variant": v.name, "where": "rows", "delta": "differs-from-documented-fill", "class": ""},
                                  f"{fmt} writer: rows differ from the documented fill/extend rule", dict(det, expected=[[_short(c, 60) for c in r_] for r_ in exp_rows],
                                                                                                            stdout=_short(r.stdout, 2000)))
                else:
                    bump(res, "opt_held")
    elif kind == "dedupe":
        n = wide([2, 3, 4, 5])
        literal = bool(case.get("literal"))
        key_ok = (lambda c: bool(re.fullmatch(rb"[A-Za-z][A-Za-z0-9]*", c))) if literal else (lambda c: b"_" not in c and _not_int_like(c))
        if n < 12:
            base = _uniq_keys(rng, v, n, key_ok)
            hdr = [rng.choice(base) for _ in range(n + 1)]
        else:
            # distinct names with duplicates planted on both sides of field 12 (where the key index takes over)
            hdr = _uniq_keys(rng, v, n + 1, key_ok)
            for dst, src in ((n, rng.choice([0, 11, 12, n - 1])), (min(13, n), rng.choice([1, 12])), (rng.randrange(1, 12), 0)):
                if rng.random() < 0.8 and dst != src and hdr[src] not in (hdr[dst], ):
                    hdr[dst] = hdr[src]
            if len(set(hdr)) == len(hdr):
                hdr[n] = hdr[12]
        if literal:
            # a name that already looks like a renamed duplicate (a_2 next to a,a): the documentation does not say which
            # name the collision gets, so only the invariants are required (below)
            dup = next((k for k in hdr if hdr.count(k) > 1), hdr[0])
            hdr[rng.choice([i for i in range(len(hdr)) if hdr[i] != dup] or [len(hdr) - 1])] = dup + b"_2"
            if hdr.count(dup) < 2:
                hdr.append(dup)
        cells = _cells(rng, v, len(hdr), extra_ok=lambda c: c != b"")
        cells = [(b"v" if literal else c) + b"%d" % i for i, c in enumerate(cells)]      # distinct values, so that order is observable
        if fmt in ("csv", "tsv"):
            text = write_rows([hdr, cells])
        elif fmt == "dkvp":
            if any(b"," in x or b"=" in x or b"\n" in x or x.endswith(b"\r") for x in hdr + cells):
                res["skipped"] += 1
                return res
            text = C.write_dkvp([list(zip(hdr, cells))])
        nodedupe = case["nodedupe"]
        exp = []
        if not nodedupe:
            cnt = {}
            for k, c in zip(hdr, cells):
                cnt[k] = cnt.get(k, 0) + 1
                exp.append((k if cnt[k] == 1 else k + b"_" + str(cnt[k]).encode(), c))
            if len({k for k, _ in exp}) != len(exp) and not literal:
                res["skipped"] += 1
                return res
        else:
            for k, c in zip(hdr, cells):
                for i, (k2, _) in enumerate(exp):
                    if k2 == k:
                        exp[i] = (k, c)
                        break
                else:
                    exp.append((k, c))
        argv = [iflag] + (["--no-dedupe-field-names"] if nodedupe else []) + READBACK + ["cat"]
        got, det, _ = _read_records(res, v, argv, text, f"{fmt} duplicate field names")
        if got is not None and literal and not nodedupe:
            g = got[0] if len(got) == 1 else []
            names = [k for k, _ in g]
            bad = None
            if [c for _, c in g] != cells:
                bad = "values-lost-or-reordered"
            elif len(set(names)) != len(names):
                bad = "names-not-distinct"
            elif any(hdr.count(k) == 1 and not any(k == h + b"_%d" % j for h in hdr for j in range(2, len(hdr) + 1)) and names[i] != k for i, k in enumerate(hdr)):
                bad = "unambiguous-name-renamed"
            elif names[hdr.index(next(k for k in hdr if hdr.count(k) > 1))] != next(k for k in hdr if hdr.count(k) > 1):
                bad = "first-occurrence-renamed"
            if bad:
                add_violation(res, {"kind": "opt-dedupe", "format": fmt, "variant": v.name, "where": "record", "delta": bad, "class": "literal-suffix-name", "nodedupe": False},
                              f"{fmt} duplicate field names with a literal x_2 in the header {hdr!r}: {bad}: got names {names!r}", dict(det, header=hdr, got=_jsonable_recs(got)))
            else:
                bump(res, "opt_held")
                bump(res, "opt_dedupe_literal_held")
        elif got is not None:
            ds = diff_records([exp], got)
            for d in ds[:2]:
                add_violation(res, sigd(d, nodedupe=nodedupe), f"{fmt} duplicate field names ({'--no-dedupe-field-names' if nodedupe else 'default'}): {d['where']} {d['delta']} expected {d['exp']!r} got {d['got']!r}", det)
            if not ds:
                bump(res, "opt_held")
                if len(hdr) >= 12:
                    bump(res, "opt_held_12+_fields")
    elif kind == "regex-seps":
        mode = case["mode"]
        vv = F.variant_by_name("nidx")
        okc = lambda c: c != b"" and not re.search(rb"[ \t;,:=]", c)
        n = rng.randint(1, 6)
        if fmt == "nidx":
            recs = [[(str(i + 1).encode(), c) for i, c in enumerate(_cells(rng, vv, rng.randint(1, n), extra_ok=okc))] for _ in range(rng.randint(1, 5))]
        else:
            keys = _uniq_keys(rng, vv, n, okc)
            recs = [list(zip(keys, _cells(rng, vv, n, extra_ok=okc))) for _ in range(rng.randint(1, 5))]
        sepset, flags = {
            "repifs-space": ([b" ", b"  ", b"     "], ["--ifs", "space", "--repifs"]),
            "repifs-semicolon": ([b";", b";;", b";;;;"], ["--ifs", ";", "--repifs"]),
            "regex-spaces": ([b" ", b"   "], ["--ifs-regex", " +"]),
            "alias-spaces": ([b" ", b"   "], ["--ifs-regex", "spaces"]),
            "alias-tabs": ([b"\t", b"\t\t\t"], ["--ifs-regex", "tabs"]),
            "alias-whitespace": ([b" ", b"\t", b" \t ", b"\t  "], ["--ifs-regex", "whitespace"]),
            "regex-class": ([b";", b",", b";,;"], ["--ifs-regex", "[;,]+"]),
        }[mode]
        ps = b"="
        if fmt == "dkvp" and mode == "regex-class":
            ps = rng.choice([b":", b"::", b":::"])
            flags = flags + ["--ips-regex", ":+"]
        lines = []
        for r_ in recs:
            parts = [(k + (rng.choice([b":", b"::", b":::"]) if ps != b"=" else b"=") + c) if fmt == "dkvp" else c for k, c in r_]
            ln = b""
            for i, pt in enumerate(parts):
                ln += (rng.choice(sepset) if i else b"") + pt
            lines.append(ln)
        text = b"\n".join(lines) + b"\n"
        argv = [iflag] + flags + READBACK + ["cat"]
        got, det, _ = _read_records(res, v, argv, text, f"{fmt} {' '.join(flags)}")
        if got is not None:
            ds = diff_records(recs, got)
            for d in ds[:2]:
                add_violation(res, sigd(d, mode=mode), f"{fmt} {' '.join(flags)}: {d['where']} {d['delta']} expected {d['exp']!r} got {d['got']!r}", det)
            if not ds:
                bump(res, "opt_held")
    elif kind == "fixed-width":
        vv = F.variant_by_name("pprint")
        n = rng.randint(1, 5)
        asc = lambda c: c not in (b"", b"-") and all(0x21 <= x <= 0x7E for x in c)
        keys = _uniq_keys(rng, vv, n, asc)
        words = lambda: b" ".join(_cells(rng, vv, rng.choice([1, 1, 2, 3]), extra_ok=asc))
        recs = [list(zip(keys, [words() for _ in range(n)])) for _ in range(rng.randint(1, 5))]
        jtext = C.write_json([C.jobj_from_record(r_) for r_ in recs])
        r = R.mlr(["--ijson", "--opprint", "cat"], stdin=jtext)
        res["evals"] += 1
        det = {"argv": ["--ijson", "--opprint", "cat"], "stdin": jtext}
        if _proc_ok(res, v, "opt-fail", r, "pprint writer", det):
            flags = rng.choice([["--fw"], ["--fixed", "left-align-multi-word"]])
            got, det, _ = _read_records(res, v, ["--ipprint"] + flags + READBACK + ["cat"], r.stdout, "pprint fixed-width input")
            if got is not None:
                ds = diff_records(recs, got)
                for d in ds[:2]:
                    add_violation(res, sigd(d), f"pprint {' '.join(flags)}: multi-word cells do not survive pprint -> fixed-width read: {d['where']} {d['delta']} expected {d['exp']!r} got {d['got']!r}", det)
                if not ds:
                    bump(res, "opt_held")
    return res


def opt_cases(chk):
    q = chk.quick()
    cases = []
    n = 12 if q else 250
    sd = lambda *xs: f"{chk.seed}/opt/" + "/".join(str(x) for x in xs)
    for fmt in ("csv", "tsv", "csvlite", "tsvlite"):
        for i in range(n):
            cases.append({"kind": "ragged", "fmt": fmt, "seed": sd("ragged", fmt, i)})
            cases.append({"kind": "implicit-header", "fmt": fmt, "seed": sd("ih", fmt, i)})
    for i in range(5):
        cases.append({"kind": "lazy-quotes", "fmt": "csv", "idx": i, "seed": sd("lazy", i)})
    for i in range(n if q else 120):
        cases.append({"kind": "lazy-quotes-gen", "fmt": "csv", "seed": sd("lazygen", i)})
    for fmt, modes in (("csv", ("header", "implicit", "header-2files", "implicit-2files")), ("csvlite", ("header", "implicit", "header-2files")),
                       ("tsv", ("header", "implicit", "header-2files")), ("tsvlite", ("header", "implicit")), ("usv", ("header",)),
                       ("dkvpx", ("header", "header-2files")), ("pprint", ("header",)), ("markdown", ("header",))):
        for mode in modes:
            for i in range(3 if q else 30):
                cases.append({"kind": "bom", "fmt": fmt, "mode": mode, "seed": sd("bom", fmt, mode, i)})
    for flags in (["--allow-ragged-csv-input"], ["--lazy-quotes"], ["--ifs", ";"], ["--skip-comments"]):
        for mode in ("header", "implicit"):
            for i in range(2 if q else 20):
                cases.append({"kind": "bom", "fmt": "csv", "mode": mode, "flags": flags, "seed": sd("bomf", flags, mode, i)})
    for i in range(n * 2):
        cases.append({"kind": "trim-leading-space", "fmt": "csv", "seed": sd("trim", i)})
    for fmt in ("csv", "tsv", "dkvp", "nidx", "xtab", "pprint", "csvlite", "tsvlite", "json", "markdown"):
        for mode in ("skip", "pass"):
            for prefix in (b"#", b"%"):
                for i in range(3 if q else 40):
                    cases.append({"kind": "comments", "fmt": fmt, "mode": mode, "prefix": prefix, "seed": sd("cm", fmt, mode, prefix, i)})
    for argv, stdin, why, fmt in [
        (["--icsv", "--ifs", ";;", "--ojson", "cat"], b"a;;b\n1;;2\n", "CSV IFS must be a single character", "csv"),
        (["--ijson", "--ocsv", "--ofs", ";;", "cat"], b'[{"a":"1","b":"2"}]', "CSV OFS must be a single character", "csv"),
        (["--icsv", "--ifs", "usv_fs", "--ojson", "cat"], "a␟b\n1␟2\n".encode(), "CSV IFS must be a single character", "csv"),
        (["--itsv", "--ifs", ";", "--ojson", "cat"], b"a;b\n1;2\n", "TSV IFS must be a tab", "tsv"),
        (["--icsv", "--irs", ";", "--ojson", "cat"], b"a,b;1,2;", "CSV IRS must be newline", "csv"),
        (["--ijson", "--ocsv", "--ors", ";", "cat"], b'[{"a":"1","b":"2"}]', "CSV ORS must be newline or CRLF", "csv"),
        (["--ijson", "--otsv", "--ors", ";", "cat"], b'[{"a":"1","b":"2"}]', "TSV ORS must be newline or CRLF", "tsv"),
    ]:
        cases.append({"kind": "reject", "fmt": fmt, "argv": argv, "stdin": stdin, "why": why, "seed": sd("rej", why, argv)})
    for fmt in ("csv", "tsv"):
        for flag in (None, "--no-auto-unsparsify"):
            for i in range(n):
                cases.append({"kind": "unsparsify-writer", "fmt": fmt, "flag": flag, "seed": sd("uw", fmt, flag, i)})
    for fmt in ("csv", "tsv", "dkvp"):
        for nd in (False, True):
            for i in range(n):
                cases.append({"kind": "dedupe", "fmt": fmt, "nodedupe": nd, "seed": sd("dd", fmt, nd, i)})
        for i in range(n // 2):
            cases.append({"kind": "dedupe", "fmt": fmt, "nodedupe": False, "literal": True, "seed": sd("ddlit", fmt, i)})
    for fmt in ("nidx", "dkvp"):
        for mode in ("repifs-space", "repifs-semicolon", "regex-spaces", "alias-spaces", "alias-tabs", "alias-whitespace", "regex-class"):
            for i in range(4 if q else 60):
                cases.append({"kind": "regex-seps", "fmt": fmt, "mode": mode, "seed": sd("rx", fmt, mode, i)})
    # (--fixed / --fw are not exercised: no writer produces text for them; Miller's own pprint output separates a
    #  full-width cell from the next column by one space, which multi-word mode cannot tell from a word gap)
    return cases


# ==========================================================================================

def flat_cases(chk):
    q = chk.quick()
    cases = []
    vs = [v for v in F.variants() if not v.json_typed]
    npieces = len(F.PIECES)
    npos = len(F.POSITIONS)
    if q:
        per = 24
        for vi, v in enumerate(vs):
            for i in range(per):
                # deterministic sweep over (piece, position); the rest of the case is random
                pi = (i * 7 + vi * 3 + chk.seed * 5) % npieces
                po = (i + vi + chk.seed) % npos
                focus = F.PIECES[pi][0] if i < per - 4 else None
                case = {"variant": v.name, "seed": f"{chk.seed}/rt/{v.name}/{i}", "focus": focus,
                        "position": F.POSITIONS[po] if focus else None, "nstyles": 3}
                if i % 5 == 4:
                    # hostile cells (quoted LF, XTAB stanzas, csvlite schema changes) at a batch edge: every record / every second one
                    case["batch"] = ["--records-per-batch", str(1 + (i // 5) % 2)]
                cases.append(case)
    else:
        for v in vs:
            for pname, pb, pc in F.PIECES:
                for po in F.POSITIONS:
                    cases.append({"variant": v.name, "seed": f"{chk.seed}/rtf/{v.name}/{pname}/{po}", "focus": pname,
                                  "position": po, "nstyles": 4})
            for i in range(160):
                case = {"variant": v.name, "seed": f"{chk.seed}/rtr/{v.name}/{i}", "focus": None, "position": None}
                if i % 3 == 2:
                    case["batch"] = ["--records-per-batch", str(1 + (i // 3) % 2)]
                cases.append(case)
    return cases


MONITORS = {
    "rt": lambda chk: (flat_case, flat_cases(chk)),
    "json": lambda chk: (json_case, json_cases(chk)),
    "opts": lambda chk: (opt_case, opt_cases(chk)),
}


DOC_PAGES = ["file-formats.md", "record-heterogeneity.md", "csv-with-and-without-headers.md", "shapes-of-data.md",
             "special-symbols-and-formatting.md", "questions-about-the-dsl.md", "operating-on-all-fields.md", "operating-on-all-records.md"]

HELP_SECTIONS = ["file-format-flags", "csv/tsv-only-flags", "pprint-only-flags", "json-only-flags", "dkvp-only-flags",
                 "markdown-only-flags", "separator-flags", "comments-in-data-flags"]

# flags printed by those help sections that this check deliberately does not exercise, and why
OUT_OF_SCOPE = {
    "--igen": "input generator, not a file format (no writer)", "--gen-field-name": "belongs to --igen",
    "--gen-start": "belongs to --igen", "--gen-step": "belongs to --igen", "--gen-stop": "belongs to --igen",
    "--fixed": "fixed-width input has no writer counterpart; Miller's own pprint output is ambiguous in multi-word mode",
    "--fw": "see --fixed",
    "--barred-unicode": "output decoration with no documented reader (observed: --barred-input reads it as zero records, silently)",
    "--io": "spelling equivalence is C02's table", "--c2c": "C02 alias table", "-c": "C02 alias table", "--t2t": "C02 alias table",
    "--j2j": "C02 alias table", "-j": "C02 alias table", "--l2l": "C02 alias table", "--d2d": "C02 alias table",
    "--n2n": "C02 alias table", "--x2x": "C02 alias table", "--p2p": "C02 alias table", "--y2y": "C02 alias table",
    "--asv": "C02: --F == --iF --oF", "--asvlite": "C02: --F == --iF --oF", "--csvlite": "C02: --F == --iF --oF",
    "--dcf": "C02: --F == --iF --oF", "--dkvpx": "C02: --F == -i F -o F", "--json": "C02: --F == --iF --oF",
    "--jsonl": "C02: --F == --iF --oF", "--markdown": "C02: --F == --iF --oF", "--md": "C02: --F == --iF --oF",
    "--nidx": "C02: --F == --iF --oF", "--recutils": "C02: --F == --iF --oF", "--tsv": "C02: --F == --iF --oF",
    "--tsvlite": "C02: --F == --iF --oF", "--usv": "C02: --F == --iF --oF", "--usvlite": "C02: --F == --iF --oF",
    "--xtab": "C02: --F == --iF --oF", "--yaml": "C02: --F == --iF --oF", "--markdown-aligned": "C02 `or` spelling of --md-aligned",
    "--omarkdown-aligned": "C02 `or` spelling of --omd-aligned",
    "--no-implicit-csv-header": "documented as the default; only meaningful inside `join`",
    "--no-implicit-tsv-header": "documented as the default; only meaningful inside `join`",
}
OPT_FLAGS_USED = ["--records-per-batch", "--allow-ragged-csv-input", "--ragged", "--allow-ragged-tsv-input", "--implicit-csv-header", "--headerless-csv-input",
                  "--hi", "--implicit-tsv-header", "--lazy-quotes", "--csv-trim-leading-space", "--skip-comments", "--pass-comments",
                  "--skip-comments-with", "--pass-comments-with", "--no-auto-unsparsify", "--ifs", "--repifs", "--ifs-regex",
                  "--ips-regex", "--ofs", "--ors", "--irs", "--ojsonl"]


def flag_coverage(chk):
    in_help = {}
    for sec in HELP_SECTIONS:
        r = R.mlr(["help", sec])
        for line in r.out.splitlines():
            m = re.match(r"^(-{1,2}[A-Za-z0-9][\w-]*(?: or -{1,2}[A-Za-z0-9][\w-]*)*)(?:\s|$)", line)
            if m:
                for f in m.group(1).split(" or "):
                    in_help.setdefault(f, sec)
    used = set(OPT_FLAGS_USED)
    for v in F.variants():
        used |= {a for a in v.oflags + v.iflags if a.startswith("-")}
    covered = sorted(f for f in in_help if f in used)
    scoped = {f: OUT_OF_SCOPE[f] for f in in_help if f in OUT_OF_SCOPE and f not in used}
    missing = sorted(f for f in in_help if f not in used and f not in OUT_OF_SCOPE)
    chk.extra["flags_in_help"] = len(in_help)
    chk.extra["flags_exercised"] = covered
    chk.extra["flags_out_of_scope"] = scoped
    chk.extra["flags_not_covered"] = missing
    return in_help


def run(chk):
    only = getattr(chk, "only", None)
    chk.rule = ("rt: (format x option variant) from vf/model/formats.py x record lists of 1-40 records x 1-16 fields (>= 12 in a fixed share), "
                "cells concatenated from a 79-piece hostile alphabet restricted by the per-format domain predicate, one focus piece per case at "
                "one of 8 positions (quick: 24 cases per variant sweeping piece x position; thorough: the full variant x piece x position product "
                "+ 160 random cases per variant); json: typed/nested JSON records x 10 RFC-8259 input styles per JSON-family variant; "
                "opts: reader/writer option models (ragged, implicit header, lazy quotes fixed + generated, trim-leading-space, comments, dedupe, regex/repeated "
                "separators, documented rejections, CSV/TSV fill rule, --no-auto-unsparsify, BOM x format x reader option x one/two files), field counts drawn from "
                "{1..6, 12, 13, 20} so that both sides of the 12-field key-index threshold are reached; json also: 64 KiB strings and keys, a depth-64 document, "
                "number tokens drawn from the whole RFC-8259 grammar; a share of the read-side runs uses --records-per-batch 1/2. Non-trivial = the record list contains at least one "
                "cell that forces the writer off its fast path (separator/quote/backslash/newline/control/non-ASCII/invalid UTF-8/space/long) or is "
                "heterogeneous; distinct = hash of (variant, record list)")
    flag_coverage(chk)
    if not only or "rt" in only:
        chk.pmap(flat_case, flat_cases(chk), chunksize=4, label="rt flat formats")
    if not only or "json" in only:
        chk.pmap(json_case, json_cases(chk), chunksize=2, label="json family")
    if not only or "opts" in only:
        chk.pmap(opt_case, opt_cases(chk), chunksize=4, label="opts")
    if not only or "docs" in only:
        chk.pmap(docreplay.replay_page, [{"page": pg} for pg in DOC_PAGES], label="doc-replay")
    st = chk.stats
    chk.extra["variants_reached"] = sorted(k[8:] for k in st if k.startswith("variant:"))
    chk.extra["formats_reached"] = sorted(k[4:] for k in st if k.startswith("fmt:"))
    chk.extra["variants_total"] = len(F.variants())
    chk.extra["format_x_class_cells"] = len([k for k in st if k.startswith("class:")])
    chk.extra["format_x_focus_piece_cells"] = len([k for k in st if k.startswith("focus:")])
    chk.extra["direction2_styles_reached"] = sorted(k[6:] for k in st if k.startswith("style:"))
    chk.extra["option_models_reached"] = sorted(k[4:] for k in st if k.startswith("opt:"))
    for k in [k for k in st if k.split(":")[0] in ("variant", "class", "focus", "style", "opt", "fmt")]:
        st.pop(k)
    chk.assumptions = [
        "carrier: records are injected as JSON string values and read back with --ojson --jvquoteall --no-auto-unflatten; the JSON codec itself is "
        "checked against Python's strict RFC-8259 decoder in the json monitor; content that is not valid UTF-8 is injected with the format's own "
        "independent Python writer and read with the independent Python reader instead",
        "all formats: keys non-empty and unique within a record (the readers dedupe a,a -> a,a_2 by documented default; checked separately in opts)",
        "CSV: a record whose only cell is empty is not generated for unquoted output (a blank line); the first cell of a file does not begin with the "
        "BOM bytes (the reader strips a BOM); heterogeneous key sets are not in the CSV/TSV domain (unset fill / schema-change error are by design; "
        "the documented fill rule itself is checked in opts)",
        "csvlite/tsvlite/usv/asv: cells free of IFS and IRS (file-formats.md: not escaped in any way), no cell ends in CR (CRLF autodetect)",
        "DKVP/NIDX/XTAB/PPRINT: no escape mechanism, so cells are free of the separators; NIDX/XTAB values non-empty, XTAB values do not begin with "
        "the pair separator (repeated for alignment); PPRINT value '-' is the empty-cell marker; barred PPRINT cells contain no '|' and do not start with '+'",
        "markdown: no newline, no leading/trailing space in cells; a row consisting only of '---' cells is the header rule",
        "recutils: field names [A-Za-z_][A-Za-z0-9_]*; values do not begin with a newline and no line of a value ends in a backslash "
        "(both documented in file-formats.md); DCF: plain printable-ASCII tokens only (format is thinly documented)",
        "JSON/YAML: valid UTF-8 without lone surrogates; unique keys per object; numbers are compared by token in JSON AND YAML "
        "(reference-main-data-types.md: 'Numbers retain their original string representation ... One exception: on JSON output' for text that is not a JSON number; "
        "a YAML re-rendering that keeps the value is listed as C01-F21, one that changes the value has a different signature)",
        "--allow-ragged-csv-input short rows: ONE outcome per format for every short row of a run - CSV: keys absent (the recorded execution in "
        "record-heterogeneity.md), CSV-lite / TSV / TSV-lite: filled with empty (flag help); the same pin as C05-b",
        "whole-input failures (a process that does not exit 0, text an independent reader rejects, a lost record, a text-only idempotence difference) carry in "
        "their signature the classes of a 1-minimal set of cells without which the failure disappears (halving over records, then cell by cell, <= 48 extra runs), "
        "and the comparisons are repeated on the list with exactly those cells made plain (depth <= 2)",
        "BOM: 'a file that begins with the UTF-8 BOM reads as the same file without it' is required of the CSV/TSV family and of the readers that implement it "
        "(CSV incl. implicit header / ragged / lazy quotes / custom IFS / comments, CSV-lite, TSV, TSV-lite, USV, DKVPX, PPRINT, markdown), for one file and for "
        "every file of a two-file run; DKVP/NIDX/XTAB (BOM kept, nothing documented) and JSON (RFC 8259 lets a parser reject it) are not in this law",
        "PPRINT --ofs is not a round-trip variant: the writer pads with spaces and puts OFS only between columns (regression case io-multi-character-ixs/0015 "
        "pins 'a  @i @x'), so cells come back with trailing spaces by design; XTAB --ops/--ofs, NIDX/DKVP/CSV-lite/TSV-lite FS and RS are variants; DKVPX IRS cannot be "
        "altered (diagnostic says so)",
        "PPRINT --ho/--hi (headerless output / implicit header) is implemented but documented only for the CSV family: checked as a variant (exploration)",
        "duplicate field names next to a literal x_2 (a,a,a_2): the documentation does not say which name the collision gets, so only the invariants are required "
        "(all values kept in order, names distinct, names that cannot collide unchanged, first occurrence keeps its name)",
        "--csv-trim-leading-space: 'leading spaces' is read as any leading white space (cells starting with other white space are not generated)",
        "right-align-numeric variants: layout depends on inferred type, so idempotence is required from the second pass on",
    ]
