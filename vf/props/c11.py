"""C11 - record-selecting verbs only select: nothing altered or invented, counts add up.

Monitors (DESIGN.md section 3, C11):
  sel     head / tail / decimate / tac / nothing / group-by / group-like / having-fields / grep /
          uniq -a / skip-trivial-records / cat -n -g against Python list slicing / partitioning over the
          parsed input (records carry unique ids, so identity is an O(n) comparison of lines)
  rand    sample / bootstrap / shuffle under --seed: subset / multiset / permutation laws only
  filter  expressions from a mirrored mini-language evaluated in Python (three-valued: true/false/absent);
          `filter X` and `filter -x X` must partition the input
  laws    model-free cross-verb laws on raw outputs (head+tail concatenation, tac twice, group sizes,
          grep / grep -v, head -g vs cat -n -g, decimate -n 1, ...)
  chain   every selector placed AFTER another verb (records reordered / dropped / duplicated / synthesised, NR unrelated
          to position) or over several files: the same models applied to the upstream verb's own output
  stat    sample / shuffle / bootstrap over constant data and constant --seed values: uniformity within >= 5-sigma bounds,
          not the identity, seeds matter, same seed same output (deterministic verdict)

Input and output are DKVP with default separators, so an unchanged record is a byte-identical line.
"""
import hashlib
import random
import re

from .. import run as R
from ..harness import add_violation, bump, case_result
from ..model import c09_docreplay as DR

BINARIES = ("mlr-verif",)
LEVEL = "exploration"

NS = [0, 1, 2, 5, 13, 499, 500, 501, 1003]
A_POOL = ["pan", "eks", "wye", "zee", "hat"]
B_POOL = ["x1", "x2", "Y", "", "x1"]
S_POOL = ["apple", "Banana", "cherry", "date", "Elder", "fig", "grape", "kiwi", "lemon", "Mango", "xyzzy", "panpan"]


def _h(*xs):
    return hashlib.sha1(repr(xs).encode()).hexdigest()[:16]


# ------------------------------------------------------------------------------------------
# input generation

A_COMMA = ["x,y", "x", "x,y,z", "w"]
B_COMMA = ["z", "y,z", "", ",z"]


WIDE_FILL = [(f"w{j}", str(j)) for j in range(1, 10)]


def mk_records(rng, n, ragged, commas=False, empty_mix=0.0, wide=False):
    """n records as lists of (key, value) pairs; every record has a unique id and an always-present
    int k and string s; a, b, i are missing with probability `ragged`; some carry an extra field.
    commas: group-by values contain the default OFS (the stream is then read/written with IFS ';'),
    so ("x,y","z") and ("x","y,z") must stay different groups.
    wide: nine filler fields follow id, so every record has >= 12 fields (the width from which Miller keeps a
    per-record key index) and the group-by fields sit behind the 10th position."""
    out = []
    for j in range(n):
        rec = [("id", f"r{j+1}")]
        if wide:
            rec += WIDE_FILL
        # empty_mix: on purpose, the same stream holds records whose group-by value is the EMPTY STRING (a legitimate
        # group) and records LACKING the field (member of no group): the two must never be confused
        if rng.random() >= ragged:
            rec.append(("a", "" if rng.random() < empty_mix else rng.choice(A_COMMA if commas else A_POOL)))
        if rng.random() >= ragged:
            rec.append(("b", "" if rng.random() < empty_mix else rng.choice(B_COMMA if commas else B_POOL)))
        rec.append(("k", str(rng.randint(0, 40))))
        if rng.random() >= ragged:
            rec.append(("i", str(rng.randint(-20, 60))))
        rec.append(("s", rng.choice(S_POOL)))
        if ragged and rng.random() < 0.15:
            rec.append((rng.choice(["p", "q", "ab"]), rng.choice(["u", "v", "3", ""])))
        out.append(rec)
    return out


def line_of(rec, sep=","):
    return sep.join(f"{k}={v}" for k, v in rec)


def text_of(recs, sep=","):
    return "".join(line_of(r, sep) + "\n" for r in recs)


def split_out(stdout):
    t = stdout.decode("utf-8", "surrogateescape")
    if t == "":
        return []
    ls = t.split("\n")
    if ls and ls[-1] == "":
        ls.pop()
    return ls


def gkey(rec, fields):
    """Grouping key = tuple of the *texts* of the group-by fields; None if any is missing
    (an empty value is a value)."""
    if not fields:
        return ()
    d = dict(rec)
    out = []
    for f in fields:
        if f not in d:
            return None
        out.append(d[f])
    return tuple(out)


# ------------------------------------------------------------------------------------------
# models: each returns (list of acceptable index sequences) or None when the form is outside the
# documented domain (then only the generic selection law is checked)

def m_head(recs, kspec, g):
    k = int(kspec)          # "+3" parses as 3, "-0" as 0
    groups = {}
    keep = []
    if k >= 0:
        for idx, r in enumerate(recs):
            key = gkey(r, g)
            if key is None:
                continue
            c = groups.get(key, 0)
            if c < k:
                keep.append(idx)
            groups[key] = c + 1
        return [keep]
    m = -k
    members = {}
    for idx, r in enumerate(recs):
        key = gkey(r, g)
        if key is None:
            continue
        members.setdefault(key, []).append(idx)
    kept = set()
    emit_at = {}
    for key, idxs in members.items():
        for p, idx in enumerate(idxs):
            if p + m < len(idxs):
                kept.add(idx)
                emit_at[idx] = idxs[p + m]      # the record that displaces it from the look-behind window
    stream = sorted(kept)
    by_emission = sorted(kept, key=lambda i: emit_at[i])
    by_group = [i for key in members for i in members[key] if i in kept]
    cands = [stream]
    for c in (by_emission, by_group):
        if c not in cands:
            cands.append(c)
    return cands


def m_tail(recs, kspec, g):
    members = {}
    for idx, r in enumerate(recs):
        key = gkey(r, g)
        if key is None:
            continue
        members.setdefault(key, []).append(idx)
    if kspec.startswith("+"):
        k = int(kspec[1:])
        kept = set()
        for key, idxs in members.items():
            for p, idx in enumerate(idxs):
                if p + 1 >= k:
                    kept.add(idx)
        stream = sorted(kept)
        by_group = [i for key in members for i in members[key] if i in kept]
        return [stream] if stream == by_group else [stream, by_group]
    k = abs(int(kspec))     # `tail -n -k` = `tail -n k` (GNU tail, which reference-verbs.md names as the model; see assumptions)
    out = []
    for key, idxs in members.items():      # first-appearance order of groups (reference-verbs.md example)
        out += idxs[max(0, len(idxs) - k):] if k > 0 else []
    return [out]


def m_decimate(recs, m, which, g):
    cnt = {}
    keep = []
    rem = 0 if which in ("-e", "") else (1 % m)
    for idx, r in enumerate(recs):
        key = gkey(r, g)
        if key is None:
            continue
        c = cnt.get(key, 0) + 1
        cnt[key] = c
        if c % m == rem:
            keep.append(idx)
    return [keep]


def m_group_by(recs, g):
    members = {}
    for idx, r in enumerate(recs):
        key = gkey(r, g)
        if key is None:
            continue
        members.setdefault(key, []).append(idx)
    return [[i for key in members for i in members[key]]]


def m_group_like(recs):
    members = {}
    for idx, r in enumerate(recs):
        members.setdefault(tuple(k for k, _ in r), []).append(idx)
    return [[i for key in members for i in members[key]]]


def _mlr_regex(spec):
    """'"..."i' -> (pattern, re.I); '"..."' -> (pattern, 0); bare -> (pattern, 0)."""
    if len(spec) >= 3 and spec.startswith('"') and spec.endswith('"i'):
        return spec[1:-2], re.I
    if len(spec) >= 2 and spec.startswith('"') and spec.endswith('"'):
        return spec[1:-1], 0
    return spec, 0


def m_having(recs, opt, arg):
    keep = []
    if opt in ("--at-least", "--which-are", "--at-most"):
        names = arg.split(",")
        ns = set(names)
        for idx, r in enumerate(recs):
            ks = [k for k, _ in r]
            kset = set(ks)
            if opt == "--at-least":
                ok = ns <= kset
            elif opt == "--which-are":
                ok = (kset == ns and len(ks) == len(names))
            else:
                ok = kset <= ns
            if ok:
                keep.append(idx)
        return [keep]
    pat, fl = _mlr_regex(arg)
    rx = re.compile(pat, fl)
    for idx, r in enumerate(recs):
        hits = [rx.search(k) is not None for k, _ in r]
        if opt == "--all-matching":
            ok = all(hits)
        elif opt == "--any-matching":
            ok = any(hits)
        else:
            ok = not any(hits)
        if ok:
            keep.append(idx)
    return [keep]


def m_grep(recs, flags, pat):
    fl = re.I if "-i" in flags else 0
    rx = re.compile(pat, fl)
    keep = []
    for idx, r in enumerate(recs):
        text = ",".join(v for _, v in r) if "-a" in flags else line_of(r)
        hit = rx.search(text) is not None
        if hit != ("-v" in flags):
            keep.append(idx)
    return [keep]


# ------------------------------------------------------------------------------------------
# running and judging

def _run(argv, stdin, res, detail, files=None):
    r = R.mlr(argv, stdin=stdin, files=files) if files else R.mlr(argv, stdin=stdin)
    bump(res, "runs")
    if r.verdict == "slow":
        res["inconc"] += 1
        return None
    if r.verdict != "exited":
        # cpu / output-cap / deadlock on a finite input of <= ~2000 small records: a selecting verb that re-emits its
        # buffer for ever "invents records" (this property); a process that never ends selected nothing. One case, one
        # command line: a violation, not an inconclusive run (only the watchdog verdict `slow` above is inconclusive).
        bump(res, "runs_not_terminating_" + r.verdict)
        add_violation(res, dict(detail["sigbase"], kind="hang", verdict=r.verdict),
                      f"mlr {' '.join(argv)}: does not terminate on {detail['n']} records ({r.verdict}; {len(r.stdout)} bytes of output)",
                      dict(argv=argv, stdin=_short(stdin), files=detail.get("files"), stderr=r.err[-1500:], stdout_head=r.stdout[:600]))
        return None
    if r.crashed():
        add_violation(res, dict(detail["sigbase"], kind="crash"),
                      f"mlr {' '.join(argv)}: crash trace on {detail['n']} records: {r.err.strip().splitlines()[0] if r.err.strip() else ''}",
                      dict(argv=argv, stdin=stdin if len(stdin) < 4000 else stdin[:4000] + "...", stderr=r.err[-2500:]))
        return None
    if r.rc != 0:
        add_violation(res, dict(detail["sigbase"], kind="exit"),
                      f"mlr {' '.join(argv)}: exit status {r.rc} on a valid selection command: {r.err.strip()[:200]}",
                      dict(argv=argv, stdin=stdin if len(stdin) < 4000 else stdin[:4000] + "...", stderr=r.err[-2500:]))
        return None
    return r


def _short(stdin):
    return stdin if len(stdin) <= 6000 else stdin[:6000] + f"... ({len(stdin)} bytes; regenerate from the case seed)"


def _judge_indices(res, sigbase, argv, stdin, inp_lines, out_lines, cands, multiset=False, what="", alt=None):
    """Generic selection law + model comparison. Returns the list of output indices or None.
    alt = (class name, candidate index lists of a model of ONE known defect): the class is attached to the signature
    only when the WHOLE output equals that alternative model (and not the documented one), so any other wrong
    selection on the same stream - an off-by-one, a record of an unaffected group - stays unlisted."""
    index = {}
    for i, l in enumerate(inp_lines):
        index.setdefault(l, i)
    got = []
    for ol in out_lines:
        if ol not in index:
            add_violation(res, dict(sigbase, kind="altered-or-invented"),
                          f"mlr {' '.join(argv)}: output record {ol[:120]!r} is not byte-equal to any input record",
                          dict(argv=argv, stdin=_short(stdin), got_line=ol))
            return None
        got.append(index[ol])
    if not multiset and len(set(got)) != len(got):
        add_violation(res, dict(sigbase, kind="duplicated"),
                      f"mlr {' '.join(argv)}: an input record appears more than once in the output",
                      dict(argv=argv, stdin=_short(stdin), got=[inp_lines[i] for i in got[:50]]))
        return None
    if cands is not None and got not in cands:
        exp = cands[0]
        # first difference, for the one-line message
        p = 0
        while p < len(got) and p < len(exp) and got[p] == exp[p]:
            p += 1
        if alt is not None:
            sigbase = dict(sigbase, **{"class": alt[0] if got in alt[1] else "other"})
        add_violation(res, dict(sigbase, kind="selection"),
                      f"mlr {' '.join(argv)} on {len(inp_lines)} records: {len(got)} records out, model says {len(exp)}; "
                      f"first difference at output position {p + 1}" + (f" ({what})" if what else ""),
                      dict(argv=argv, stdin=_short(stdin), expected=[inp_lines[i] for i in exp[:60]],
                           got=[inp_lines[i] for i in got[:60]], n_expected=len(exp), n_got=len(got)))
        return None
    return got


def _nontrivial(n_in, got):
    if got is None or n_in <= 1:
        return False
    if 0 < len(got) < n_in:
        return True
    if len(got) == n_in and got != sorted(got):
        return True
    return False


def sel_case(case):
    rng = random.Random(case["seed"])
    verb = case["verb"]
    n = case["n"]
    b = case["b"]
    g = case.get("g") or []
    ragged = case.get("ragged", 0.0)
    commas = bool(case.get("commas"))
    sep = ";" if commas else ","
    recs = mk_records(rng, n, ragged, commas, case.get("empty_mix", 0.0), bool(case.get("wide")))
    sigbase = {"verb": verb, "form": case.get("form", "")}
    res = case_result(_h("sel", sorted((k, repr(v)) for k, v in case.items())))
    if case.get("wide"):
        bump(res, "cases_with_records_of_12_or_more_fields")
    if case.get("empty_mix"):
        bump(res, "cases_mixing_empty_value_and_missing_field")
    bump(res, "verb:" + verb)
    cands = None
    pre = ["--records-per-batch", str(b)] if b else []
    if commas:
        pre = ["--ifs", ";", "--ofs", ";"] + pre
        bump(res, "cases_with_comma_values")
    gargs = ["-g", ",".join(g)] if g else []
    what = ""
    alt = None
    # the model of known finding C11-F5 (group identified by the values joined with ','): same verb model over records
    # whose group-by fields are replaced by ONE field holding the joined text
    recs_j = None
    if commas and g:
        recs_j = [[("__j", ",".join(gkey(x, g)))] if gkey(x, g) is not None else [] for x in recs]
    if verb == "head":
        argv = ["head", "-n", case["k"]] + gargs
        cands = m_head(recs, case["k"], g)
        if recs_j:
            alt = ("joined-key-collision", m_head(recs_j, case["k"], ["__j"]))
    elif verb == "tail":
        argv = ["tail", "-n", case["k"]] + gargs
        cands = m_tail(recs, case["k"], g)
        if recs_j:
            alt = ("joined-key-collision", m_tail(recs_j, case["k"], ["__j"]))
    elif verb == "decimate":
        argv = ["decimate", "-n", str(case["m"])] + ([case["which"]] if case["which"] else []) + gargs
        cands = m_decimate(recs, case["m"], case["which"], g)
        if recs_j:
            alt = ("joined-key-collision", m_decimate(recs_j, case["m"], case["which"], ["__j"]))
    elif verb == "tac":
        argv = ["tac"]
        cands = [list(range(n - 1, -1, -1))]
    elif verb == "nothing":
        argv = ["nothing"]
        cands = [[]]
    elif verb == "group-by":
        argv = ["group-by", ",".join(g)]
        cands = m_group_by(recs, g)
        if recs_j:
            alt = ("joined-key-collision", m_group_by(recs_j, ["__j"]))
    elif verb == "group-like":
        argv = ["group-like"]
        cands = m_group_like(recs)
    elif verb == "having-fields":
        argv = ["having-fields", case["opt"], case["arg"]]
        cands = m_having(recs, case["opt"], case["arg"])
    elif verb == "grep":
        argv = ["grep"] + case["flags"] + [case["pat"]]
        cands = m_grep(recs, case["flags"], case["pat"])
    else:
        raise ValueError(verb)
    if cands is None:
        res["skipped"] += 1     # form outside the documented domain: generic law only
        bump(res, "generic_law_only")
    stdin = text_of(recs, sep)
    full = pre + argv
    r = _run(full, stdin, res, {"sigbase": sigbase, "n": n})
    if r is None:
        return res
    inp_lines = [line_of(x, sep) for x in recs]
    got = _judge_indices(res, sigbase, full, stdin, inp_lines, split_out(r.stdout), cands, what=what, alt=alt)
    res["nontrivial"] = _nontrivial(n, got)
    if got is not None and cands is not None:
        bump(res, "model_checked")
    res["sample"] = {"monitor": "sel", "argv": full, "n_records": n, "n_out": None if got is None else len(got)}
    return res


# ---- verbs that need duplicate / trivial records (no unique ids) ---------------------------

def dup_case(case):
    """uniq -a [-c|-n] [-o name] and skip-trivial-records on inputs with repeats, empty records
    and all-empty records."""
    rng = random.Random(case["seed"])
    n = case["n"]
    b = case["b"]
    verb = case["verb"]
    pool = []
    for _ in range(rng.randint(1, 9)):
        r = []
        if rng.random() < 0.85:
            r.append(("a", rng.choice(A_POOL + ["", "1", "1.0", "01"])))
        if rng.random() < 0.7:
            r.append(("b", rng.choice(["", "x", "y", "2", "2.0", "0x2"])))
        if rng.random() < 0.3:
            r.append(("c", rng.choice(["", "z"])))
        pool.append(r)
    pool.append([])                       # a record with zero fields (an empty DKVP line)
    pool.append([("a", ""), ("b", "")])    # all values empty
    recs = [list(rng.choice(pool)) for _ in range(n)]
    lines = [line_of(r) for r in recs]
    stdin = text_of(recs)
    pre = ["--records-per-batch", str(b)] if b else []
    sigbase = {"verb": verb, "form": case.get("form", "")}
    res = case_result(_h("dup", verb, case.get("form"), n, b, case["seed"]))
    bump(res, "verb:" + verb)
    if verb == "skip-trivial-records":
        argv = pre + ["skip-trivial-records"]
        exp = [l for l, r in zip(lines, recs) if r and any(v != "" for _, v in r)]
    else:
        form = case["form"]
        argv = pre + ["uniq", "-a"] + form.split()
        first = {}
        order = []
        for l in lines:
            if l not in first:
                first[l] = 0
                order.append(l)
            first[l] += 1
        name = "N" if "-o" in form else "count"
        if "-c" in form:
            exp = [f"{name}={first[l]}" + ("," + l if l else "") for l in order]
        elif "-n" in form:
            exp = [f"{name}={len(order)}"]
        else:
            exp = order
    r = _run(argv, stdin, res, {"sigbase": sigbase, "n": n})
    if r is None:
        return res
    got = split_out(r.stdout)
    if got != exp:
        p = 0
        while p < len(got) and p < len(exp) and got[p] == exp[p]:
            p += 1
        # narrow the signature: does the output equal the model computed after rewriting 0x.. values as decimal?
        cls = "other"
        if verb == "uniq-a":
            def norm(l):
                return ",".join(kv.split("=", 1)[0] + "=" + (str(int(kv.split("=", 1)[1], 16)) if kv.split("=", 1)[1].startswith("0x") else kv.split("=", 1)[1])
                                for kv in l.split(",")) if l else l
            cnt2, order2 = {}, []
            for l in lines:
                nl = norm(l)
                if nl not in cnt2:
                    cnt2[nl] = 0
                    order2.append((nl, l))      # the first original spelling is what gets printed
                cnt2[nl] += 1
            if "-c" in form:
                alt = [f"{name}={cnt2[nl]}" + ("," + l if l else "") for nl, l in order2]
            elif "-n" in form:
                alt = [f"{name}={len(order2)}"]
            else:
                alt = [l for _, l in order2]
            if got == alt:
                cls = "hex-int-merged-with-decimal"
        sigbase = dict(sigbase, **{"class": cls})
        add_violation(res, dict(sigbase, kind="selection"),
                      f"mlr {' '.join(argv)} on {n} records: output differs from the model at line {p + 1} "
                      f"({len(got)} lines, model {len(exp)})",
                      dict(argv=argv, stdin=_short(stdin), expected=exp[:60], got=got[:60]))
    else:
        bump(res, "model_checked")
    res["nontrivial"] = n > 1 and 0 < len(exp) < n
    res["sample"] = {"monitor": "dup", "argv": argv, "n_records": n, "n_out": len(got)}
    return res


# ---- cat -n -g ----------------------------------------------------------------------------

def catn_case(case):
    rng = random.Random(case["seed"])
    n, b, g = case["n"], case["b"], case["g"]
    recs = mk_records(rng, n, case.get("ragged", 0.0), False, case.get("empty_mix", 0.0), bool(case.get("wide")))
    name = case.get("name")
    argv = (["--records-per-batch", str(b)] if b else []) + ["cat"] + (["-N", name] if name else ["-n"]) + ["-g", ",".join(g)]
    fld = name or "n"
    sigbase = {"verb": "cat-n-g", "form": "N" if name else "n"}
    res = case_result(_h("catn", g, n, b, name, case.get("empty_mix"), case.get("wide"), case["seed"]))
    bump(res, "verb:cat-n-g")
    stdin = text_of(recs)
    r = _run(argv, stdin, res, {"sigbase": sigbase, "n": n})
    if r is None:
        return res
    got = split_out(r.stdout)
    # Every group that HAS the field(s) - including the group whose value is the empty string - must be numbered
    # exactly 1..n in stream order, so a record lacking a field can never consume or share a number of a real
    # group. What cat does with the field-lacking records themselves (own counter, pass-through, drop) is not
    # settled by `mlr cat --help`: they are only required to be unaltered (apart from the counter) if present.
    lines = {line_of(x): i for i, x in enumerate(recs)}
    keyed = [(i, gkey(x, g)) for i, x in enumerate(recs)]
    cnt = {}
    exp = []
    for i, key in keyed:
        if key is None:
            continue
        cnt[key] = cnt.get(key, 0) + 1
        exp.append((i, cnt[key]))
    seen = []
    bad = None
    for ol in got:
        if "," in ol:
            head, rest = ol.split(",", 1)
        else:
            head, rest = ol, ""
        if not head.startswith(fld + "=") or rest not in lines:
            bad = ol
            break
        i = lines[rest]
        if gkey(recs[i], g) is None:
            bump(res, "keyless_records_numbered_by_cat")
            continue
        try:
            seen.append((i, int(head[len(fld) + 1:])))
        except ValueError:
            bad = ol
            break
    if bad is not None:
        add_violation(res, dict(sigbase, kind="altered-or-invented"),
                      f"mlr {' '.join(argv)}: output line {bad[:100]!r} is not <counter>,<an input record>",
                      dict(argv=argv, stdin=_short(stdin), got_line=bad))
    elif seen != exp:
        p = 0
        while p < len(seen) and p < len(exp) and seen[p] == exp[p]:
            p += 1
        badkey = keyed[exp[p][0]][1] if p < len(exp) else None
        add_violation(res, dict(sigbase, kind="numbering", group="empty-value" if badkey is not None and "" in badkey else "plain"),
                      f"mlr {' '.join(argv)} on {n} records: per-group numbering differs from 1..n at keyed output record {p + 1} "
                      f"(group {badkey}: expected {exp[p] if p < len(exp) else None}, got {seen[p] if p < len(seen) else None})",
                      dict(argv=argv, stdin=_short(stdin), expected=exp[max(0, p - 3):p + 5], got=seen[max(0, p - 3):p + 5]))
    else:
        bump(res, "model_checked")
    if any(k is None for _, k in keyed):
        bump(res, "catn_cases_with_field_lacking_records")   # those records themselves are not judged
    if any(k is None for _, k in keyed) and any(k is not None and "" in k for _, k in keyed):
        bump(res, "catn_cases_mixing_empty_value_and_missing_field")
    res["nontrivial"] = n > 1 and len({k for _, k in keyed if k is not None}) >= 2 and max(cnt.values() or [0]) >= 2
    res["sample"] = {"monitor": "cat-n-g", "argv": argv, "n_records": n}
    return res


# ---- count-similar -g: membership of groups (empty value = a group, missing field = no group) ------------

def csim_case(case):
    rng = random.Random(case["seed"])
    n, b, g = case["n"], case["b"], case["g"]
    recs = mk_records(rng, n, case.get("ragged", 0.0), False, case.get("empty_mix", 0.0), bool(case.get("wide")))
    oname = case.get("oname")
    argv = (["--records-per-batch", str(b)] if b else []) + ["count-similar", "-g", ",".join(g)] + (["-o", oname] if oname else [])
    sigbase = {"verb": "count-similar", "form": "o" if oname else "default"}
    res = case_result(_h("csim", g, n, b, oname, case.get("empty_mix"), case.get("wide"), case["seed"]))
    bump(res, "verb:count-similar")
    stdin = text_of(recs)
    r = _run(argv, stdin, res, {"sigbase": sigbase, "n": n})
    if r is None:
        return res
    got = split_out(r.stdout)
    members = {}
    for i, x in enumerate(recs):
        key = gkey(x, g)
        if key is not None:
            members.setdefault(key, []).append(i)
    # "emits each record augmented by a count of the number of ... records having the same group-by field values":
    # records grouped in first-appearance order, input order within a group, count appended as the last field
    exp = [line_of(recs[i]) + f",{oname or 'count'}={len(idxs)}" for key, idxs in members.items() for i in idxs]
    if got != exp:
        p = 0
        while p < len(got) and p < len(exp) and got[p] == exp[p]:
            p += 1
        add_violation(res, dict(sigbase, kind="selection"),
                      f"mlr {' '.join(argv)} on {n} records: output differs from the model at line {p + 1} ({len(got)} lines, model "
                      f"{len(exp)}): got {got[p][:80] if p < len(got) else '<eof>'!r}, expected {exp[p][:80] if p < len(exp) else '<eof>'!r}",
                      dict(argv=argv, stdin=_short(stdin), expected=exp[:40], got=got[:40]))
    else:
        bump(res, "model_checked")
    if case.get("empty_mix"):
        bump(res, "cases_mixing_empty_value_and_missing_field")
    res["nontrivial"] = n > 1 and len(members) >= 2 and 0 < len(exp) and (len(exp) < n or [l.rsplit(",", 1)[0] for l in exp] != [line_of(x) for x in recs])
    res["sample"] = {"monitor": "count-similar", "argv": argv, "n_records": n, "n_out": len(got)}
    return res


# ---- random verbs -------------------------------------------------------------------------

def rand_case(case):
    rng = random.Random(case["seed"])
    verb, n, b = case["verb"], case["n"], case["b"]
    g = case.get("g") or []
    recs = mk_records(rng, n, case.get("ragged", 0.0), wide=bool(case.get("wide")))
    pre = ["--seed", str(case["mseed"])] + (["--records-per-batch", str(b)] if b else [])
    sigbase = {"verb": verb, "form": case.get("form", "")}
    res = case_result(_h("rand", verb, case.get("k"), g, n, b, case.get("wide"), case["mseed"], case["seed"]))
    bump(res, "verb:" + verb)
    if verb == "sample":
        argv = pre + ["sample", "-k", str(case["k"])] + (["-g", ",".join(g)] if g else [])
    elif verb == "bootstrap":
        argv = pre + ["bootstrap"] + (["-n", str(case["k"])] if case.get("k") is not None else [])
    else:
        argv = pre + ["shuffle"]
    stdin = text_of(recs)
    sb = dict(sigbase)
    if verb == "bootstrap" and n == 0 and (case.get("k") or 0) > 0:
        sb["class"] = "n-given-empty-input"
    if verb == "sample" and case["k"] >= 10 ** 8:
        sb["class"] = "huge-k"
    r = _run(argv, stdin, res, {"sigbase": sb, "n": n})
    if r is None:
        return res
    inp_lines = [line_of(x) for x in recs]
    out_lines = split_out(r.stdout)
    got = _judge_indices(res, sigbase, argv, stdin, inp_lines, out_lines, None, multiset=(verb == "bootstrap"))
    if got is None:
        return res
    ok = True
    if verb == "sample":
        sizes = {}
        for x in recs:
            key = gkey(x, g)
            if key is not None:
                sizes[key] = sizes.get(key, 0) + 1
        outsz = {}
        for i in got:
            key = gkey(recs[i], g)
            outsz[key] = outsz.get(key, 0) + 1
        exp = {key: min(case["k"], c) for key, c in sizes.items() if min(case["k"], c) > 0}
        if outsz != exp:
            ok = False
            add_violation(res, dict(sigbase, kind="count"),
                          f"mlr {' '.join(argv)} on {n} records: per-group sample sizes {dict(list(outsz.items())[:6])} "
                          f"are not min(k, group size) {dict(list(exp.items())[:6])}",
                          dict(argv=argv, stdin=_short(stdin), got=out_lines[:40]))
        res["nontrivial"] = n > 1 and 0 < len(got) < n
        bump(res, "sample_fraction_kept_sum", len(got) / n if n else 0)
    elif verb == "bootstrap":
        want = n if case.get("k") is None else (case["k"] if n > 0 else 0)
        if len(got) != want:
            ok = False
            add_violation(res, dict(sigbase, kind="count"),
                          f"mlr {' '.join(argv)} on {n} records: {len(got)} records out, expected {want}",
                          dict(argv=argv, stdin=_short(stdin), got=out_lines[:40]))
        res["nontrivial"] = n > 1 and len(got) > 0 and len(set(got)) < n
        if n > 3 and len(got) == n and len(set(got)) == n and got == sorted(got):
            bump(res, "bootstrap_runs_equal_to_identity")
    else:
        if sorted(got) != list(range(n)):
            ok = False
            add_violation(res, dict(sigbase, kind="count"),
                          f"mlr {' '.join(argv)} on {n} records: output is not a permutation of the input ({len(got)} records out)",
                          dict(argv=argv, stdin=_short(stdin), got=out_lines[:40]))
        res["nontrivial"] = n > 1 and got != sorted(got)
        if n > 3 and got == sorted(got):
            bump(res, "shuffle_runs_equal_to_identity")
    if ok:
        bump(res, "law_checked")
    res["sample"] = {"monitor": "rand", "argv": argv, "n_records": n, "n_out": len(got)}
    return res


# ---- random verbs: statistical laws over FIXED --seed values ----------------------------------
# "sample -k k" = a uniform sample, "shuffle" = a uniform permutation, "bootstrap" = draws with replacement
# (reference-verbs.md). A verb that degenerates (identity shuffle, first-k sample, bootstrap = copy) satisfies every
# subset / permutation / count law above, so these batteries look at MANY draws. Data and --seed values are constants
# (independent of VERIF_SEED): for a given binary the verdict is deterministic, never flaky; the bounds are >= 5 standard
# deviations wide, so a correct implementation with ANY generator passes (p < 1e-6 per bound), and a degenerate one is
# far outside them.

def _pearson(xs, ys):
    n = len(xs)
    if n < 2:
        return 0.0
    mx, my = sum(xs) / n, sum(ys) / n
    sxx = sum((x - mx) ** 2 for x in xs)
    syy = sum((y - my) ** 2 for y in ys)
    if sxx == 0 or syy == 0:
        return 0.0
    return sum((x - mx) * (y - my) for x, y in zip(xs, ys)) / (sxx * syy) ** 0.5


def stat_case(case):
    kind, s0, b = case["kind"], case["seed0"], case["b"]
    res = case_result(_h("stat", kind, s0, b))
    res["evals"] = 0
    bump(res, "stat_battery:" + kind)
    verb = kind.split("-")[0]
    sigbase = {"verb": verb, "form": "stat:" + kind}
    drng = random.Random("c11-stat-data")          # constant data
    pre = ["--records-per-batch", str(b)] if b else []

    def draw(recs, mseed, vargv, multiset=False):
        stdin = text_of(recs)
        argv = ["--seed", str(mseed)] + pre + vargv
        r = _run(argv, stdin, res, {"sigbase": sigbase, "n": len(recs)})
        res["evals"] += 1
        if r is None:
            return None
        return _judge_indices(res, sigbase, argv, stdin, [line_of(x) for x in recs], split_out(r.stdout), None, multiset=multiset)

    def fail(what, **detail):
        add_violation(res, dict(sigbase, kind="not-random"), what, detail)

    def bounds(name, value, lo, hi, argv_example, note):
        bump(res, "stat_bounds_checked")
        if not (lo <= value <= hi):
            fail(f"{kind}: {name} = {value:.4g} outside [{lo}, {hi}] ({note})", argv=argv_example, seeds=f"{s0 + 1}..", statistic=name, value=value)

    if kind == "shuffle-small":
        n, runs = 5, 60
        recs = mk_records(drng, n, 0.0)
        outs = []
        for j in range(runs):
            g = draw(recs, s0 + j + 1, ["shuffle"])
            if g is None or sorted(g) != list(range(n)):
                return res
            outs.append(tuple(g))
        ex = ["--seed", "<s>"] + pre + ["shuffle"]
        bounds("runs equal to the input order", sum(1 for o in outs if list(o) == sorted(o)), 0, 8, ex, "uniform: 60/120 = 0.5 expected")
        bounds("distinct permutations", len(set(outs)), 25, 60, ex, "uniform: ~47 of 60 draws from 120 expected")
        for i in range(n):
            bounds(f"runs with record {i + 1} first", sum(1 for o in outs if o[0] == i), 1, 36, ex, "uniform: 12 of 60 expected")
            bounds(f"runs with record {i + 1} last", sum(1 for o in outs if o[-1] == i), 1, 36, ex, "uniform: 12 of 60 expected")
        # --seed is documented to make the run reproducible
        for j in (1, 2, 3):
            g = draw(recs, s0 + j, ["shuffle"])
            if g is not None and tuple(g) != outs[j - 1]:
                fail(f"shuffle with --seed {s0 + j} gives two different outputs in two runs", argv=["--seed", str(s0 + j)] + pre + ["shuffle"])
    elif kind in ("shuffle-large", "bootstrap-large"):
        n, runs = 1003, 8
        recs = mk_records(drng, n, 0.0)
        outs = []
        vargv = [verb]
        for j in range(runs):
            g = draw(recs, s0 + j + 1, vargv, multiset=(verb == "bootstrap"))
            if g is None or len(g) != n:
                return res
            outs.append(tuple(g))
            ex = ["--seed", str(s0 + j + 1)] + pre + vargv
            bounds("correlation of output position and input position", _pearson(list(range(n)), list(g)), -0.2, 0.2, ex,
                   "uniform: 0 +- 0.032")
            bounds("records left at their input position", sum(1 for p_, i in enumerate(g) if p_ == i), 0, 15, ex, "uniform: 1 expected")
            if verb == "bootstrap":
                from collections import Counter
                c = Counter(g)
                bounds("distinct input records drawn", len(c), 560, 710, ex, "with replacement: N(1 - 1/e) = 634 +- 11 expected")
                bounds("largest multiplicity", max(c.values()), 2, 14, ex, "with replacement: about 6 expected")
        bounds("distinct outputs over 8 seeds", len(set(outs)), 8, 8, ["--seed", "<s>"] + pre + vargv, "different seeds, different draws")
    elif kind == "bootstrap-small":
        n, runs = 13, 40
        recs = mk_records(drng, n, 0.0)
        outs = []
        for j in range(runs):
            g = draw(recs, s0 + j + 1, ["bootstrap"], multiset=True)
            if g is None or len(g) != n:
                return res
            outs.append(tuple(g))
        ex = ["--seed", "<s>"] + pre + ["bootstrap"]
        bounds("runs without any repeated record", sum(1 for o in outs if len(set(o)) == n), 0, 2, ex, "13!/13^13 = 2e-5 per run")
        bounds("distinct outputs", len(set(outs)), 38, 40, ex, "13^13 possible outputs")
        tot = [sum(o.count(i) for o in outs) for i in range(n)]
        bounds("fewest draws of one record over 520 draws", min(tot), 12, 40, ex, "uniform: 40 +- 6 expected")
        bounds("most draws of one record over 520 draws", max(tot), 40, 75, ex, "uniform: 40 +- 6 expected")
    elif kind in ("sample-groups-k1", "sample-groups-k3"):
        k = int(kind[-1])
        ng, per, runs = 200, 8, 6
        recs = []
        for j in range(ng * per):
            recs.append([("id", f"r{j + 1}"), ("a", f"g{j % ng}"), ("k", str(drng.randint(0, 40)))])
        tally = [0] * per
        outs = []
        for j in range(runs):
            g = draw(recs, s0 + j + 1, ["sample", "-k", str(k), "-g", "a"])
            if g is None or len(g) != ng * k:
                if g is not None:
                    fail(f"sample -k {k} -g a on 200 groups of 8: {len(g)} records out", argv=["--seed", str(s0 + j + 1)] + pre + ["sample", "-k", str(k), "-g", "a"])
                return res
            outs.append(tuple(sorted(g)))
            for i in g:
                tally[i // ng] += 1
        ex = ["--seed", "<s>"] + pre + ["sample", "-k", str(k), "-g", "a"]
        e = runs * ng * k / per
        sd = (runs * ng * (k / per) * (1 - k / per)) ** 0.5
        lo, hi = int(e - 5.5 * sd), int(e + 5.5 * sd) + 1
        bump(res, "stat_bounds_checked", per)
        if any(not (lo <= t <= hi) for t in tally):
            # Is the observed distribution the one of known finding C11-F6 (reservoir replacement probability k / NR of
            # the STREAM instead of k / records seen in the group)? Model of that defect: a record at position p <= k
            # of its group survives with prod_{q>k}(1 - 1/NR_q); one at p > k ends in the sample with
            # (k / NR_p) prod_{q>p}(1 - 1/NR_q), NR_q = (q-1)*200 + g + 1 for this interleaved layout.
            ed, vd = [0.0] * per, [0.0] * per
            for g_ in range(ng):
                nr = [q * ng + g_ + 1 for q in range(per)]
                for p_ in range(per):
                    pr = 1.0 if p_ < k else k / nr[p_]
                    for q in range(max(p_ + 1, k), per):
                        pr *= 1 - 1 / nr[q]
                    ed[p_] += runs * pr
                    vd[p_] += runs * pr * (1 - pr)
            cls = "reservoir-indexed-by-stream-NR" if all(abs(tally[p_] - ed[p_]) <= 5.5 * vd[p_] ** 0.5 + 3 for p_ in range(per)) else "other"
            add_violation(res, dict(sigbase, kind="not-random", **{"class": cls}),
                          f"sample -k {k} -g a over 200 interleaved groups of 8 records, {runs} seeds: samples by position within the group "
                          f"{tally}; uniform sampling gives {e:.0f} +- {sd:.0f} at every position (bounds [{lo}, {hi}])",
                          dict(argv=ex, seeds=f"{s0 + 1}..{s0 + runs}", tally=tally, stdin=_short(text_of(recs))))
        bounds("distinct outputs over 6 seeds", len(set(outs)), 6, 6, ex, "different seeds, different draws")
    elif kind == "sample-downstream":
        # the sample is uniform over the records the verb RECEIVES, whatever their NR: after tac / sort / filter the last
        # record of the stream is in a sample of 2 out of 60 in 1 run of 30 on average
        n, runs = 60, 30
        recs = mk_records(drng, n, 0.0)
        for upname, upv, last in (("tac", ["tac"], 0), ("sort -f id", ["sort", "-f", "id"], None), ("second half", ["filter", "NR > 30"], n - 1)):
            hits_last, hits_first, outs = 0, 0, []
            for j in range(runs if upname == "tac" else 12):
                g = draw(recs, s0 + j + 1, upv + ["then", "sample", "-k", "2"])
                if g is None or len(g) != 2:
                    if g is not None:
                        fail(f"{' '.join(upv)} then sample -k 2 on {n} records: {len(g)} records out", argv=["--seed", str(s0 + j + 1)] + pre + upv + ["then", "sample", "-k", "2"])
                    return res
                outs.append(tuple(sorted(g)))
                if last is not None and last in g:
                    hits_last += 1
            ex = ["--seed", "<s>"] + pre + upv + ["then", "sample", "-k", "2"]
            nr = len(outs)
            bump(res, "stat_bounds_checked", 2)
            if last is not None and hits_last > 8:
                cls = "reservoir-indexed-by-stream-NR" if (upname == "tac" and hits_last == nr) else "other"
                add_violation(res, dict(sigbase, kind="not-random", **{"class": cls}),
                              f"{' '.join(upv)} then sample -k 2 on {n} records: the LAST record the sample verb receives is in the sample in "
                              f"{hits_last} of {nr} runs (uniform: {nr * 2 / (n if upname == 'tac' else 30):.1f} expected)",
                              dict(argv=ex, seeds=f"{s0 + 1}..{s0 + nr}", stdin=_short(text_of(recs))))
            if len(set(outs)) < nr // 2:
                cls = "reservoir-indexed-by-stream-NR" if upname == "tac" else "other"
                add_violation(res, dict(sigbase, kind="not-random", **{"class": cls + "/few-distinct"}),
                              f"{' '.join(upv)} then sample -k 2 on {n} records: only {len(set(outs))} distinct samples in {nr} runs with different seeds",
                              dict(argv=ex, seeds=f"{s0 + 1}..{s0 + nr}", stdin=_short(text_of(recs))))
    elif kind == "sample-large":
        n = 1003
        recs = mk_records(drng, n, 0.0)
        outs = []
        for j in range(8):
            g = draw(recs, s0 + j + 1, ["sample", "-k", "100"])
            if g is None or len(g) != 100:
                return res
            outs.append(tuple(sorted(g)))
            ex = ["--seed", str(s0 + j + 1)] + pre + ["sample", "-k", "100"]
            bounds("mean input position of the sample", sum(g) / 100.0, 350, 650, ex, "uniform: 501 +- 28 expected")
            bounds("sampled records among the first 100 of 1003", sum(1 for i in g if i < 100), 0, 30, ex, "uniform: 10 +- 3 expected")
            bounds("sampled records among the last 100 of 1003", sum(1 for i in g if i >= n - 100), 0, 30, ex, "uniform: 10 +- 3 expected")
        bounds("distinct outputs over 8 seeds", len(set(outs)), 8, 8, ["--seed", "<s>"] + pre + ["sample", "-k", "100"], "different seeds, different draws")
        picks = []
        for j in range(30):
            g = draw(recs, s0 + 100 + j, ["sample", "-k", "1"])
            if g is None or len(g) != 1:
                return res
            picks.append(g[0])
        ex = ["--seed", "<s>"] + pre + ["sample", "-k", "1"]
        bounds("distinct records picked by 30 runs of sample -k 1 over 1003 records", len(set(picks)), 20, 30, ex, "uniform: 29.6 expected")
        bounds("runs of sample -k 1 that pick one of the first 10 records", sum(1 for i in picks if i < 10), 0, 6, ex, "uniform: 0.3 expected")
        bounds("runs of sample -k 1 that pick one of the last 10 records", sum(1 for i in picks if i >= n - 10), 0, 6, ex, "uniform: 0.3 expected")
    else:
        raise ValueError(kind)
    res["nontrivial"] = True
    res["sample"] = {"monitor": "stat", "battery": kind, "runs": res["evals"]}
    return res


# ---- filter mini-language -----------------------------------------------------------------
# Expressions are trees; `show` prints Miller syntax, `ev` evaluates on a record to True / False / ABSENT.

ABSENT = "absent"
CMP = {"<": lambda a, b: a < b, "<=": lambda a, b: a <= b, ">": lambda a, b: a > b,
       ">=": lambda a, b: a >= b, "==": lambda a, b: a == b, "!=": lambda a, b: a != b}
REGEXES = ["^p", "e", "an$", "^(pan|eks)$", "[aeiou]{2}", "^.a", "y.", "^[a-m]", "x+", "^r[0-9]*5$", "z|w", "^[^a]*$"]


def gen_atom_present(rng):
    """An atom that is boolean on every record (never absent)."""
    t = rng.randrange(9)
    if t == 0:
        return ("cmp", ("fld", "k", int), rng.choice(list(CMP)), ("lit", rng.randint(-2, 42)))
    if t == 1:
        return ("cmp", ("mod", "k", rng.choice([2, 3, 5, 7])), rng.choice(["==", "!=", "<"]), ("lit", rng.randint(0, 3)))
    if t == 2:
        return ("cmp", ("fld", "s", str), rng.choice(list(CMP)), ("lit", rng.choice(S_POOL)))
    if t == 3:
        return ("re", "s", rng.choice(["=~", "!=~"]), rng.choice(REGEXES), rng.random() < 0.25)
    if t == 4:
        return ("isp", rng.choice(["is_present", "is_absent"]), rng.choice(["a", "b", "i", "nosuch", "id"]))
    if t == 5:
        return ("cmp", ("nr",), rng.choice(["<=", ">", "=="]), ("lit", rng.choice([0, 1, 2, 3, 10, 250, 500, 501])))
    if t == 6:
        return ("cmp", ("nrmod", rng.choice([2, 3, 4])), "==", ("lit", rng.randint(0, 2)))
    if t == 7:
        return ("re", "id", "=~", rng.choice(["^r[0-9]*5$", "^r1", "7", "^r[1-4]?[02468]$"]), False)
    return ("const", rng.random() < 0.5)


def gen_atom_maybe_absent(rng):
    t = rng.randrange(5)
    if t == 0:
        return ("cmp", ("fld", "i", int), rng.choice(list(CMP)), ("lit", rng.randint(-20, 60)))
    if t == 1:
        return ("cmp", ("fld", "a", str), rng.choice(["==", "!=", "<", ">="]), ("lit", rng.choice(A_POOL)))
    if t == 2:
        return ("re", "a", rng.choice(["=~", "!=~"]), rng.choice(REGEXES), rng.random() < 0.25)
    if t == 3:
        return ("cmp", ("fld", "k", int), rng.choice(list(CMP)), ("fld", "i", int))
    return ("cmp", ("fld", "nosuch", int), rng.choice(list(CMP)), ("lit", 1))


def gen_present(rng, depth):
    if depth <= 0 or rng.random() < 0.3:
        return gen_atom_present(rng)
    t = rng.randrange(6)
    if t == 0:
        return ("not", gen_present(rng, depth - 1))
    if t in (1, 2, 3):
        return (["and", "or", "xor"][t - 1], gen_present(rng, depth - 1), gen_present(rng, depth - 1))
    if t == 4:
        return ("tern", gen_present(rng, depth - 1), gen_present(rng, depth - 1), gen_present(rng, depth - 1))
    # the documented idiom: guard a maybe-absent comparison by is_present (short-circuit &&)
    f, ty, lit = rng.choice([("i", int, rng.randint(-20, 60)), ("a", str, rng.choice(A_POOL))])
    return ("guard", f, ("cmp", ("fld", f, ty), rng.choice(list(CMP)), ("lit", lit)))


def show(e):
    t = e[0]
    if t == "cmp":
        return f"{show(e[1])} {e[2]} {show(e[3])}"
    if t == "fld":
        return "$" + e[1]
    if t == "mod":
        return f"(${e[1]} % {e[2]})"
    if t == "nr":
        return "NR"
    if t == "nrmod":
        return f"(NR % {e[1]})"
    if t == "lit":
        return '"%s"' % e[1] if isinstance(e[1], str) else str(e[1])
    if t == "re":
        return f'${e[1]} {e[2]} "{e[3]}"' + ("i" if e[4] else "")
    if t == "isp":
        return f"{e[1]}(${e[2]})"
    if t == "const":
        return "true" if e[1] else "false"
    if t == "not":
        return f"!({show(e[1])})"
    if t in ("and", "or", "xor"):
        op = {"and": "&&", "or": "||", "xor": "^^"}[t]
        return f"({show(e[1])}) {op} ({show(e[2])})"
    if t == "tern":
        return f"(({show(e[1])}) ? ({show(e[2])}) : ({show(e[3])}))"
    if t == "guard":
        return f"(is_present(${e[1]}) && {show(e[2])})"
    raise ValueError(t)


def val(e, d, nr):
    t = e[0]
    if t == "fld":
        if e[1] not in d:
            return ABSENT
        return e[2](d[e[1]])
    if t == "mod":
        return int(d[e[1]]) % e[2]
    if t == "nr":
        return nr
    if t == "nrmod":
        return nr % e[1]
    if t == "lit":
        return e[1]
    raise ValueError(t)


def ev(e, d, nr):
    t = e[0]
    if t == "cmp":
        a, b = val(e[1], d, nr), val(e[3], d, nr)
        if a is ABSENT or b is ABSENT:
            return ABSENT
        if isinstance(a, str):
            a, b = a.encode(), b.encode()
        return CMP[e[2]](a, b)
    if t == "re":
        if e[1] not in d:
            return ABSENT
        hit = re.search(e[3], d[e[1]], re.I if e[4] else 0) is not None
        return hit if e[2] == "=~" else not hit
    if t == "isp":
        p = e[2] in d
        return p if e[1] == "is_present" else not p
    if t == "const":
        return e[1]
    if t == "not":
        return not ev(e[1], d, nr)
    if t == "and":
        return ev(e[1], d, nr) and ev(e[2], d, nr)
    if t == "or":
        return ev(e[1], d, nr) or ev(e[2], d, nr)
    if t == "xor":
        return ev(e[1], d, nr) != ev(e[2], d, nr)
    if t == "tern":
        return ev(e[2], d, nr) if ev(e[1], d, nr) else ev(e[3], d, nr)
    if t == "guard":
        if e[1] not in d:
            return False
        return ev(e[2], d, nr)
    raise ValueError(t)


# statements around the bare boolean (reference-dsl.md "Location of boolean expression for filter": "record fields may
# be assigned in the statements before or after the bare-boolean statement"): (name, text with {E} = the boolean
# expression, function applied to a passing record). The selection is that of the bare boolean alone; the records
# that pass carry the assignment. The mini-language never reads z, so an assignment to z placed BEFORE the boolean
# cannot change its value.
def _app_z1(rec):
    return [(k, v) for k, v in rec if k != "z"] + [("z", "1")]


def _app_zt(rec):
    return [(k, v) for k, v in rec if k != "z"] + [("z", "t")]


def _unset_p(rec):
    return [(k, v) for k, v in rec if k != "p"]


def _same(rec):
    return rec


STMT_FORMS = {
    "assign-before": ("$z = 1; {E}", _app_z1),
    "assign-after": ("{E}; $z = \"t\"", _app_zt),
    "assign-in-if-after": ("{E}; if (true) { $z = 1 }", _app_z1),
    "unset-after": ("{E}; unset $p", _unset_p),          # p: an extra field some ragged records carry, never read
    "oosvar-after": ("{E}; @count[$s] = NR", _same),     # out-of-stream state does not touch the record
    "end-block": ("{E}; end { @x = 1 }", _same),
}


def filter_case(case):
    rng = random.Random(case["seed"])
    n = case["n"]
    b = case["b"]
    recs = mk_records(rng, n, 0.25)
    kind = rng.choice(["present", "present", "absent", "multi", "local", "absent", "stmt", "stmt", "quiet"])
    modify = _same
    opts = []
    if kind == "absent":
        e = gen_atom_maybe_absent(rng)
        text = show(e)
    elif kind == "multi":
        # the last bare boolean decides (mlr filter --help)
        e0 = gen_present(rng, 1)
        e = gen_present(rng, 2)
        text = show(e0) + "; " + show(e)
    elif kind == "local":
        e = gen_present(rng, 2)
        text = "var t = $k . \"x\"; " + show(e)
    elif kind == "stmt":
        e = gen_present(rng, 2) if rng.random() < 0.7 else gen_atom_maybe_absent(rng)
        form = rng.choice(sorted(STMT_FORMS))
        tmpl, modify = STMT_FORMS[form]
        text = tmpl.replace("{E}", show(e))
    elif kind == "quiet":
        # -q: "Does not include the modified record in the output stream" - nothing may come out, with or without -x
        e = gen_present(rng, 2)
        text = show(e)
        opts = ["-q"]
    else:
        e = gen_present(rng, 3)
        text = show(e)
    stdin = text_of(recs)
    inp_lines = [line_of(x) for x in recs]
    exp_lines = [line_of(modify(x)) for x in recs]       # what record i looks like IF it passes
    pre = ["--records-per-batch", str(b)] if b else []
    res = case_result(_h("filter", text, opts, n, b, case["seed"]))
    bump(res, "verb:filter")
    bump(res, "filter_kind:" + kind)
    vals = [ev(e, dict(x), i + 1) for i, x in enumerate(recs)]
    n_abs = sum(1 for v in vals if v is ABSENT)
    outs = {}
    abs_side = {}
    for inv in (False, True):
        argv = pre + ["filter"] + opts + (["-x"] if inv else []) + [text]
        sigbase = {"verb": "filter", "form": ("-x" if inv else "plain") + ("" if kind not in ("stmt", "quiet") else "+" + kind)}
        r = _run(argv, stdin, res, {"sigbase": sigbase, "n": n})
        if r is None:
            return res
        if kind == "quiet":
            if r.stdout != b"":
                add_violation(res, dict(sigbase, kind="selection", on="quiet"),
                              f"mlr {' '.join(argv)}: filter -q printed {len(split_out(r.stdout))} records",
                              dict(argv=argv, stdin=_short(stdin), got=split_out(r.stdout)[:20]))
                return res
            outs[inv] = []
            continue
        got = _judge_indices(res, sigbase, argv, stdin, exp_lines, split_out(r.stdout), None)
        if got is None:
            return res
        if got != sorted(got):
            add_violation(res, dict(sigbase, kind="order"), f"mlr {' '.join(argv)}: output not in input order",
                          dict(argv=argv, stdin=_short(stdin)))
            return res
        outs[inv] = got
        # boolean records: exact. reference-dsl.md "Differences between put and filter":
        # false -> does not pass; true or absent -> passes. -x prints records for which the expression is false.
        exp_bool = [i for i, v in enumerate(vals) if v is not ABSENT and (v != inv)]
        got_bool = [i for i in got if vals[i] is not ABSENT]
        if got_bool != exp_bool:
            diff = sorted(set(got_bool) ^ set(exp_bool))
            add_violation(res, dict(sigbase, kind="selection", on="boolean"),
                          f"mlr {' '.join(argv)}: records where the expression is boolean are selected differently from the "
                          f"Python evaluation (first differing record: {inp_lines[diff[0]] if diff else '?'})",
                          dict(argv=argv, stdin=_short(stdin), expected=[exp_lines[i] for i in exp_bool[:40]],
                               got=[exp_lines[i] for i in got_bool[:40]]))
            return res
        # records on which the expression is absent: each must go to exactly one of `filter X` / `filter -x X`
        # (partition law below), and ALL of them to the same one (whichever reading of "absent" is taken, it is one
        # rule, not a per-record choice); which side it is, is recorded for the run-level consistency check
        got_abs = [i for i in got if vals[i] is ABSENT]
        abs_side[inv] = len(got_abs)
        bump(res, "absent_records_printed_by_filter_-x" if inv else "absent_records_passed_by_filter", len(got_abs))
    if kind == "quiet":
        bump(res, "filter_-q_checked")
        res["nontrivial"] = n > 1
        res["evals"] = 2
        return res
    # partition law (model-free)
    a, bb = outs[False], outs[True]
    if set(a) & set(bb) or sorted(a + bb) != list(range(n)):
        add_violation(res, {"verb": "filter", "form": "partition", "kind": "partition"},
                      f"filter {text!r} and filter -x do not partition the {n} input records "
                      f"({len(a)} + {len(bb)}, {len(set(a) & set(bb))} in both)",
                      dict(argv=pre + ["filter", text], stdin=_short(stdin)))
    else:
        bump(res, "partitions_checked")
        if n_abs:
            bump(res, "partitions_checked_with_absent_records")
    if n_abs and abs_side.get(False) and abs_side.get(True):
        add_violation(res, {"verb": "filter", "form": "absent", "kind": "absent-side-inconsistent"},
                      f"filter {text!r}: of the {n_abs} records on which the expression is absent, {abs_side[False]} pass `filter` and "
                      f"{abs_side[True]} pass `filter -x`: absent is not treated by one rule",
                      dict(argv=pre + ["filter", text], stdin=_short(stdin)))
    if n_abs:
        bump(res, "filter_cases_with_absent")
    res["nontrivial"] = n > 1 and 0 < len(a) < n
    res["evals"] = 2
    res["sample"] = {"monitor": "filter", "expr": text, "n_records": n, "pass": len(a), "pass_x": len(bb), "absent_on": n_abs}
    return res


# ---- cross-verb laws (model-free) ---------------------------------------------------------

def law_case(case):
    rng = random.Random(case["seed"])
    n, b, law = case["n"], case["b"], case["law"]
    ragged = case.get("ragged", 0.0)
    recs = mk_records(rng, n, ragged)
    stdin = text_of(recs)
    inp = [line_of(x) for x in recs]
    pre = ["--records-per-batch", str(b)] if b else []
    res = case_result(_h("law", law, case.get("k"), case.get("g"), n, b, case["seed"]))
    bump(res, "law:" + law)
    sigbase = {"verb": "law", "form": law}

    def go(argv):
        r = _run(pre + argv, stdin, res, {"sigbase": sigbase, "n": n})
        return None if r is None else split_out(r.stdout)

    def fail(what, **detail):
        add_violation(res, dict(sigbase, kind="law"), what, dict(stdin=_short(stdin), **detail))

    k = case.get("k", 0)
    g = case.get("g") or ["a"]
    gs = ",".join(g)
    nt = False
    if law == "head+tail":
        h = go(["head", "-n", str(k)])
        t = go(["tail", "-n", f"+{k + 1}"])
        if h is None or t is None:
            return res
        if len(h) + len(t) != n or h + t != inp:
            fail(f"head -n {k} ++ tail -n +{k + 1} is not the input: {len(h)} + {len(t)} records vs N={n}",
                 argv=pre + ["head", "-n", str(k)], argv2=pre + ["tail", "-n", f"+{k + 1}"])
        nt = 0 < len(h) < n
    elif law == "headneg+tail":
        h = go(["head", "-n", str(-k)])
        t = go(["tail", "-n", str(k)])
        if h is None or t is None:
            return res
        if k > 0 and h + t != inp:
            fail(f"head -n -{k} ++ tail -n {k} is not the input: {len(h)} + {len(t)} records vs N={n}",
                 argv=pre + ["head", "-n", str(-k)], argv2=pre + ["tail", "-n", str(k)])
        nt = 0 < len(h) < n
    elif law == "tac-tac":
        t = go(["tac", "then", "tac"])
        t1 = go(["tac"])
        if t is None or t1 is None:
            return res
        if t != inp:
            fail("tac then tac is not the identity", argv=pre + ["tac", "then", "tac"])
        if t1 != inp[::-1]:
            fail("tac is not the reversal", argv=pre + ["tac"])
        nt = n > 1
    elif law == "group-sizes":
        gb = go(["group-by", gs])
        hv = go(["having-fields", "--at-least", gs])
        ct = go(["count-distinct", "-f", gs])
        if gb is None or hv is None or ct is None:
            return res
        if sorted(gb) != sorted(hv):
            fail(f"group-by {gs} is not a permutation of the records having {gs}: {len(gb)} vs {len(hv)}",
                 argv=pre + ["group-by", gs], argv2=pre + ["having-fields", "--at-least", gs])
        try:
            tot = sum(int(dict(p.split("=", 1) for p in l.split(","))["count"]) for l in ct)
        except (KeyError, ValueError):
            tot = None
        if tot != len(hv):
            fail(f"count-distinct -f {gs} counts sum to {tot}, records having the fields: {len(hv)}",
                 argv=pre + ["count-distinct", "-f", gs])
        nt = 0 < len(gb) and gb != hv
    elif law == "head-g=cat-n-g":
        h = go(["head", "-n", str(k), "-g", gs])
        c = go(["having-fields", "--at-least", gs, "then", "cat", "-n", "-g", gs, "then",
                "filter", f"$n <= {k}", "then", "cut", "-x", "-f", "n"])
        if h is None or c is None:
            return res
        if h != c:
            fail(f"head -n {k} -g {gs} differs from cat -n -g {gs} then filter $n <= {k} ({len(h)} vs {len(c)} records)",
                 argv=pre + ["head", "-n", str(k), "-g", gs])
        nt = 0 < len(h) < n
    elif law == "grep+grep-v":
        pat = case["pat"]
        a = go(["grep", pat])
        v = go(["grep", "-v", pat])
        if a is None or v is None:
            return res
        sa, sv = set(a), set(v)
        if sa & sv or sorted(a + v) != sorted(inp) or [l for l in inp if l in sa] != a or [l for l in inp if l in sv] != v:
            fail(f"grep {pat!r} and grep -v do not partition the input in order ({len(a)} + {len(v)} vs {n})",
                 argv=pre + ["grep", pat])
        nt = 0 < len(a) < n
    elif law == "decimate-1":
        d = go(["decimate", "-n", "1"])
        d2 = go(["decimate", "-n", "1", "-b"])
        if d is None or d2 is None:
            return res
        if d != inp or d2 != inp:
            fail("decimate -n 1 is not the identity", argv=pre + ["decimate", "-n", "1"])
        nt = n > 1
    elif law == "decimate-be":
        m = max(1, k)
        e = go(["decimate", "-n", str(m), "-e"])
        bq = go(["decimate", "-n", str(m), "-b"])
        if e is None or bq is None:
            return res
        # last of every m = every m-th; first of every m = one record per started block of m
        if len(e) != n // m or len(bq) != (n + m - 1) // m:
            fail(f"decimate -n {m}: {len(e)} records with -e (N//m = {n // m}), {len(bq)} with -b (ceil(N/m) = {(n + m - 1) // m})",
                 argv=pre + ["decimate", "-n", str(m), "-e"])
        nt = 0 < len(e) < n
    elif law == "shuffle-sorted":
        s = go(["--seed", str(case.get("mseed", 1)), "shuffle"])
        if s is None:
            return res
        if sorted(s) != sorted(inp):
            fail("shuffle is not a permutation of the input", argv=pre + ["--seed", str(case.get("mseed", 1)), "shuffle"])
        nt = n > 1 and s != inp
    elif law == "sample-all":
        s = go(["--seed", str(case.get("mseed", 1)), "sample", "-k", str(n + k)])
        if s is None:
            return res
        if sorted(s) != sorted(inp):
            fail(f"sample -k {n + k} (k >= N) does not return every record exactly once", argv=pre + ["sample", "-k", str(n + k)])
        nt = n > 1
    elif law == "head-then-tail":
        j = case.get("j", 1)
        ht = go(["head", "-n", str(k), "then", "tail", "-n", str(j)])
        if ht is None:
            return res
        exp = inp[:k][max(0, min(k, n) - j):] if j > 0 else []
        if ht != exp:
            fail(f"head -n {k} then tail -n {j} on {n} records gives {len(ht)} records, slicing gives {len(exp)}",
                 argv=pre + ["head", "-n", str(k), "then", "tail", "-n", str(j)], expected=exp[:20], got=ht[:20])
        nt = 0 < len(ht) < n
    else:
        raise ValueError(law)
    res["nontrivial"] = bool(nt) and n > 1
    res["evals"] = 2
    if not res["viol"]:
        bump(res, "laws_held")
    res["sample"] = {"monitor": "laws", "law": law, "n_records": n, "k": k}
    return res


# ---- selection downstream of another verb ("upstream" dimension) ---------------------------
# A selecting verb that is not the first verb of the chain receives a stream that differs from the file: records
# reordered (tac, sort, group-by), dropped (filter, grep -v, head, tail, decimate), duplicated (repeat), synthesised at end of
# stream (put -q emit in an end block, count-similar) or mid-stream (nest explode, seqgen) - whose NR / FNR / file name
# context is unrelated to their position in the stream the selector sees. The selector's documented meaning is about ITS
# input ("passes through the first n records"), so: run the upstream verb alone, parse its output U, apply the same
# Python models to U, and compare with `upstream then selector`. (That `A then B` feeds B exactly A's output is C04's
# law and taken for granted here.) The same code judges an input spread over several files (NR runs on, FNR restarts).

CHAIN_PREDS = [
    ("$k % 2 == 0", lambda d: int(d["k"]) % 2 == 0),
    ("$k > 20", lambda d: int(d["k"]) > 20),
    ('is_present($a) && $a == "pan"', lambda d: d.get("a") == "pan"),
    ("$k % 3 != 1 || is_absent($a)", lambda d: int(d["k"]) % 3 != 1 or "a" not in d),
    ("$k % 3 == 0", lambda d: int(d["k"]) % 3 == 0),
]
UPSTREAM_NAMES = ["tac", "sort-nr", "sort-f", "filter", "grep-v", "head", "tail", "tail-plus", "repeat", "emit-at-end",
                  "nest-explode", "count-similar", "group-by", "decimate", "sec-half", "files3", "files2-tac", "seqgen"]


def upstream_argv(name, n):
    j = max(1, (2 * n) // 3)
    return {
        "tac": ["tac"],
        "sort-nr": ["sort", "-nr", "k"],
        "sort-f": ["sort", "-f", "s", "-nr", "k"],
        "filter": ["filter", "$k % 3 != 0"],
        "grep-v": ["grep", "-v", "an"],
        "head": ["head", "-n", str(j)],
        "tail": ["tail", "-n", str(j)],
        "tail-plus": ["tail", "-n", "+4"],
        "repeat": ["repeat", "-n", "2"],
        "emit-at-end": ["put", "-q", "@r[NR] = $*; end { for (k, v in @r) { emit v } }"],
        "nest-explode": ["nest", "--explode", "--values", "--across-records", "-f", "x", "--nested-fs", ";"],
        "count-similar": ["count-similar", "-g", "a"],
        "group-by": ["group-by", "a"],
        "decimate": ["decimate", "-n", "2", "-b"],
        "sec-half": ["filter", f"NR > {n // 2}"],
        "files3": [],
        "files2-tac": ["tac"],
        "seqgen": ["seqgen", "-f", "id", "--start", "1", "--stop", str(n), "then", "put", "$a = $id % 3; $k = $id * 7 % 41"],
    }[name]


def _parse_line(l):
    if l == "":
        return []
    out = []
    for kv in l.split(","):
        k, _, v = kv.partition("=")
        out.append((k, v))
    return out


def _chain_selectors(rng, m, rounds):
    """The selector command lines tried over one upstream stream of m records: (verb, form, argv, model spec)."""
    sels = []
    kk = sorted({1, 2, 3, max(1, m // 2), max(1, m - 1), max(1, m // 3), m, m + 1})
    small = [1, 2, 3, max(1, m // 5)]
    gs = [["a"], ["a", "b"], ["b"]]
    for _ in range(rounds):
        k0 = rng.choice(kk)
        # the statement's law on this stream: head -n k ++ tail -n +(k+1) = the stream
        sels.append(("head", "nonneg", ["head", "-n", str(k0)], ("head", str(k0), [])))
        sels.append(("tail", "plus", ["tail", "-n", f"+{k0 + 1}"], ("tail", f"+{k0 + 1}", [])))
        g = rng.choice(gs)
        kf = rng.choice([str(rng.choice(small)), str(-rng.choice(small)), f"+{rng.choice(small) + 1}"])
        sels.append(("tail", ("plus" if kf[0] == "+" else "neg" if kf[0] == "-" else "nonneg") + "-g",
                     ["tail", "-n", kf, "-g", ",".join(g)], ("tail", kf, g)))
        kf = str(rng.choice(kk)) if rng.random() < 0.6 else str(-rng.choice(kk))
        sels.append(("tail", "neg" if kf[0] == "-" else "nonneg", ["tail", "-n", kf], ("tail", kf, [])))
        g = rng.choice([[], rng.choice(gs)])
        kf = str(-rng.choice(small if g else kk))
        sels.append(("head", "neg" + ("-g" if g else ""), ["head", "-n", kf] + (["-g", ",".join(g)] if g else []), ("head", kf, g)))
        g = rng.choice(gs)
        kf = str(rng.choice(small))
        sels.append(("head", "nonneg-g", ["head", "-n", kf, "-g", ",".join(g)], ("head", kf, g)))
        g = rng.choice([[], rng.choice(gs)])
        mm, which = rng.choice([1, 2, 3, 7]), rng.choice(["", "-b", "-e"])
        sels.append(("decimate", (which or "default") + ("-g" if g else ""),
                     ["decimate", "-n", str(mm)] + ([which] if which else []) + (["-g", ",".join(g)] if g else []), ("decimate", mm, which, g)))
        t = rng.randrange(6)
        if t == 0:
            sels.append(("tac", "", ["tac"], ("tac",)))
        elif t == 1:
            g = rng.choice(gs)
            sels.append(("group-by", f"{len(g)}-fields", ["group-by", ",".join(g)], ("group-by", g)))
        elif t == 2:
            fl, pat = rng.choice(GREPS)
            sels.append(("grep", " ".join(fl), ["grep"] + fl + [pat], ("grep", fl, pat)))
        elif t == 3:
            opt, arg = rng.choice(HAVING[:3] + HAVING[12:19])
            sels.append(("having-fields", opt, ["having-fields", opt, arg], ("having", opt, arg)))
        elif t == 4:
            sels.append(("group-like", "", ["group-like"], ("group-like",)))
        else:
            sels.append(("nothing", "", ["nothing"], ("nothing",)))
        t = rng.randrange(3)
        ms = rng.randint(1, 10 ** 6)
        if t == 0:
            g = rng.choice([[], ["a"]])
            kq = rng.choice([1, 2, max(1, m // 2), m + 1])
            sels.append(("sample", "-g" if g else "plain", ["sample", "-k", str(kq)] + (["-g", "a"] if g else []), ("sample", kq, g, ms)))
        elif t == 1:
            sels.append(("shuffle", "", ["shuffle"], ("shuffle", ms)))
        else:
            if rng.random() < 0.5:
                sels.append(("bootstrap", "default-n", ["bootstrap"], ("bootstrap", ms)))
            else:
                # more draws than records: some record is certainly drawn twice; fewer: a strict sub-multiset
                kb = rng.choice([1, max(1, m // 2), m + 3, 2 * m + 1])
                sels.append(("bootstrap", "-n", ["bootstrap", "-n", str(kb)], ("bootstrap", kb, ms)))
        pi = rng.randrange(len(CHAIN_PREDS))
        sels.append(("filter", "plain", ["filter", CHAIN_PREDS[pi][0]], ("filter", pi, False)))
        sels.append(("filter", "-x", ["filter", "-x", CHAIN_PREDS[pi][0]], ("filter", pi, True)))
    return sels


def _chain_model(spec, urecs):
    t = spec[0]
    if t == "head":
        return m_head(urecs, spec[1], spec[2])
    if t == "tail":
        return m_tail(urecs, spec[1], spec[2])
    if t == "decimate":
        return m_decimate(urecs, spec[1], spec[2], spec[3])
    if t == "tac":
        return [list(range(len(urecs) - 1, -1, -1))]
    if t == "group-by":
        return m_group_by(urecs, spec[1])
    if t == "group-like":
        return m_group_like(urecs)
    if t == "grep":
        return m_grep(urecs, spec[1], spec[2])
    if t == "having":
        return m_having(urecs, spec[1], spec[2])
    if t == "nothing":
        return [[]]
    if t == "filter":
        f = CHAIN_PREDS[spec[1]][1]
        return [[i for i, x in enumerate(urecs) if f(dict(x)) != spec[2]]]
    return None


def _mut_catn(j, rec):
    return [("zzidx", str(j + 1))] + rec


def _mut_dotx(j, rec):
    if any(k == "k" for k, _ in rec):
        return [(k, v + "x" if k == "k" else v) for k, v in rec]
    return rec + [("k", "x")]


def _mut_newfield(j, rec):
    return rec + [("zzn", str(len(rec)))]


# verbs that change the records they receive IN PLACE and not idempotently (a counter, an append, a width)
_DOWNSTREAM = [
    ("cat-n", ["cat", "-n", "-N", "zzidx"], _mut_catn),
    ("put-append", ["put", '$k = $k . "x"'], _mut_dotx),
    ("put-width", ["put", "$zzn = NF"], _mut_newfield),
]


def chain_case(case):
    from collections import Counter
    rng = random.Random(case["seed"])
    up, n, b = case["up"], case["n"], case["b"]
    res = case_result(_h("chain", up, n, b, case["seed"]))
    res["evals"] = 0
    bump(res, "upstream:" + up)
    recs = mk_records(rng, n, case.get("ragged", 0.2), wide=bool(case.get("wide")))
    for x in recs:
        x.append(("x", rng.choice(["u", "u;v", "u;v;w", "t"])))
    upv = upstream_argv(up, n)
    pre = ["--records-per-batch", str(b)] if b else []
    files, fargs, stdin = None, [], text_of(recs)
    if up.startswith("files"):
        nf = int(up[5])
        cuts = sorted(rng.randint(0, n) for _ in range(nf - 1))
        cuts = [0] + cuts + [n]
        files = {f"in{j + 1}.dkvp": text_of(recs[cuts[j]:cuts[j + 1]]).encode() for j in range(nf)}
        fargs = sorted(files)
        stdin = ""
    elif up == "seqgen":
        pre = ["-n"] + pre
        stdin = ""
    ctx = {"sigbase": {"verb": "upstream", "form": up}, "n": n, "files": files}
    r = _run(pre + (upv or ["cat"]) + fargs, stdin, res, ctx, files=files)
    if r is None:
        return res
    ulines = split_out(r.stdout)
    urecs = [_parse_line(l) for l in ulines]
    m = len(ulines)
    cu = Counter(ulines)
    ntk = []
    for verb, form, sargv, spec in _chain_selectors(rng, m, case.get("rounds", 1)):
        sig = {"verb": verb, "form": form, "upstream": up}
        mpre = list(pre)
        if spec[0] in ("sample", "shuffle", "bootstrap"):
            mpre = ["--seed", str(spec[-1])] + mpre
        full = mpre + (upv + ["then"] if upv else []) + sargv + fargs
        rr = _run(full, stdin, res, {"sigbase": sig, "n": n, "files": files}, files=files)
        res["evals"] += 1
        if rr is None:
            continue
        got = split_out(rr.stdout)
        det = dict(argv=full, argv_upstream_alone=pre + (upv or ["cat"]) + fargs, stdin=_short(stdin),
                   files=None if files is None else {k: _short(v.decode()) for k, v in files.items()},
                   upstream_output_records=m)
        cg = Counter(got)
        bad = [l for l in cg if l not in cu]
        if bad:
            add_violation(res, dict(sig, kind="altered-or-invented"),
                          f"mlr {' '.join(full)}: output record {bad[0][:120]!r} is not byte-equal to any record the upstream verb emits",
                          dict(det, got_line=bad[0]))
            continue
        if spec[0] != "bootstrap":
            dup = [l for l, c in cg.items() if c > cu[l]]
            if dup:
                add_violation(res, dict(sig, kind="duplicated"),
                              f"mlr {' '.join(full)}: record {dup[0][:100]!r} comes out {cg[dup[0]]}x, the selector received it {cu[dup[0]]}x",
                              dict(det, got_line=dup[0]))
                continue
        bump(res, "chain_verb:" + verb)
        ok = True
        if spec[0] == "sample":
            kq, g = spec[1], spec[2]
            sizes, outsz = Counter(), Counter()
            for x in urecs:
                key = gkey(x, g)
                if key is not None:
                    sizes[key] += 1
            for l in got:
                outsz[gkey(_parse_line(l), g)] += 1
            exp = {key: min(kq, c) for key, c in sizes.items()}
            if dict(outsz) != exp:
                ok = False
                add_violation(res, dict(sig, kind="count"),
                              f"mlr {' '.join(full)}: per-group sample sizes {dict(list(outsz.items())[:6])} are not min(k, size of the group in "
                              f"the selector's input) {dict(list(exp.items())[:6])}", dict(det, got=got[:40]))
        elif spec[0] == "shuffle":
            if cg != cu:
                ok = False
                add_violation(res, dict(sig, kind="count"),
                              f"mlr {' '.join(full)}: {len(got)} records out, not a permutation of the {m} records the selector received",
                              dict(det, got=got[:40]))
        elif spec[0] == "bootstrap":
            expn = spec[1] if len(spec) == 3 else m
            if len(got) != (expn if m else 0):
                ok = False
                add_violation(res, dict(sig, kind="count"),
                              f"mlr {' '.join(full)}: {len(got)} records out, the selector received {m}"
                              + (f" and was asked for {expn}" if len(spec) == 3 else ""), dict(det, got=got[:40]))
        else:
            cands = _chain_model(spec, urecs)
            exps = [[ulines[i] for i in c] for c in cands]
            if got not in exps:
                ok = False
                exp = exps[0]
                p_ = 0
                while p_ < len(got) and p_ < len(exp) and got[p_] == exp[p_]:
                    p_ += 1
                add_violation(res, dict(sig, kind="selection"),
                              f"mlr {' '.join(full)}: {len(got)} records out, the model applied to the {m} records emitted by the upstream verb "
                              f"says {len(exp)}; first difference at output position {p_ + 1}: got {got[p_][:60] if p_ < len(got) else '<eof>'!r}, "
                              f"expected {exp[p_][:60] if p_ < len(exp) else '<eof>'!r}",
                              dict(det, expected=exp[:40], got=got[:40], n_expected=len(exp), n_got=len(got)))
        if ok:
            bump(res, "chain_checked")
            if m > 1 and (0 < len(got) < m or (len(got) == m and got != ulines)):
                ntk.append(_h("chain", up, sargv, n, b, case["seed"]))
        # downstream monitor: "only select" also means the records handed on are independent of one another and of
        # whatever the selector keeps. A verb that changes records in place, put BEHIND the selector, must give exactly
        # that change applied to the selector's own output (same --seed, so the same selection) - a selector that hands
        # on one record object twice (or keeps a reference it re-emits) shows as a record changed twice / numbered wrongly.
        if ok and got:
            muts = list(_DOWNSTREAM) if spec[0] in ("sample", "shuffle", "bootstrap") else [_DOWNSTREAM[rng.randrange(len(_DOWNSTREAM))]]
            for mname, margv, mfun in muts:
                full2 = mpre + (upv + ["then"] if upv else []) + sargv + ["then"] + margv + fargs
                sig2 = dict(sig, downstream=mname)
                r2 = _run(full2, stdin, res, {"sigbase": sig2, "n": n, "files": files}, files=files)
                res["evals"] += 1
                if r2 is None:
                    continue
                got2 = split_out(r2.stdout)
                exp2 = [line_of(mfun(j, _parse_line(l))) for j, l in enumerate(got)]
                if got2 != exp2:
                    p_ = 0
                    while p_ < len(got2) and p_ < len(exp2) and got2[p_] == exp2[p_]:
                        p_ += 1
                    add_violation(res, dict(sig2, kind="downstream-not-independent"),
                                  f"mlr {' '.join(full2)}: differs from `{' '.join(margv)}` applied to the output of the same command without it; "
                                  f"first difference at record {p_ + 1}: got {got2[p_][:80] if p_ < len(got2) else '<eof>'!r}, "
                                  f"expected {exp2[p_][:80] if p_ < len(exp2) else '<eof>'!r} (records handed on by the selector share state)",
                                  dict(det, argv=full2, argv_without_downstream=full, expected=exp2[:40], got=got2[:40]))
                else:
                    bump(res, "chain_downstream_checked")
                    bump(res, "chain_downstream:" + mname)
    res["nontrivial_keys"] = ntk
    res["nontrivial"] = bool(ntk)
    res["sample"] = {"monitor": "chain", "upstream": upv, "n_records": n, "upstream_out": m}
    return res


# ---- doc replay (DESIGN 2.9): the reference-verbs.md sections of the C11 verbs ------------------

def doc_case(case):
    res = case_result(_h("doc", case["page"], case["cmd"]))
    p = DR.plan(case["cmd"])
    if p is None:
        res["skipped"] += 1
        return res
    argv, files = p
    r = R.mlr(argv, files=files)
    bump(res, "doc_blocks_replayed")
    if r.verdict != "exited":
        res["inconc"] += 1
        return res
    if r.out != case["expected"]:
        exp, got = case["expected"].split("\n"), r.out.split("\n")
        p_ = 0
        while p_ < len(exp) and p_ < len(got) and exp[p_] == got[p_]:
            p_ += 1
        add_violation(res, {"verb": "doc-replay", "form": case["page"], "kind": "doc-mismatch", "cmd": case["cmd"][:80]},
                      f"{case['page']}: `{case['cmd'][:100]}` prints {got[p_][:80] if p_ < len(got) else '<eof>'!r} at line {p_+1}, "
                      f"the documentation records {exp[p_][:80] if p_ < len(exp) else '<eof>'!r}",
                      dict(argv=argv, files={k: v for k, v in files.items() if len(v) < 4000}, expected=case["expected"][:3000], got=r.out[:3000]))
    res["nontrivial"] = "--help" not in case["cmd"] and " -h" not in case["cmd"]
    return res


# ==========================================================================================
# case lists

def k_forms(n):
    # the grid of the design (relative to N) plus counts relative to typical GROUP sizes (N/5 per value of a),
    # without which a per-group off-by-one at 1 < k < group size is never reached
    ks = [0, 1, n - 1, n, n + 1, 10 ** 9, -1, -n, -(n + 1), 2, 3, n // 5, n // 5 + 1, -2, -(n // 5)]
    out = []
    for k in ks:
        s = str(k)
        if s not in out:
            out.append(s)
    for k in (1, n, n + 1, 2, 3, n // 5):
        s = f"+{k}"
        if s not in out:
            out.append(s)
    return out


G_SPECS = [([], 0.0), (["a"], 0.0), (["a", "b"], 0.0), (["a"], 0.2), (["b", "a"], 0.2)]
HAVING = [("--at-least", "a"), ("--at-least", "a,i"), ("--at-least", "nosuch"), ("--which-are", "id,a,b,k,i,s"),
          ("--which-are", "s,i,k,b,a,id"), ("--which-are", "id,k,s"), ("--at-most", "id,a,b,k,i,s"),
          ("--at-most", "id,k,s,a"), ("--at-most", "id"), ("--all-matching", "^[a-z]$"), ("--all-matching", "^[abikds]+$"),
          ("--all-matching", '"^[ABIKDS]+$"i'), ("--any-matching", "^[pq]$"), ("--any-matching", "^a"),
          ("--any-matching", '"^A"i'), ("--any-matching", '"^A"'), ("--none-matching", "^[pq]$"), ("--none-matching", "b"),
          ("--none-matching", "^i$"), ("--none-matching", '"^AB$"i')]
GREPS = [([], "pan"), (["-i"], "PAN"), (["-v"], "eks"), (["-a"], "pan"), (["-a"], "^r[0-9]*,"), ([], "^id=r[0-9]*5,"),
         (["-a", "-v"], ",$"), ([], "a=wye,b="), ([], "b=,"), (["-i", "-v"], "a=(PAN|Zee)"), ([], "k=1[0-9],"),
         (["-a"], "="), ([], "i=-"), (["-a", "-i"], ",banana$"), ([], "s=[A-Z]"), (["-i"], "s=[A-Z]"), ([], "nosuchtext"),
         ([], "."), (["-v"], "."), ([], ",p=|,q=")]


def sel_cases(chk):
    rng = chk.rng("sel")
    q = chk.quick()
    cases = []
    seedno = [0]

    def add(c):
        seedno[0] += 1
        c["seed"] = f"{chk.seed}/{chk.tier}/sel/{seedno[0]}"
        cases.append(c)

    grid = []
    for n in NS:
        for (g, rag) in G_SPECS[:4]:
            for b in (1, 500):
                for k in k_forms(n):
                    grid.append(("head", n, g, rag, b, k))
                    grid.append(("tail", n, g, rag, b, k))
                for m in sorted({1, 2, 3, 7, max(1, n - 1), max(1, n), n + 1, 10 ** 9}):
                    for which in ("", "-b", "-e"):
                        grid.append(("decimate", n, g, rag, b, (m, which)))
    if q:
        # Latin-square style sample: shuffle the grid, then walk it so that every (verb, N) and every
        # (verb, k-form class) cell is hit before any cell is hit twice
        rng.shuffle(grid)
        seen_cells = {}
        picked = []
        for want in range(3):
            for item in grid:
                if len(picked) >= 500:
                    break
                if item[0] == "decimate":
                    kf = item[5][1] + ("1" if item[5][0] == 1 else "n")
                else:
                    kv = int(item[5])
                    kf = str(item[5])[:1] if not item[5][:1].isdigit() else ("0" if kv == 0 else "1" if kv == 1 else "s" if kv <= max(3, item[1] // 5 + 1) else "L")
                cell = (item[0], item[1], kf, bool(item[2]))
                if seen_cells.get(cell, 0) == want and item not in picked[-2000:]:
                    seen_cells[cell] = want + 1
                    picked.append(item)
        grid = picked
    for verb, n, g, rag, b, k in grid:
        c = {"verb": verb, "n": n, "g": g, "ragged": rag, "b": b}
        if verb == "decimate":
            c["m"], c["which"] = k
            c["form"] = (k[1] or "default") + ("-g" if g else "")
        else:
            c["k"] = k
            c["form"] = ("plus" if k.startswith("+") else "neg" if k.startswith("-") else "nonneg") + ("-g" if g else "")
        add(c)
    # group-by values containing the default OFS
    crng = chk.rng("commas")
    for i in range(60 if q else 400):
        verb = ["head", "tail", "decimate", "group-by"][i % 4]
        n = crng.choice([2, 5, 13, 60])
        c = {"verb": verb, "n": n, "g": ["a", "b"], "ragged": crng.choice([0.0, 0.2]), "b": crng.choice([1, 500]), "commas": True}
        if verb == "decimate":
            c["m"], c["which"] = crng.choice([1, 2, 3]), crng.choice(["", "-b", "-e"])
            c["form"] = (c["which"] or "default") + "-g"
        elif verb == "group-by":
            c["form"] = "2-fields"
        else:
            c["k"] = crng.choice(["1", "2", "-1", "+2"]) if verb == "tail" else crng.choice(["1", "2", "-1"])
            c["form"] = ("plus" if c["k"].startswith("+") else "neg" if c["k"].startswith("-") else "nonneg") + "-g"
        add(c)
    # grep formats the record "as DKVP (or NIDX, if -a is supplied), using OFS ',' and OPS '='" whatever the I/O separators are
    # (mlr grep --help): values that themselves contain ',' must be matched against that in-memory line
    greps_c = [(["-a"], "x,y,z"), ([], "a=x,b="), ([], "y,b=z"), (["-a"], "^r[0-9]+,x,"), (["-v"], "a=x,y"), (["-a", "-v"], ",z,"),
               ([], "b=,z,k="), (["-a", "-i"], "X,Y,[0-9]"), ([], "a=x,y,z,b=y,z")]
    for i in range(18 if q else 120):
        fl, pat = greps_c[i % len(greps_c)]
        add({"verb": "grep", "n": crng.choice([5, 13, 60]), "b": crng.choice([1, 7, 500]), "ragged": crng.choice([0.0, 0.2]), "commas": True,
             "flags": fl, "pat": pat, "form": " ".join(fl) + "+comma-values"})
    # empty value vs missing field in ONE stream, for every -g verb of this monitor
    erng = chk.rng("emptymix")
    for i in range(96 if q else 600):
        verb = ["head", "tail", "decimate", "group-by"][i % 4]
        n = erng.choice([2, 5, 13, 60, 501])
        c = {"verb": verb, "n": n, "g": [["a"], ["b"], ["a", "b"], ["b", "a"]][(i // 4) % 4], "ragged": erng.choice([0.2, 0.35]),
             "empty_mix": erng.choice([0.25, 0.5]), "b": erng.choice([1, 500])}
        if verb == "decimate":
            c["m"], c["which"] = erng.choice([1, 2, 3]), erng.choice(["", "-b", "-e"])
            c["form"] = (c["which"] or "default") + "-g"
        elif verb == "group-by":
            c["form"] = f"{len(c['g'])}-fields"
        else:
            c["k"] = erng.choice(["1", "2", "3", "-1", "-2"] + (["+2", "+3"] if verb == "tail" else []))
            c["form"] = ("plus" if c["k"].startswith("+") else "neg" if c["k"].startswith("-") else "nonneg") + "-g"
        add(c)
    # records of >= 12 fields (Miller then keeps a per-record key index that the -g lookups go through) and batches that
    # are small but > 1, so that tail / tac / group-by / head -n -k buffers are filled over many short batches
    wrng = chk.rng("wide")
    for i in range(80 if q else 640):
        verb = ["head", "tail", "decimate", "group-by", "tac"][i % 5]
        n = wrng.choice([5, 13, 60, 501])
        c = {"verb": verb, "n": n, "g": [[], ["a"], ["a", "b"], ["b", "a"]][(i // 5) % 4], "ragged": wrng.choice([0.0, 0.2]),
             "b": wrng.choice([2, 7, 12, 13]), "wide": i % 8 != 7}
        if verb == "decimate":
            c["m"], c["which"] = wrng.choice([1, 2, 3, 7]), wrng.choice(["", "-b", "-e"])
            c["form"] = (c["which"] or "default") + ("-g" if c["g"] else "")
        elif verb == "group-by":
            c["g"] = c["g"] or ["a"]
            c["form"] = f"{len(c['g'])}-fields"
        elif verb == "tac":
            c["g"] = []
        else:
            c["k"] = wrng.choice(k_forms(n))
            c["form"] = ("plus" if c["k"].startswith("+") else "neg" if c["k"].startswith("-") else "nonneg") + ("-g" if c["g"] else "")
        add(c)
    nother = 300 if q else 1500
    others = ["tac", "nothing", "group-by", "group-like", "having-fields", "grep"]
    for i in range(nother):
        verb = others[i % len(others)]
        n = NS[(i // len(others) + i) % len(NS)] if not q else rng.choice(NS)
        b = rng.choice([1, 500, 0])
        c = {"verb": verb, "n": n, "b": b, "ragged": rng.choice([0.0, 0.2, 0.4])}
        if verb == "group-by":
            c["g"], c["ragged"] = rng.choice(G_SPECS[1:])
            c["form"] = f"{len(c['g'])}-fields"
        elif verb == "having-fields":
            c["opt"], c["arg"] = HAVING[(i // len(others)) % len(HAVING)]
            c["form"] = c["opt"]
            c["ragged"] = rng.choice([0.2, 0.4])
        elif verb == "grep":
            c["flags"], c["pat"] = GREPS[(i // len(others)) % len(GREPS)]
            c["form"] = " ".join(c["flags"])
        add(c)
    return cases


def other_cases(chk):
    rng = chk.rng("other")
    q = chk.quick()
    dup, catn, rnd, laws = [], [], [], []
    nd = 60 if q else 400
    forms = ["", "-c", "-n", "-c -o N", "-n -o N"]
    for i in range(nd):
        n = rng.choice([0, 1, 2, 5, 13, 60, 499, 501])
        verb = "uniq-a" if i % 3 else "skip-trivial-records"
        dup.append({"verb": verb, "form": forms[i % len(forms)] if verb == "uniq-a" else "", "n": n,
                    "b": rng.choice([1, 500, 0]), "seed": f"{chk.seed}/{chk.tier}/dup/{i}"})
    for i in range(30 if q else 250):
        g, rag = rng.choice(G_SPECS[1:])
        catn.append({"n": rng.choice(NS), "b": rng.choice([1, 7, 500]), "g": g, "ragged": rag, "wide": i % 2 == 1,
                     "name": rng.choice([None, None, "idx"]), "seed": f"{chk.seed}/{chk.tier}/catn/{i}"})
    # streams that mix empty-valued and field-lacking records: single field, -N name, two fields (one empty / one missing)
    gm = [["a"], ["b"], ["a", "b"], ["b", "a"]]
    for i in range(48 if q else 400):
        catn.append({"n": rng.choice([2, 5, 13, 60, 501]), "b": rng.choice([1, 500, 0]), "g": gm[i % 4], "ragged": rng.choice([0.2, 0.35]),
                     "empty_mix": rng.choice([0.25, 0.5]), "name": [None, "idx"][(i // 4) % 2], "seed": f"{chk.seed}/{chk.tier}/catn/mix{i}"})
    csim = []
    for i in range(32 if q else 300):
        csim.append({"n": rng.choice([0, 1, 2, 5, 13, 60, 501]), "b": rng.choice([1, 7, 500, 0]), "g": gm[i % 4], "ragged": rng.choice([0.0, 0.2, 0.35]),
                     "empty_mix": rng.choice([0.0, 0.25, 0.5]), "oname": [None, "cnt"][(i // 4) % 2], "wide": (i // 8) % 2 == 1,
                     "seed": f"{chk.seed}/{chk.tier}/csim/{i}"})
    for i in range(120 if q else 900):
        verb = ["sample", "bootstrap", "shuffle"][i % 3]
        n = rng.choice(NS)
        c = {"verb": verb, "n": n, "b": rng.choice([1, 7, 500, 0]), "mseed": rng.randint(1, 10 ** 6), "wide": (i // 3) % 4 == 3,
             "seed": f"{chk.seed}/{chk.tier}/rand/{i}"}
        if verb == "sample":
            c["k"] = rng.choice([0, 1, 2, max(0, n - 1), n, n + 1, 10 ** 9, 3])
            c["g"], c["ragged"] = rng.choice(G_SPECS)
            c["form"] = "-g" if c["g"] else "plain"
        elif verb == "bootstrap":
            c["k"] = rng.choice([None, None, 0, 1, n + 3, 2 * n, 7])
            c["form"] = "default-n" if c["k"] is None else "-n"
        rnd.append(c)
    # fixed edge cases (kept from defects found by the random cases)
    rnd.append({"verb": "bootstrap", "n": 0, "b": 0, "mseed": 1, "k": 3, "form": "-n", "seed": f"{chk.seed}/{chk.tier}/rand/fixed0"})
    rnd.append({"verb": "bootstrap", "n": 0, "b": 1, "mseed": 2, "k": None, "form": "default-n", "seed": f"{chk.seed}/{chk.tier}/rand/fixed1"})
    rnd.append({"verb": "sample", "n": 13, "b": 0, "mseed": 3, "k": 10 ** 9, "g": ["a"], "ragged": 0.0, "form": "-g",
                "seed": f"{chk.seed}/{chk.tier}/rand/fixed2"})
    rnd.append({"verb": "sample", "n": 2, "b": 0, "mseed": 4, "k": 10 ** 9, "g": [], "ragged": 0.0, "form": "plain",
                "seed": f"{chk.seed}/{chk.tier}/rand/fixed3"})
    lawnames = ["head+tail", "headneg+tail", "tac-tac", "group-sizes", "head-g=cat-n-g", "grep+grep-v", "decimate-1",
                "decimate-be", "shuffle-sorted", "sample-all", "head-then-tail"]
    for i in range(132 if q else 1100):
        law = lawnames[i % len(lawnames)]
        n = rng.choice(NS)
        k = rng.choice([0, 1, 2, max(0, n - 1), n, n + 1, 10 ** 9 if law in ("head+tail", "headneg+tail") else 3, 7])
        g, rag = rng.choice(G_SPECS[1:])
        laws.append({"law": law, "n": n, "k": k, "g": g, "ragged": rag, "b": rng.choice([1, 500]),
                     "pat": rng.choice(GREPS)[1], "j": rng.choice([0, 1, 2, 5]), "mseed": rng.randint(1, 10 ** 6),
                     "seed": f"{chk.seed}/{chk.tier}/law/{i}"})
    return dup, catn, csim, rnd, laws


def chain_or_stat_case(case):
    return stat_case(case) if "kind" in case else chain_case(case)


def chain_cases(chk):
    rng = chk.rng("chain")
    q = chk.quick()
    cases = []
    for rep in range(2 if q else 12):
        for ui, up in enumerate(UPSTREAM_NAMES):
            if q:
                n = [13, 501][(ui + rep) % 2] if rep == 0 else rng.choice([5, 60, 1003])
            else:
                n = [2, 5, 13, 60, 499, 501, 1003][(ui + rep) % 7]
            cases.append({"up": up, "n": n, "b": rng.choice([1, 7, 500, 0]), "ragged": rng.choice([0.0, 0.2]),
                          "wide": rng.random() < 0.25, "rounds": 1 if q else 2, "seed": f"{chk.seed}/{chk.tier}/chain/{rep}/{up}"})
    return cases


STAT_KINDS = ["shuffle-small", "shuffle-large", "bootstrap-large", "bootstrap-small", "sample-groups-k1", "sample-groups-k3", "sample-large",
              "sample-downstream"]


def stat_cases(chk):
    cases = []
    for si, s0 in enumerate([0] if chk.quick() else [0, 1000, 2000, 3000]):
        for ki, kind in enumerate(STAT_KINDS):
            cases.append({"kind": kind, "seed0": s0, "b": [0, 1, 7, 500][(ki + si) % 4]})
    return cases


def run(chk):
    only = getattr(chk, "only", None)
    q = chk.quick()
    chk.rule = ("sel: (verb, N, k-form, group-by spec, records-per-batch) cells of the grid N in {0,1,2,5,13,499,500,501,1003} x "
                "k in {0,1,2,3,N/5,N/5+1,N-1,N,N+1,1e9,-1,-2,-N/5,-N,-(N+1),+1,+2,+3,+N/5,+N,+(N+1)} x group-by in {none, 1 field, 2 fields, field missing in some "
                "records} x batch in {1,500} (quick: Latin-square style sample, thorough: full grid for head/tail/decimate) plus "
                "tac/nothing/group-by/group-like/having-fields/grep/uniq -a/skip-trivial-records/cat -n -g and sample/bootstrap/"
                "shuffle under --seed; filter: random expressions of a mirrored mini-language, run plain and with -x; laws: "
                "model-free cross-verb equalities on raw outputs; wide: the head/tail/decimate/group-by/tac cells again on records of >= 12 "
                "fields with batches of 2/7/12/13 records; chain: every selector (head, tail in all forms, decimate, tac, group-by, "
                "group-like, grep, having-fields, filter/-x, sample, shuffle, bootstrap) placed AFTER one of 18 upstream streams (tac, sort, "
                "filter, grep -v, head, tail, tail -n +k, repeat, emit in an end block, nest explode, count-similar, group-by, decimate, "
                "NR > N/2, 3 files, tac over 2 files, seqgen) and judged by the same models applied to the upstream verb's own output; "
                "stat: 8 batteries of sample/shuffle/bootstrap runs over constant data and constant --seed values with >= 5-sigma bounds. "
                "Non-trivial = N > 1 and (0 < |output| < |input| or the output is a "
                "non-identity permutation); distinct = hash of (verb, arguments, N, group spec, batch size, data seed).")
    if not only or "sel" in only:
        chk.pmap(sel_case, sel_cases(chk), chunksize=4, label="sel head/tail/decimate/tac/group/having/grep")
    dup, catn, csim, rnd, laws = other_cases(chk)
    if not only or "dup" in only:
        chk.pmap(dup_case, dup, chunksize=4, label="uniq -a / skip-trivial-records")
    if not only or "catn" in only:
        chk.pmap(catn_case, catn, chunksize=2, label="cat -n -g")
    if not only or "csim" in only:
        chk.pmap(csim_case, csim, chunksize=2, label="count-similar -g")
    if not only or "rand" in only:
        chk.pmap(rand_case, rnd, chunksize=4, label="sample/bootstrap/shuffle")
    # one fan-out for both (the few long statistics batteries start first and overlap with the chain cases)
    cs = (stat_cases(chk) if not only or "stat" in only else []) + (chain_cases(chk) if not only or "chain" in only else [])
    if cs:
        chk.pmap(chain_or_stat_case, cs, chunksize=1,
                 label="selectors downstream of another verb / over several files + sample/bootstrap/shuffle statistics over fixed seeds")
    if not only or "filter" in only:
        nf = 200 if q else 3000
        rng = chk.rng("filter")
        cases = [{"n": rng.choice([0, 1, 2, 5, 13, 60, 499, 501]), "b": rng.choice([1, 500, 0]),
                  "seed": f"{chk.seed}/{chk.tier}/filter/{i}"} for i in range(nf)]
        chk.pmap(filter_case, cases, chunksize=2, label="filter mini-language x {plain,-x}")
        # run-level: whichever side an absent expression takes, it is the same side in every case of the run
        pa, px = chk.stats.get("absent_records_passed_by_filter", 0), chk.stats.get("absent_records_printed_by_filter_-x", 0)
        if pa and px:
            chk.add_violation({"verb": "filter", "form": "absent", "kind": "absent-side-inconsistent", "scope": "run"},
                              f"over the run, {pa} records with an absent filter expression passed `filter` and {px} passed `filter -x`",
                              {"note": "see observed.absent_records_*; re-run with --only filter"})
    if not only or "laws" in only:
        chk.pmap(law_case, laws, chunksize=2, label="cross-verb laws")
    if not only or "doc" in only:
        cases = []
        for section in ("head", "tail", "decimate", "grep", "group-by", "group-like", "having-fields", "tac", "uniq",
                        "skip-trivial-records", "nothing", "filter"):
            for cmd, exp in DR.blocks("reference-verbs.md", section):
                cases.append({"page": "reference-verbs.md#" + section, "cmd": cmd, "expected": exp})
        chk.pmap(doc_case, cases, label="doc replay")
    verbs = {k[5:]: v for k, v in chk.stats.items() if k.startswith("verb:")}
    lawsc = {k[4:]: v for k, v in chk.stats.items() if k.startswith("law:")}
    for k in [k for k in chk.stats if k.startswith("verb:") or k.startswith("law:")]:
        chk.stats.pop(k)
    chk.extra["cases_per_verb"] = verbs
    chk.extra["cases_per_law"] = lawsc
    for pref, name in (("upstream:", "chain_cases_per_upstream"), ("chain_verb:", "chain_selections_judged_per_verb"),
                       ("stat_battery:", "stat_batteries"), ("filter_kind:", "filter_cases_per_kind")):
        chk.extra[name] = {k[len(pref):]: v for k, v in chk.stats.items() if k.startswith(pref)}
        for k in [k for k in chk.stats if k.startswith(pref)]:
            chk.stats.pop(k)
    chk.extra["verbs_named_by_statement_not_judged"] = []
    # options the design lists but this binary does not have (taken from the verbs' --help at run time): not judged
    hh = R.mlr(["having-fields", "--help"]).out
    uh = R.mlr(["uniq", "--help"]).out
    chk.extra["options_not_present"] = (["having-fields " + o for o in ("--all-defined", "--any-defined") if o not in hh] +
                                        ["uniq -a " + o for o in ("-d", "-u") if ("\n" + o + " ") not in uh and ("\n " + o + " ") not in uh])
    chk.extra["grid"] = {"N": NS, "k_forms": "0,1,2,3,N/5,N/5+1,N-1,N,N+1,1e9,-1,-2,-N/5,-N,-(N+1),+1,+2,+3,+N/5,+N,+(N+1)",
                         "batch": [1, 2, 7, 12, 13, 500, "default"], "record_width": ["5-8 fields", ">= 12 fields"]}
    chk.assumptions = [
        "input and output are DKVP with default separators and separator-free values, so 'unchanged' is byte equality of lines "
        "(formats are C01/C02's subject)",
        "records lacking a group-by field belong to no group and are dropped by head/tail/decimate/sample/group-by -g (statement: "
        "'group sizes sum to the number of records having the group-by fields'); an empty value is a value",
        "grouped output order where the documentation is silent is accepted in any of the natural orders: head -n -k -g in stream, "
        "emission or group order; tail -n +k -g in stream or group order; tail -n k -g in first-appearance group order "
        "(reference-verbs.md example)",
        "tail -n -k is judged as tail -n k (the last k, per group with -g). `mlr tail --help` only describes n and +n; reference-verbs.md "
        "defines the '+' form 'As with GNU tail', and GNU tail reads -n -K as -n K, which is also what the binary does. The other "
        "conceivable reading (all but the first k, mirroring head -n -k) is what the documented -n +(k+1) form is for. A change of "
        "either kind is reported",
        "a run that ends with the verdict cpu / output-cap / deadlock on these finite inputs (<= ~2000 short records) is a violation "
        "(kind hang): an unbounded re-emission is 'records invented'; only the watchdog verdict `slow` is inconclusive",
        "selectors downstream of another verb: the expected selection is computed from the upstream verb's ACTUAL output (the verb run "
        "alone on the same input, same batch size), i.e. that `A then B` feeds B exactly A's output is taken from C04; a selector's "
        "'first n' / 'last n' / 'one of every n' / per-group counts refer to the records IT receives, whatever NR / FNR / FILENAME "
        "those records carry; filter predicates used downstream never read NR",
        "filter with statements around the bare boolean (reference-dsl.md 'Location of boolean expression for filter': record fields "
        "may be assigned before or after it): the selection is that of the bare boolean and the passing records carry the assignment "
        "($z = .. appended, unset $p removed); -x inverts the selection only; filter -q prints nothing. These outputs are by "
        "documentation NOT byte-equal to the input, which the statement's 'unchanged' does not cover",
        "filter with an ABSENT expression: besides the partition, all absent records of one command must take the SAME side, and the "
        "same side in every case of the run (kind absent-side-inconsistent)",
        "statistics of sample / shuffle / bootstrap: data and --seed values are constants, so the verdict for a given binary is "
        "deterministic; every bound is >= 5 standard deviations from the value a uniform generator gives (p < 1e-6 per bound); the "
        "laws are: not the identity, different seeds give different outputs, same seed gives the same output, every position / "
        "record is drawn about equally often, no correlation between output and input position, with-replacement multiplicities",
        "known finding C11-F5 (group key = values joined with ','): the class joined-key-collision is attached only when the whole "
        "output equals the same verb model computed with the joined text as the key and differs from the documented model",
        "decimate: -e passes the records whose per-group position is a multiple of n, -b those at position 1 mod n "
        "('first/last of every n'); n <= 0 is rejected by mlr and not generated",
        "filter: comparisons and =~ with an absent operand are absent; boolean connectives are only generated over operands that "
        "are never absent (their absent rules are C08's subject), plus the guarded idiom is_present($f) && ...; records on which "
        "the expression is boolean are judged exactly (true passes, false does not, -x inverts)",
        "filter with an ABSENT expression: only the partition law is judged (the record comes out of exactly one of `filter X` and "
        "`filter -x X`), not the side. Known discrepancy, not a violation of the statement: reference-dsl.md:187 ('Differences between "
        "put and filter') says a record passes when the expression is true or absent, whereas the binary drops it from `filter` and "
        "prints it with `-x`; upstream's regression cases (test/cases/dsl-from-file/0006, dsl-regex/0003) pin the binary's behaviour. "
        "The observed side is counted in observed.absent_records_*",
        "regexes are drawn from a literal-safe subset on which Go RE2 and Python re agree (ASCII data)",
        "uniq -a compares records as ordered lists of key/value texts (1 and 1.0 differ); -d/-u do not exist for -a in this binary",
        "cat -n/-N -g: every group that has the field(s), including the empty-string group, must be numbered exactly 1..n in stream "
        "order (so field-lacking records may not consume or share a real group's numbers); what cat does with the field-lacking "
        "records themselves is not settled by `mlr cat --help` and is not judged (counted in observed); inputs mix empty-valued and "
        "field-lacking records on purpose",
        "count-similar -g: output = records having the fields, grouped in first-appearance order, with count=<group size> appended "
        "(`mlr count-similar --help`); here only membership / order / the count of each record's own group are judged",
        "sample / bootstrap / shuffle per case: subset / multiset / permutation and count laws (monitor rand, chain); uniformity is the "
        "subject of the stat batteries",
    ]
