"""C18 - no input, program or argument makes Miller panic or hang.
Sanitizer-style: the Go runtime's own checks are the oracle (crash trace on stderr / fatal signal),
plus the hang classifier and CPU/output budgets. Workloads: (r) grammar-aware reader mutants x hostile
reader options, (d) DSL token mutants + pathological programs, (m) the builtin x argument-kind matrix
(exhaustive over kinds up to arity 3), (v) verb option fuzz."""
import glob
import hashlib
import json
import os
import random
import re

from .. import gen
from .. import run as R
from ..harness import add_violation, bump, case_result

BINARIES = ("mlr-verif",)
LEVEL = "exploration"
ENV = {"MLR_NO_SHELL": "1"}


def _h(*xs):
    return hashlib.sha1(repr(xs).encode()).hexdigest()[:16]


def crash_sig(err):
    """Narrow signature of a crash trace: the panic message class + top Miller frame."""
    m = re.search(r"(panic: .*|fatal error: .*)", err)
    msg = m.group(1)[:120] if m else "?"
    msg = re.sub(r"0x[0-9a-f]+", "0x?", msg)
    msg = re.sub(r"\[:?-?\d+:?-?\d*\]", "[N]", msg)
    msg = re.sub(r"\d+", "N", msg)
    fm = re.search(r"^(github\.com/johnkerl/miller/v6/pkg/[^\s(]+)", err, re.M)
    top = fm.group(1).replace("github.com/johnkerl/miller/v6/pkg/", "") if fm else "?"
    return msg, top


def judge(res, r, sig0, what, detail):
    """-> True if the run is fine (output or clean mlr error)."""
    if r.verdict == "deadlock":
        add_violation(res, dict(sig0, kind="deadlock", blocked="|".join(r.hang_sig or [])), f"{what}: deadlock at {r.hang_sig}",
                      dict(detail, dump=(r.dump or "")[-3000:]))
        return False
    if r.verdict == "slow":
        res["inconc"] += 1
        return False
    if b"pthread_create failed" in r.stderr or b"failed to create new OS thread" in r.stderr:
        # the sandbox's own address-space limit hit the Go runtime while it was starting threads: says nothing about mlr
        res["inconc"] += 1
        return False
    oom = b"out of memory" in r.stderr or b"cannot allocate memory" in r.stderr
    if r.verdict in ("cpu", "output-cap") or oom:
        add_violation(res, dict(sig0, kind="resource", how=("oom" if oom else r.verdict)),
                      f"{what}: {'address-space limit' if oom else r.verdict + ' budget'} exhausted on a tiny input", detail)
        return False
    if r.crashed():
        msg, top = crash_sig(r.err)
        add_violation(res, dict(sig0, kind="crash", msg=msg, top=top), f"{what}: Go crash trace: {msg} at {top}",
                      dict(detail, stderr=r.err[:3000]))
        return False
    if r.rc not in (0, 1) and r.signal is None:
        add_violation(res, dict(sig0, kind="odd-exit", rc=r.rc), f"{what}: exit status {r.rc} without an mlr diagnostic", dict(detail, stderr=r.err[:1000]))
        return False
    if r.rc == 1 and b"mlr" not in r.stderr and "--errors-json" in (detail.get("argv") or []) and re.search(rb'^\s*\{\s*"error"\s*:', r.stderr):
        return True     # --errors-json: the diagnostic is a JSON object {"error": ..., "kind": ...} on stderr, by documented design
    if r.rc == 1 and b"mlr" not in r.stderr:
        add_violation(res, dict(sig0, kind="no-diagnostic", msg=re.sub(r"\d+", "N", r.err.strip().split("\n")[0][:80])), f"{what}: exit 1 with no `mlr:` diagnostic: {r.err[:200]!r}", dict(detail, stderr=r.err[:1000]))
        return False
    return True


# ==========================================================================================
# (m) builtin x kind matrix

KINDS = {
    "int": ["1", "0", "-1", "9223372036854775807", "-9223372036854775808", "7"],
    "float": ["0.5", "-0.0", "1e308", "(0.0/0.0)", "(1.0/0.0)"],
    "boolean": ["true", "false"],
    "empty": ['""', "$e"],
    "string": ['"abc"', '"0x"', '"%d"', '"%s%s%s%n"', '"("', '"\\\\"', '"a,b"', '"%Y-%m-%d"', '"[a-"', '"2023-01-01T00:00:00Z"', '"\\t"'],
    "array": ["[1,2]", "[]", '["a",[1,{"b":2}]]'],
    "map": ['{"a":1}', "{}", '{"a":{"b":[1,2]}}'],
    "funct": ["func(a) {return a}", "func(a,b) {return a <=> b}", "func() {return 1}"],
    "error": ['(1/"x")'],
    "null": ["$n"],
    "absent": ["$nosuch", "@nosuch"],
}
KIND_NAMES = list(KINDS)
SKIP_FUNCS = {"system", "exec", "os_type", "hostname", "version", "urand", "urandint", "urand32", "urandrange", "urandelement",
              "systime", "systimeint", "sysntime", "uptime"}


def function_table():
    r = R.mlr(["help", "usage-functions-by-class"], binary="mlr-verif")
    fns = []
    for line in r.out.splitlines():
        m = re.match(r"^(\S+)\s+\(class=(\S+) #args=([^)]+)\)", line)
        if m:
            name, cls, args = m.groups()
            if args == "variadic":
                ar = [0, 1, 2, 3]
            else:
                ar = [int(a) for a in args.split(",") if a.strip().isdigit()]
            fns.append((name, cls, ar))
    return fns


OPERATOR_RE = re.compile(r"^[^A-Za-z_]+$")


def call_text(name, args):
    if OPERATOR_RE.match(name):
        if name == "?:" and len(args) == 3:
            return f"({args[0]} ? {args[1]} : {args[2]})"
        if name == "[]" and len(args) == 2:
            return f"({args[0]})[{args[1]}]"
        if name == "[:]" and len(args) == 3:
            return f"({args[0]})[{args[1]}:{args[2]}]"
        if name in ("[[]]", "[[[]]]", "{}", "()"):
            return None
        if len(args) == 1:
            return f"({name} {args[0]})"
        if len(args) == 2:
            return f"({args[0]} {name} {args[1]})"
        return None
    return f"{name}({', '.join(args)})"


def matrix_case(case):
    name, arity, tuples = case["name"], case["arity"], case["tuples"]
    res = case_result(_h("m", name, arity, case["group"]), nontrivial=False)
    calls = []
    for t in tuples:
        txt = call_text(name, [v for _, v in t])
        if txt is not None:
            calls.append((t, txt))
    if not calls:
        res["skipped"] += 1
        return res
    res["evals"] = len(calls)
    nt = []
    start = 0
    guard = 0
    inp = '{"e":"","n":null}\n'
    while start < len(calls) and guard < len(calls) + 5:
        guard += 1
        lines = []
        for i in range(start, len(calls)):
            lines.append(f'print "@{i} " . typeof({calls[i][1]});')
        prog = "\n".join(lines)
        # the program goes through a file: a thorough-tier case holds > 10^4 calls, more than one command-line word may carry
        r = R.mlr(["--ijson", "--ojson", "put", "-q", "-f", "prog.mlr"], stdin=inp, files={"prog.mlr": prog}, env=ENV,
                  cpu_s=(10 if len(calls) < 3000 else 60), watchdog=(60 if len(calls) < 3000 else 180), as_bytes=3 << 30)
        done = [int(m) for m in re.findall(r"^@(\d+) ", r.out, re.M)]
        last = max(done) if done else start - 1
        bump(res, "matrix_processes")
        if r.verdict == "exited" and r.rc == 0:
            bump(res, "matrix_calls_returned", len(done))
            break
        # the process ended at call last+1
        k = last + 1
        bump(res, "matrix_calls_returned", len(done))
        if k >= len(calls):
            break
        t, txt = calls[k]
        kinds = ",".join(kd for kd, _ in t)
        detail = {"argv": ["--ijson", "--ojson", "put", "-q", f"print typeof({txt})"], "stdin": inp, "env": ENV, "call": txt}
        # confirm in isolation (one call, own process) so that the witness is minimal and the verdict is about this call
        r1 = R.mlr(detail["argv"], stdin=inp, env=ENV, cpu_s=10, watchdog=60, as_bytes=3 << 30)
        ok = judge(res, r1, {"where": "builtin", "fn": name, "kinds": kinds}, f"{txt}", detail)
        if ok and r1.rc == 1:
            bump(res, "matrix_calls_fatal_mlr_error")
        nt.append(_h(name, kinds, txt))
        start = k + 1
    for t, txt in calls:
        nt.append(_h(name, ",".join(k for k, _ in t)))
    res["nontrivial_keys"] = nt
    res["sample"] = {"monitor": "matrix", "fn": name, "arity": arity, "calls": len(calls), "first": calls[0][1]}
    return res


def matrix_cases(chk):
    rng = chk.rng("matrix")
    fns = function_table()
    cases = []
    q = chk.quick()
    nf = 0
    for name, cls, ars in fns:
        if name in SKIP_FUNCS:
            continue
        nf += 1
        for arity in ars:
            if arity > 3:
                continue
            if arity == 0:
                cases.append({"name": name, "arity": 0, "group": "-", "tuples": [[]]})
                continue
            # all kind tuples; values: quick = first representative (+ one seeded extra), thorough = covering sample
            import itertools
            for first in KIND_NAMES:
                tuples = []
                for rest in itertools.product(KIND_NAMES, repeat=arity - 1):
                    if q and arity == 3 and KIND_NAMES.index(rest[1]) % 3 != (KIND_NAMES.index(rest[0]) + KIND_NAMES.index(first)) % 3:
                        continue     # quick: arity 3 covers all (first, second) pairs x a rotating third of the third kinds
                    kinds = (first,) + rest
                    reps = 1 if q else 3
                    for rep in range(reps):
                        t = []
                        for kd in kinds:
                            vals = KINDS[kd]
                            v = vals[0] if rep == 0 else rng.choice(vals)
                            t.append((kd, v))
                        if t not in tuples:
                            tuples.append(t)
                # boundary/hostile values for this first kind (values beyond the representative), against simple partners
                if arity >= 1:
                    for v in KINDS[first][1:]:
                        t = [(first, v)] + [(rng.choice(["int", "string"]), None) for _ in range(arity - 1)]
                        t = [(k, vv if vv is not None else rng.choice(KINDS[k])) for k, vv in t]
                        tuples.append(t)
                        if arity >= 2:
                            t2 = [(rng.choice(["string", "int"]), None)] + [(first, v)] + [("int", "1")] * (arity - 2)
                            t2 = [(k, vv if vv is not None else rng.choice(KINDS[k])) for k, vv in t2]
                            tuples.append(t2)
                cases.append({"name": name, "arity": arity, "group": first, "tuples": tuples})
            # every boundary / hostile value (the non-representative values of every kind: NaN, +Inf, -0.0, 1e308, int64 extremes,
            # empty collections, nested collections, hostile strings ...) in every argument position against the REPRESENTATIVE of
            # every kind in the other positions (added after seeded change C18r2-a: percentile(non-empty array, NaN) indexed
            # out of range; the first version paired hostile values with int/string partners only)
            if arity >= 2:
                hostile = [(kd, v) for kd in KIND_NAMES for v in KINDS[kd][1:]]
                for pos in range(arity):
                    tuples = []
                    for hi, (hk, hv) in enumerate(hostile):
                        partner_sets = list(itertools.product(KIND_NAMES, repeat=arity - 1))
                        if arity == 3:
                            # quick: a rotating kind in one slot against int / array / string / map in the other (4 of the 121 pairs per value),
                            # all 121 in the thorough tier
                            if q:
                                rot = KIND_NAMES[(hi + pos) % len(KIND_NAMES)]
                                partner_sets = [(rot, "int"), (rot, "array"), ("string", rot), ("map", rot)]
                        for ps in partner_sets:
                            t = [(k, KINDS[k][0]) for k in ps]
                            t.insert(pos, (hk, hv))
                            tuples.append(t)
                    for part in range(0, len(tuples), 1500):     # thorough arity 3: ~14500 calls per position, in slices
                        cases.append({"name": name, "arity": arity, "group": f"hostile@{pos}" + (f"/{part // 1500}" if len(tuples) > 1500 else ""),
                                      "tuples": tuples[part:part + 1500]})
    chk.extra["functions_in_matrix"] = nf
    chk.extra["functions_skipped_side_effects"] = sorted(SKIP_FUNCS)
    return cases


# ==========================================================================================
# (r) reader fuzz

def valid_docs(rng):
    recs = [[("a", "1"), ("b", "x y"), ("c", 'q"r'), ("d", "")], [("a", "3"), ("b", "é,z"), ("c", "line\nbreak"), ("d", "-")]]
    simple = [[("a", "1"), ("b", "xy"), ("c", "3.5")], [("a", "4"), ("b", "zw"), ("c", "-")], [("a", "7"), ("b", "", ), ("c", "0x1F")]]
    docs = {
        "csv": 'a,b,c,d\n1,x y,"q""r",\n3,"é,z","line\nbreak",-\n',
        "csvlite": "a,b,c\n1,xy,3.5\n\nd,e\n4,5\n",
        "tsv": "a\tb\tc\n1\tx\\ty\tz\\\\\n3\t\t\\n\n",
        "json": '[\n{"a": 1, "b": {"x": [1, 2, {"y": null}], "z": "s\\u00e9\\n"}, "c": true},\n{"a": -0.5e3, "b": [], "c": "\\ud83d\\ude00"}\n]\n',
        "jsonl": '{"a": 1, "b": "x"}\n{"a": 2, "b": {"c": [1,2]}}\n',
        "dkvp": "a=1,b=x y,c=3\na=4,b=,c=\n5,6,d=7\n",
        "nidx": "a b  c\nd e f g\n\n",
        "xtab": "a 1\nb x y\n\na 3\nbcd   4\n",
        "pprint": "a b   c\n1 xy  3.5\n4 zw  -\n\nd e\n5 6\n",
        "pprint-barred": "+---+----+\n| a | b  |\n+---+----+\n| 1 | xy |\n| 4 | -  |\n+---+----+\n",
        "markdown": "| a | b |\n| --- | --- |\n| 1 | x\\|y |\n| 4 | z |\n",
        "yaml": "- a: 1\n  b:\n    x: [1, 2]\n    y: {z: s}\n- a: 2\n  b: 'q'\n",
        "dkvpx": 'a=1,b="x,y",c="q""r"\na=2,b=,c=3\n',
        "usv": "a\u241fb\u241e1\u241f2\u241e",
        "rec": "a: 1\nb: x\n+ y\n\na: 2\nb: z\n",
        "dcf": "Package: x\nDepends: a,\n b\n\nPackage: y\n",
    }
    return docs


READER_OPTS = {
    "csv": [["--icsv"], ["--icsv", "--allow-ragged-csv-input"], ["--icsv", "--implicit-csv-header"], ["--icsv", "--lazy-quotes"],
            ["--icsv", "--ifs", ";"], ["--icsv", "--ifs", "tab"], ["--icsv", "--quote-original"] if False else ["--icsv", "--csv-trim-leading-space"],
            ["--icsv", "--pass-comments"], ["--icsv", "--skip-comments-with", "a"], ["--icsv", "--records-per-batch", "1"],
            ["--icsv", "--headerless-csv-input"], ["--icsv", "--ifs", "a"], ["--icsv", "-S"] if False else ["--icsv", "--dedupe-field-names-with", "X"] if False else ["--icsv", "--no-dedupe-field-names"]],
    "csvlite": [["--icsvlite"], ["--icsvlite", "--allow-ragged-csv-input"], ["--icsvlite", "--implicit-csv-header"], ["--icsvlite", "--ifs", ";;"],
                ["--icsvlite", "--irs", ";"], ["--icsvlite", "--pass-comments"]],
    "tsv": [["--itsv"], ["--itsv", "--allow-ragged-csv-input"], ["--itsv", "--implicit-tsv-header"], ["--itsv", "--records-per-batch", "1"], ["--itsvlite"]],
    "json": [["--ijson"], ["--ijson", "--records-per-batch", "1"], ["--ijsonl"], ["--ijson", "--no-auto-unflatten"], ["--ijson", "-S"] if False else ["--ijson", "--pass-comments"]],
    "jsonl": [["--ijsonl"], ["--ijson"], ["--ijsonl", "--records-per-batch", "1"]],
    "dkvp": [["--idkvp"], ["--idkvp", "--ifs", "=", "--ips", "="], ["--idkvp", "--ifs", ";;", "--ips", ":="], ["--idkvp", "--repifs"], ["--idkvp", "--ifs-regex", "[,;]+"],
             ["--idkvp", "--ips-regex", "[=:]"], ["--idkvp", "--ifs", ""], ["--idkvp", "--irs", ";"], ["--idkvp", "--incr-key"] if False else ["--idkvp", "--pass-comments-with", "a"]],
    "nidx": [["--inidx"], ["--inidx", "--ifs", " ", "--repifs"], ["--inidx", "--ifs-regex", " +"], ["--inidx", "--ifs", "tab"]],
    "xtab": [["--ixtab"], ["--ixtab", "--ips", ":"], ["--ixtab", "--ips-regex", "[ :]+"], ["--ixtab", "--records-per-batch", "1"]],
    "pprint": [["--ipprint"], ["--ipprint", "--barred-input"], ["--ipprint", "--ifs", "|"], ["--ipprint", "--implicit-pprint-header"] if False else ["--ipprint", "--records-per-batch", "1"]],
    "pprint-barred": [["--ipprint", "--barred-input"], ["--ipprint"]],
    "markdown": [["--imd"], ["--imarkdown"] if False else ["--imd", "--records-per-batch", "1"]],
    "yaml": [["--iyaml"], ["--iyaml", "--records-per-batch", "1"]],
    "dkvpx": [["--dkvpx"], ["--dkvpx", "--ifs", ";"], ["--dkvpx", "--ips", ":"]],
    "usv": [["--iusv"], ["--iusvlite"], ["--iasv"]],
    "rec": [["--irecutils"]],
    "dcf": [["--idcf"]],
}
OUT_FOR = {"csv": "--ocsv", "csvlite": "--ocsvlite", "tsv": "--otsv", "json": "--ojson", "jsonl": "--ojsonl", "dkvp": "--odkvp", "nidx": "--onidx",
           "xtab": "--oxtab", "pprint": "--opprint", "pprint-barred": "--opprint", "markdown": "--omd", "yaml": "--oyaml", "dkvpx": "--odkvp",
           "usv": "--ousv", "rec": "--ojson", "dcf": "--ojson"}
STRUCT = list(',;=:|"\'\\[]{}\n\r\t -+#') + ["\r\n", "\ufeff", "\x00", "\xff"]


def mutate_doc(rng, doc, others):
    b = doc
    nm = rng.randint(1, 4)
    ops = []
    for _ in range(nm):
        op = rng.choice(["trunc", "del", "dup", "swap", "splice", "byte", "blow", "repeat", "insert", "crlf", "bom", "strip-nl", "dupline", "numbers"])
        ops.append(op)
        if not b:
            break
        pos = [i for i, ch in enumerate(b) if ch in ',;=:|"\\[]{}\n\t -']
        i = rng.choice(pos) if pos and rng.random() < 0.8 else rng.randrange(len(b))
        if op == "trunc":
            b = b[: max(0, i + rng.choice([-1, 0, 1]))]
        elif op == "del":
            b = b[:i] + b[i + 1:]
        elif op == "dup":
            b = b[:i] + b[i] * rng.choice([2, 3, 50]) + b[i + 1:]
        elif op == "swap" and pos and len(pos) > 1:
            j = rng.choice(pos)
            lst = list(b)
            lst[i], lst[j] = lst[j], lst[i]
            b = "".join(lst)
        elif op == "splice":
            o = rng.choice(others)
            k = rng.randrange(len(o) + 1)
            b = b[:i] + o[k:]
        elif op == "byte":
            b = b[:i] + rng.choice(["\x00", "\udcff", "\r", "\udc80", "\x7f", "\x1b"]) + b[i + 1:]
        elif op == "blow":
            b = b[:i] + rng.choice(["x", '"', "9", " "]) * rng.choice([70000, 1 << 20]) + b[i:]
        elif op == "repeat":
            b = b[:i] + rng.choice(["[", "{", '{"a":', "(", '"', "- ", "  "]) * rng.choice([100, 10000, 100000]) + b[i:]
        elif op == "insert":
            b = b[:i] + rng.choice(STRUCT) + b[i:]
        elif op == "crlf":
            b = b.replace("\n", "\r\n")
        elif op == "bom":
            b = "\ufeff" + b
        elif op == "strip-nl":
            b = b.rstrip("\n")
        elif op == "dupline":
            ls = b.split("\n")
            k = rng.randrange(len(ls))
            ls.insert(k, ls[k])
            b = "\n".join(ls)
        elif op == "numbers":
            b = re.sub(r"\d+", lambda m: rng.choice(["9223372036854775808", "-0", "1e999", "0x", "1_000", "0b2", "1e-999", "00", "+-1", ".", "1e", "0xffffffffffffffffff"]), b, count=rng.randint(1, 3))
    return b, ops


def reader_case(case):
    rng = random.Random(case["seed"])
    docs = valid_docs(rng)
    fmt = case["fmt"]
    res = case_result(_h("r", case["seed"]), nontrivial=False)
    special = case.get("special")
    files = {}
    mkdir = None
    if special == "open-fault":
        # the open itself fails or the decompressor rejects the first bytes: every reader has its own open loop
        how, zflag = case["how"], case["zflag"]
        opts = rng.choice(READER_OPTS[fmt])
        names = {"nonexistent": "no-such-file.dat", "plain-bytes": "in.dat", "empty": "in.dat", "second-of-two": "in.dat"}
        filesd = {} if how == "nonexistent" else {"in.dat": (b"" if how == "empty" else docs[fmt].encode("utf-8", "surrogateescape"))}
        args = opts + ([zflag] if zflag else []) + ["--ojson", "cat"] + (["ok.dat", "no-such-file.dat"] if how == "second-of-two" else [names[how]])
        if how == "second-of-two":
            filesd = {"ok.dat": docs[fmt].encode("utf-8", "surrogateescape")}
            args = opts + ["--ojson", "cat", "ok.dat", "no-such-file.dat"]
        r = R.mlr(args, files=filesd, env=ENV, cpu_s=20, watchdog=60)
        bump(res, "reader_open_fault_runs")
        judge(res, r, {"where": "reader-open", "fmt": fmt, "how": how}, f"reader {fmt} {' '.join(opts)} {zflag or ''} on {how}",
              {"argv": args, "files": {k: v[:2000] for k, v in filesd.items()}})
        res["nontrivial"] = True
        res["sample"] = {"monitor": "reader-open-fault", "fmt": fmt, "how": how, "zflag": zflag}
        return res
    if special == "empty":
        data, ops = "", ["empty"]
    elif special == "seps":
        data, ops = rng.choice([",,,\n,,\n", "\n\n\n", "=\n=,=\n", "\t\t\n", '"""\n', "|||\n", "---\n", "[", "{", "[[[[", "- - -\n", ": :\n"]), ["only-separators"]
    elif special == "header-only":
        data, ops = docs[fmt].split("\n")[0] + rng.choice(["", "\n"]), ["header-only"]
    else:
        data, ops = mutate_doc(rng, docs[fmt], list(docs.values()))
    opts = rng.choice(READER_OPTS[fmt])
    outs = [["--ojson"], [OUT_FOR[fmt]]]
    databytes = data.encode("utf-8", "surrogateescape")
    ok_all = True
    for o in outs:
        argv = opts + o + ["cat", "in.dat"]
        r = R.mlr(argv, files={"in.dat": databytes}, env=ENV, cpu_s=30, watchdog=90, fsize=256 << 20)
        bump(res, "reader_runs")
        detail = {"argv": argv, "files": {"in.dat": databytes if len(databytes) < 5000 else databytes[:5000]}, "ops": ops, "gen_seed": case["seed"], "doc_len": len(databytes)}
        ok = judge(res, r, {"where": "reader", "fmt": fmt}, f"reader {fmt} {' '.join(opts)} on mutant {ops}", detail)
        ok_all = ok_all and ok
        if ok:
            bump(res, "reader_ok_exit0" if r.rc == 0 else "reader_ok_mlr_error")
    # non-trivial: the mutant is neither accepted unchanged nor trivially empty
    res["nontrivial"] = bool(data) and data != docs[fmt]
    res["sample"] = {"monitor": "reader", "fmt": fmt, "opts": opts, "ops": ops, "len": len(databytes)}
    return res


# ==========================================================================================
# (d) DSL fuzz

HAND_PROGRAMS = [
    '$z = $x . "_" . $y; unset $a',
    'if ($x > 1) { $y = 2 } elif ($x < 0) { $y = 3 } else { $y = 4 }',
    'for (k, v in $*) { $[k . "_new"] = v . "!" }',
    'for ((k1, k2), v in @m) { print k1 . k2 . v }',
    'for (int i = 0; i < 3; i += 1) { if (i == 1) {continue} $[string(i)] = i }',
    'while (true) { break } do { $i = 1 } while (false)',
    'func f(str s, int n): str { return s . n } $y = f("a", 1)',
    'subr p(str s) { print s } call p("x")',
    'begin { @count = 0; @m = {} } @count += 1; @m[$a][$b] = $x; end { emit @m, "a", "b"; emitp (@count, @m); dump }',
    '$y = apply([1,2,3], func(e) { return e ** 2 }); $z = sort({"c":1,"a":2}, func(ak,av,bk,bv) { return bv <=> av })',
    '$* = mapsum($*, {"new": NR}); unset $*["a"]; $[[1]] = "A"; $[[[2]]] = "B"',
    'map m = {"a": [1, {"b": 2}]}; m["a"][2]["c"] = 3; $j = json_encode(m); $k = m["a"][1:1]',
    'tee > "/dev/null", $*; print > stderr, "x"; emit > "/dev/null", $*; dump > "/dev/null"',
    '$s = "abc"[1:2] . substr("hello", 1, 2) . format_values' if False else '$s = "abc"[1:2] . substr("hello", 1, 2)',
    'filter $x > 0.5 && $a =~ "^p(.)n$"; $c = "\\1"',
    'num x = 1; var y = x ?? "d"; z = absent ??? 3; $r = x < 2 ? "a" : "b"',
    '$t = strftime(0, "%Y-%m-%dT%H:%M:%SZ"); $u = strptime("1970-01-01", "%Y-%m-%d"); $v = sec2dhms(100000)',
    '$a = 1 + 2 * 3 ** 2 // 4 % 5 - -6 .+ 7 & 8 | 9 ^ 10 << 2 >> 1 >>> 1; $b = !true || false && true ^^ false',
    'emit1 {"a": 1}; emitf @x, @y; emit @*, "a"; emit (@a, @b), "x"; emitp @a[1]["x"], "y"',
    'ENV["X"] = "y"; $e = ENV["X"]; $m = M_PI . M_E; $f = FILENAME . FILENUM . FNR . NF . NR . IPS . IFS . IRS . OPS . OFS . ORS',
    'unset @*; unset all; unset @m[1][2]; unset $x, $y',
    'funct g = func(a, b) { return a + b }; $q = g(1, 2); $r = fold([1,2,3], func(acc, e) { return acc + e }, 0)',
    '$x =~ "a(b)c" { $y = "\\1" } $x !=~ "z" { $w = 1 }',
    'if (is_present($x)) { $y = asserting_not_null($x) } $n = strlen($a) . toupper($b) . splitax("a,b", ",")[1]',
    'case' if False else '$y = splitnv("1,2", ","); $z = joink({"a":1}, ","); $w = unformat("<>;<>", "3;4.5"); $v = percentiles([1,2,3], [25,75])',
    'begin { @a[1][2] = 3 } end { for (k, v in @a) { for (k2, v2 in v) { print k . k2 . v2 } } }',
    '$*  = {}; $new = NR; $arr = [1,[2,[3,[4]]]]; $arr2 = flatten($arr, ":") ?? "x"',
    'return 1' if False else 'func r(n) { if (n <= 0) { return 0 } return 1 + r(n - 1) } $d = r(50)',
]


def load_seed_programs():
    progs = list(HAND_PROGRAMS)
    for path in sorted(glob.glob("/repo/test/input/*.mlr") + glob.glob("/repo/docs/src/*.mlr") + glob.glob("/repo/docs/src/programs/*.mlr")):
        try:
            t = open(path, errors="replace").read()
        except OSError:
            continue
        if 0 < len(t) < 4000 and "system" not in t and "exec" not in t and "|" not in t.replace("||", ""):
            progs.append(t)
    return progs


TOKEN_RE = re.compile(r'"(?:\\.|[^"\\])*"i?|\$\{[^}]*\}|\$[A-Za-z_0-9]+|\$\*|@[A-Za-z_0-9]+|@\*|[A-Za-z_][A-Za-z_0-9]*|0[xXbBoO][0-9a-fA-F]+|\d+\.?\d*(?:[eE][+-]?\d+)?|\*\*=?|//=?|>>>=?|<<=?|>>=?|\?\?\?=?|\?\?=?|&&=?|\|\|=?|\^\^=?|<=>|[-+*/%&|^.<>=!]=|=~|!=~|\.\+|\.-|\.\*|\./|#[^\n]*|\s+|.', re.S)
BOUNDARY_LITS = ["9223372036854775807", "-9223372036854775808", "0", "-1", "1e308", "1e-400", "0x7fffffffffffffffff", '""', '"%"', '"("', '"\\"', "[]", "{}",
                 "absent" if False else "$nosuch", '"\\9"', "0.0/0.0", "999999999999999999999999", '"\\u0000"', "M_PI", "NR"]


def mutate_prog(rng, prog):
    toks = [t for t in TOKEN_RE.findall(prog)]
    nm = rng.randint(1, 4)
    ops = []
    for _ in range(nm):
        if not toks:
            break
        idx = [i for i, t in enumerate(toks) if not t.isspace()]
        if not idx:
            break
        i = rng.choice(idx)
        op = rng.choice(["del", "dup", "swap", "brace", "lit", "kw", "op", "insert-paren", "trunc"])
        ops.append(op)
        if op == "del":
            del toks[i]
        elif op == "dup":
            toks.insert(i, toks[i])
        elif op == "swap":
            j = rng.choice(idx)
            toks[i], toks[j] = toks[j], toks[i]
        elif op == "brace":
            toks[i] = rng.choice(["{", "}", "(", ")", "[", "]", ";", ","])
        elif op == "lit":
            lits = [k for k in idx if re.match(r'^(\d|"|\$|@)', toks[k])]
            if lits:
                toks[rng.choice(lits)] = rng.choice(BOUNDARY_LITS)
        elif op == "kw":
            toks[i] = rng.choice(["emit", "emitp", "unset", "func", "return", "break", "continue", "for", "in", "if", "else", "while", "begin", "end", "call", "subr",
                                  "tee", "dump", "print", "filter", "var", "map", "funct", "all", "$*", "@*", "ENV", "M_PI", "true", "absent" if False else "int", "stdout"])
        elif op == "op":
            toks[i] = rng.choice(["+", "-", "**", ".", "?", ":", "??", "???", "=~", "<=>", "&&", "=", "+=", "//", ">>>", "!", "~", ".+", "<<", "[", "[[", "[[[", "]]]", ">", ">>", "|"])
        elif op == "insert-paren":
            toks.insert(i, rng.choice(["(", ")", "{", "}", "[", "]"]))
        elif op == "trunc":
            toks = toks[:i]
    out = "".join(toks)
    out = out.replace("system", "strlen").replace("exec", "strlen")
    return out, ops


def pathological_programs():
    P = []
    P.append(("deep-parens-500", "$y = " + "(" * 500 + "1" + ")" * 500))
    P.append(("deep-parens-5000", "$y = " + "(" * 5000 + "1" + ")" * 5000))
    P.append(("long-plus-chain-10000", "$y = " + " + ".join(["1"] * 10000)))
    P.append(("long-dot-chain-3000", "$y = " + " . ".join(['"a"'] * 3000)))
    P.append(("deep-unary-2000", "$y = " + "-" * 2000 + "1"))
    P.append(("deep-not-2000", "$y = " + "!" * 2000 + "true"))
    P.append(("deep-ternary-500", "$y = " + "true ? 1 : " * 500 + "2"))
    P.append(("deep-index-1000", "$y = $*" + '["a"]' * 1000))
    P.append(("deep-array-literal-2000", "$y = " + "[" * 2000 + "]" * 2000))
    P.append(("deep-map-literal-1000", "$y = " + '{"a":' * 1000 + "1" + "}" * 1000))
    P.append(("deep-blocks-500", "if (true) {" * 500 + "$y = 1" + "}" * 500))
    P.append(("deep-recursion-10000", "func f(n) { if (n <= 0) {return 0} return 1 + f(n - 1) } $y = f(10000)"))
    P.append(("json-decode-deep-array", '$y = json_decode(format_values)' if False else '$y = json_decode(strrepeat("[", 100000))' if False else '$y = json_decode(gsub(leftpad("", 100000, "x"), "x", "["))'))
    P.append(("json-decode-deep-map", '$y = json_decode(gsub(leftpad("", 50000, "x"), "x", "{\\"a\\":"))'))
    P.append(("sort-bad-comparator", '$y = sort([5,2,3,1,4], func(a,b) { return "x" })'))
    P.append(("sort-inconsistent-comparator", "$y = sort([5,2,3,1,4,9,8,7,6], func(a,b) { return 1 })"))
    P.append(("huge-array-index", "$y = [1,2,3][9223372036854775807]; $z = [1,2,3][-9223372036854775808]; m[9223372036854775807] = 1"))
    P.append(("huge-slice", '$y = "abc"[-9223372036854775808:9223372036854775807]; $z = [1,2][0:9223372036854775807]'))
    P.append(("auto-extend-huge", "a = [1]; a[1000000000000] = 2"))
    TINY = ["'", "''", "'" * 3, "'a", "a'", "'$x=1", "$x=1'", '"', '""', "#", "#'", "\n", "", " ", "{", "}", ";", ";;", "$", "$*", "@", "${", "${}",
            "$[", "$[[", "$[[[1", "\\", "\t", "é", "\udcff", "func", "func f", "end", "end{", "1", "1;", "true", "$x=", "=1", "emit", "emit @", "tee >",
            "print |", "ENV", "M_PI=1", "$x .+", "-", "!", "?:", "a[", "a[1:", '"\\', '"\\u', '"\\x', "0x", "0b", "1e", "1_000", ".", "..", "1..2"]
    for i, tiny in enumerate(TINY):
        P.append((f"tiny-{i}", tiny))
    P.append(("typed-udf-body-fails", "func f(): int { str s = 1; return 1 } $y = f()"))
    P.append(("typed-udf-arg-fails", "func f(int i): int { return i } $y = f(\"abc\")"))
    P.append(("typed-subr-body-fails", "subr p(str s) { int i = s; print i } call p(\"abc\")"))
    P.append(("positional-out-of-range", "$[[999]] = 1; $[[[999]]] = 2; $[[0]] = 3; $[[-1]] = 4; $y = $[[999]] . $[[[0]]]"))
    P.append(("format-values-hostile", '$y = fmtnum(3, "%") . fmtnum(3, "%999999999d") . fmtnum(3, "%s%s%s") . fmtifnum("x", "%*d") . fmtnum(3.1, "%.9999999f")'))
    P.append(("regex-hostile", '$y = sub("abc", "(", "x") . gsub("abc", "[", "x") . regextract("abc", "\\\\") . ("abc" =~ "a{99999}") . matchx("a", "(?P<") ' if False else
              '$y = sub("abc", "(", "x"); $z = gsub("abc", "[", "x"); $w = regextract("abc", "\\\\"); $v = "abc" =~ "a{99999}"; $u = "x" =~ "(((((((((((a)))))))))))"; $t = "\\11"'))
    P.append(("strptime-short-input", '$y = strptime("abc", "%d"); $z = strptime("abc", "("); $w = strptime("", "%Y-%m-%dT%H:%M:%SZ"); $v = strptime("2023", "%Y-%m-%d %H")'))
    P.append(("time-hostile", '$y = sec2gmt(1e300); $z = sec2gmt(-1e300, 9); $w = strftime(9223372036854775807, "%Y"); $v = sec2date(0.0/0.0); $u = strfntime(-9223372036854775808, "%j"); $t = dhms2sec("1d2h3m4sxyz"); $s = sec2dhms(9223372036854775807)'))
    P.append(("division-family-zero", "$a = 1 / 0; $b = 1 // 0; $c = 1 % 0; $d = 1 ./ 0; $e = 0 ** -1; $f = madd(1, 2, 0); $g = mexp(2, -1, 5); $h = mmul(1, 1, 0); $i = msub(5, 6, 0); $j = 1 .// 0" if False else
              "$a = 1 / 0; $b = 1 // 0; $c = 1 % 0; $d = 1 ./ 0; $e = 0 ** -1; $f = madd(1, 2, 0); $g = mexp(2, -1, 5); $h = mmul(1, 1, 0); $i = msub(5, 6, 0); $k = -9223372036854775808 // -1; $l = -9223372036854775808 % -1; $m = roundm(5, 0); $n = 7 ./ -0"))
    P.append(("shift-hostile", "$a = 1 << 64; $b = 1 << -1; $c = 1 >> 9223372036854775807; $d = 1 >>> -9223372036854775808; $e = -1 >>> 64; $f = 1 << 1e30"))
    P.append(("emit-hostile", 'emit @nosuch; emit (@a, @b), "x"; emitp @*; emit @*, "a", "b", "c"; @a = 1; emit @a, "x"; emit {"a": {"b": 1}}, "q", "r"; emitf @a; emit1 1' if False else
              'emit @nosuch; emit (@a, @b), "x"; emitp @*; emit @*, "a", "b", "c"; @a = 1; emit @a, "x"; emit {"a": {"b": 1}}, "q", "r"; emitf @a'))
    P.append(("unset-hostile", "unset $*; unset @*; unset $nosuch[1][2]; unset @a[1]; $* = {}; unset $*[1]; unset all"))
    P.append(("assign-srec-odd", '$* = {"a": {"b": [1, {"c": 2}]}}; $a[1] = 2; $["x"][1]["y"] = 3; ${a b} = 1; $*["q"] = func(a) {return a}' if False else
              '$* = {"a": {"b": [1, {"c": 2}]}}; $["x"][1]["y"] = 3; ${a b} = 1'))
    P.append(("splitax-empty-sep", '$y = splitax("abc", ""); $z = splitnv("", ""); $w = joink({}, ""); $v = format("{}:{}", 1); $u = unformat("{}h{}", "5"); $t = strfind("", ""); $s = leafcount(1); $r = concat()' if False else
              '$y = splitax("abc", ""); $z = splitnv("", ""); $w = joink({}, ""); $v = format("{}:{}", 1); $u = unformat("{}h{}", "5"); $s = leafcount(1); $r = concat()'))
    P.append(("percentile-hostile", '$y = percentile([], 50); $z = percentiles([1], ["x"]); $w = percentile([1,2], 1e300); $v = median({}); $u = percentiles([1,2,3], [50], {"output_array_not_map": "x", "interpolate_linearly": 3}); $t = kurtosis([1]); $s = sort_by_key(3)' if False else
              '$y = percentile([], 50); $z = percentiles([1], ["x"]); $w = percentile([1,2], 1e300); $v = median({}); $u = percentiles([1,2,3], [50], {"output_array_not_map": "x", "interpolate_linearly": 3}); $t = kurtosis([1]); $r = minlen([]); $q = mode([]); $p = variance(["a","b"])'))
    P.append(("latin1-hostile", '$y = utf8_to_latin1("\\u4e2d"); $z = latin1_to_utf8("\\xff\\xfe"); $w = gssub("", "", "x"); $v = ssub("abc", "", "x"); $u = truncate("é", -1); $t = toupper("\\xff"); $s = strrev("\\xc3"); $r = unbackslash("\\\\"); $q = "\\xzz"'))
    return P


def dsl_case(case):
    rng = random.Random(case["seed"])
    res = case_result(_h("d", case["seed"]), nontrivial=True)
    if "prog" in case:
        prog, ops, name = case["prog"], ["pathological"], case["name"]
    else:
        base = case["base"]
        prog, ops = mutate_prog(rng, base)
        name = "mutant"
    inp = "a=pan,b=x1,i=3,x=0.5,y=7\na=eks,b=,i=-4,x=1.5,y=\n,\n"
    runs = [(["-n", "put", "-f", "prog.mlr"], ""), (["put", "-f", "prog.mlr"], inp)]
    if rng.random() < 0.3:
        runs.append((["--ojson", "filter", "-f", "prog.mlr"], inp))
    if case.get("argv_carried") or (len(prog) < 2000 and "\x00" not in prog and rng.random() < 0.25):
        # the program text as a command-line word: that path strips quotes and appends a newline before parsing
        runs = runs[:1] + [(["-n", "put", prog], ""), (["filter", "-x", prog], inp), (["-n", "put", "-e", prog, "-e", prog], "")]
    for argv, stdin in runs:
        cwd_files = {"prog.mlr": prog.encode("utf-8", "surrogateescape")}
        r = R.mlr(argv, stdin=stdin, files=cwd_files, env=ENV, cpu_s=(10 if name == "mutant" else 20), watchdog=60, as_bytes=4 << 30)
        bump(res, "dsl_runs")
        detail = {"argv": argv, "stdin": stdin, "files": {"prog.mlr": prog if len(prog) < 6000 else prog[:6000] + "...(truncated; see name)"}, "ops": ops, "name": name,
                  "gen_seed": case["seed"]}
        if name == "mutant" and (b"out of memory" in r.stderr or b"cannot allocate memory" in r.stderr):
            # a mutated literal can turn a loop bound / pad length / array index into a huge number: the program then asks for
            # the memory itself (cf. C18-F1/F2, which are reported from the un-mutated pathological list) - not judged, counted
            bump(res, "dsl_mutant_runs_that_exhausted_memory_(own_demand?)")
            res["inconc"] += 1
            continue
        if name == "mutant" and r.verdict == "cpu" and b"out of memory" not in r.stderr:
            # a token mutant can be a program that loops by its own logic (a deleted `break`, a mutated loop condition):
            # indistinguishable from outside, so not judged - counted
            bump(res, "dsl_mutant_runs_that_exhausted_cpu_(own_loop?)")
            res["inconc"] += 1
            continue
        ok = judge(res, r, {"where": "dsl", "name": name if name != "mutant" else "mutant"}, f"DSL program ({name}, {ops})", detail)
        if ok:
            bump(res, "dsl_ok_exit0" if r.rc == 0 else "dsl_ok_mlr_error")
    res["sample"] = {"monitor": "dsl", "name": name, "ops": ops, "prog_head": prog[:120]}
    return res


# ==========================================================================================
# (v) verb option fuzz

def verb_cases(chk):
    rng = chk.rng("verbs")
    hostile_n = ["0", "-1", "9223372036854775808", "abc", "", "1e3", "-9223372036854775808", "NaN", "nan", "Inf", "-inf", "9223372036854775807", "1e400", "0x10", "1.5"]
    T = []
    for n in hostile_n:
        T += [["head", "-n", n], ["tail", "-n", n], ["decimate", "-n", n], ["sample", "-k", n], ["top", "-n", n, "-f", "x"], ["fill-down", "-f", n],
              ["step", "-a", "ewma", "-d", n, "-f", "x"], ["step", "-a", "shift_lag,slwin_" + n + "_" + n, "-f", "x"], ["histogram", "-f", "x", "--lo", n, "--hi", "1", "--nbins", "2"],
              ["histogram", "-f", "x", "--lo", "0", "--hi", "1", "--nbins", n], ["seqgen", "--start", "1", "--stop", "5", "--step", n], ["split-lines" if False else "repeat", "-n", n],
              ["bar", "-f", "x", "--lo", "0", "--hi", n], ["fraction", "-f", n], ["sec2gmt", "-" + n, "x"], ["sec2gmt", "--millis2gmt" if False else "-3", n],
              ["nest", "--evar", n, "-f", "a"], ["cut", "-r", "-f", n], ["merge-fields", "-a", "p" + n, "-f", "x,y", "-o", "o"], ["stats1", "-a", "p" + n + ",first", "-f", "x"],
              ["stats1", "-a", "mean", "-f", "x", "-w" if False else "--fr", n], ["split", "-n", n, "--prefix", "o"], ["gap", "-n", n], ["bootstrap", "-n", n] if False else ["shuffle"],
              ["format-values", "-n", "-f", "%" + n + "lf"], ["sec2gmtdate", n], ["count-similar", "-g", n], ["case", "-u", "-f", n], ["template", "-f", n], ["unsparsify", "-f", n]]
    for rx in ["(", "[", "\\", "a{99999}", "(?P<", "*", ""]:
        T += [["cut", "-r", "-f", rx], ["rename", "-r", rx + ",x"], ["rename", "-g", "-r", "a," + rx], ["having-fields", "--any-matching", rx], ["grep", rx], ["sub", "-f", "a", rx, "y"],
              ["gsub", "-a", rx, "\\9"], ["reorder", "-f", rx], ["stats1", "--fr", rx, "-a", "sum"], ["merge-fields", "-c", rx, "-a", "sum", "-o", "z"], ["nest", "--explode", "--values", "--across-records", "-f", "a", "--nested-fs", rx]]
    T += [["cut", "-f", ""], ["sort", "-f", ""], ["sort", "-nr", ",,"], ["head", "-g", ""], ["label", ""], ["label", "a,a"], ["rename", "a"], ["rename", "a,b,c"], ["reorder", "-e", "-f", ",,"],
          ["join", "-j", "a", "-f", "/dev/null"], ["join", "-j", "", "-f", "in.dat"], ["join", "-s", "-j", "a", "-f", "in.dat"], ["nest", "--ivar", "", "-f", "a"], ["reshape", "-l" if False else "-s", "a,b"],
          ["reshape", "-i", "x,y", "-o", "k,k"], ["reshape", "-r", "(", "-o", "k,v"], ["sec2gmt", ""], ["split-join" if False else "altkv"], ["fill-empty", "-v", ""], ["seqgen", "--start", "1", "--stop", "10", "--step", "0"],
          ["seqgen", "--start", "a", "--stop", "b"], ["seqgen", "-f", "", "--stop", "3"], ["summary"], ["summary", "-a", "nosuch"], ["summary", "--transpose" if False else "-x", "mean"], ["sparkline" if False else "count-distinct", "-f", "a,b", "-u"],
          ["top", "-f", "x", "-o", ""], ["utf8-to-latin1"], ["latin1-to-utf8"], ["json-parse", "-k"], ["json-parse", "-f", "a"], ["json-stringify", "--jvstack"], ["flatten", "-s", ""], ["unflatten", "-s", ""],
          ["unflatten", "-f", "a.b.c"], ["having-fields", "--at-least", ""], ["sec2gmt", "-1", "a"], ["split-ax" if False else "ssub", "-f", "a", "", ""], ["case", "-k", "-v", "-f", "a"], ["tee", "/dev/null"],
          ["surv", "-d", "x", "-s", "y"], ["stats2", "-a", "linreg-ols,r2,cov,corr,fit", "-f", "x,y"], ["stats2", "-a", "linreg-pca", "-f", "x,y", "--fit"], ["bootstrap-ci" if False else "stats2", "-a", "logireg", "-f", "x,y"],
          ["step", "-a", "ewma", "-d", "0.1,0.9", "-o", "a,b,c", "-f", "x"], ["merge-fields", "-a", "antimode,mode,minlen,null_count,distinct_count,median", "-f", "a,b,x", "-o", "o"],
          ["stats1", "-a", "p50,p25.5,p-1,p101,pabc,iqr,lof,uof", "-f", "x,y,a"], ["stats1", "-i", "-a", "p50,median", "-f", "x", "-g", "a"], ["count-distinct", "-n", "-f", "a"], ["sec2str" if False else "fill-down", "-a"],
          ["split", "-g", "a", "--prefix", "o"], ["split", "-m", "0", "--prefix", "o"], ["rank", "-f", "x"] if False else ["nothing"], ["describe"] if False else ["regularize"]]
    cases = []
    inputs = ["a=pan,b=x1,i=3,x=0.5,y=7\na=eks,b=,i=-4,x=1.5,y=\na=pan,b=x1,i=abc,x=,y=0x10\n", "", "x=1\n"]
    for i, t in enumerate(T):
        cases.append({"seed": f"{chk.seed}/v/{i}", "verb": t, "stdin": inputs[i % len(inputs)] if chk.quick() else None, "inputs": inputs})
    if chk.quick():
        rng.shuffle(cases)
        cases = cases[:320]
    return cases


def verb_case(case):
    res = case_result(_h("v", case["verb"]), nontrivial=True)
    ins = [case["stdin"]] if case["stdin"] is not None else case["inputs"]
    for stdin in ins:
        argv = list(case["verb"])
        files = {"in.dat": stdin}
        r = R.mlr(argv + (["in.dat"] if argv[0] != "seqgen" else []), files=files, env=ENV, cpu_s=20, watchdog=60)
        bump(res, "verb_runs")
        detail = {"argv": argv + ["in.dat"], "files": files}
        ok = judge(res, r, {"where": "verb", "verb": argv[0]}, f"verb options {argv}", detail)
        if ok:
            bump(res, "verb_ok_exit0" if r.rc == 0 else "verb_ok_mlr_error")
    res["sample"] = {"monitor": "verb", "argv": case["verb"]}
    return res


# ==========================================================================================
# (o) main-flag fuzz: every flag of the flag tables the binary prints, with hostile argument values

FLAG_SECTIONS = ["comments-in-data-flags", "compressed-data-flags", "csv/tsv-only-flags", "dkvp-only-flags", "file-format-flags",
                 "flatten-unflatten-flags", "format-conversion-keystroke-saver-flags", "json-only-flags", "legacy-flags", "markdown-only-flags",
                 "miscellaneous-flags", "pprint-only-flags", "separator-flags"]
FLAG_SKIP = {"--prepipe", "--prepipex", "--prepipe-gunzip", "--prepipe-zcat", "--prepipe-bz2", "--prepipe-zstdcat", "--load", "--mload", "--from", "--mfrom",
             "-n", "--version", "-I", "--norc-processing", "-s", "--ofmt", "--tz", "--nr-progress-mod", "--files", "--cpuprofile", "--traceprofile", "--time",
             "-x", "--norc", "--infer-none", "--c2p", "--lazy-quotes"}
HOSTILE_ARGS = ["9223372036854775807", "-9223372036854775808", "4294967296", "1000000000000", "", "abc", "0", "-1", ";", ";;", "tab", "\\", "(", "[", "a|b", "9223372036854775808", "widths:", "widths:0,0", "widths:-1,2", "widths:x", "left-align",
                "right-align-multi-word", " ", "\n", "semicolon", "ascii_null", "%", "%d", "%lf", "%s", "%08.3lf", "%z", "x,y", "é", "\xff", "0x", "1e400", ".", "{}", "a=b"]


def flag_table():
    flags = []
    for sec in FLAG_SECTIONS:
        r = R.mlr(["help", sec], binary="mlr-verif")
        for line in r.out.splitlines():
            m = re.match(r"^(-{1,2}[A-Za-z0-9][-A-Za-z0-9_]*)(?: or (-{1,2}[-A-Za-z0-9_]+))*(?: (\{[^}]*\}))?", line)
            if m and not line.startswith(" "):
                names = re.findall(r"(?:^| or )(-{1,2}[A-Za-z0-9][-A-Za-z0-9_]*)", line.split("  ")[0])
                arg = "{" in line.split("  ")[0]
                nargs = line.split("  ")[0].count("{")
                for nm in names:
                    if nm not in FLAG_SKIP:
                        flags.append((nm, nargs))
    return sorted(set(flags))


def option_case(case):
    rng = random.Random(case["seed"])
    flags = case["flags"]
    docs = valid_docs(rng)
    fmt = rng.choice(list(READER_OPTS))
    base = rng.choice(READER_OPTS[fmt])
    k = rng.choice([1, 1, 2, 3])
    extra = []
    picked = []
    for _ in range(k):
        nm, nargs = rng.choice(flags)
        picked.append(nm)
        extra.append(nm)
        for _ in range(nargs):
            extra.append(rng.choice(HOSTILE_ARGS))
    if case.get("focus"):
        nm, nargs = case["focus"]
        extra = [nm] + [case["arg"]] * nargs
        picked = [nm]
    data = docs[fmt]
    if rng.random() < 0.3:
        data, _ = mutate_doc(rng, data, list(docs.values()))
    databytes = data.encode("utf-8", "surrogateescape")
    out = rng.choice([["--ojson"], [OUT_FOR[fmt]], []])
    order = rng.choice([base + extra, extra + base])
    argv = order + out + ["cat", "in.dat"]
    res = case_result(_h("o", case["seed"]), nontrivial=True)
    r = R.mlr(argv, files={"in.dat": databytes}, env=ENV, cpu_s=20, watchdog=60)
    bump(res, "option_runs")
    detail = {"argv": argv, "files": {"in.dat": databytes[:3000]}, "gen_seed": case["seed"]}
    if r.verdict == "cpu" and "--no-hash-records" in argv and len(databytes) > 50000:
        # a mutated document with a 100k-field line under --no-hash-records is quadratic by the user's own choice of flag:
        # it terminates (checked by hand), only not inside the CPU budget on a loaded machine
        bump(res, "option_runs_no_hash_quadratic_over_budget")
        res["inconc"] += 1
        return res
    ok = judge(res, r, {"where": "option", "flag": picked[0] if len(picked) == 1 else "+".join(sorted(set(picked)))[:80]}, f"main flags {extra} with reader {base}", detail)
    if ok:
        bump(res, "option_ok_exit0" if r.rc == 0 else "option_ok_mlr_error")
    res["sample"] = {"monitor": "option", "argv": argv[:10]}
    return res


# ==========================================================================================
# (t) hostile-argument pools for the function families whose second argument is a little language:
#     time formats, regexes, printf formats, percentile options

TIME_FNS2 = ["strptime", "strpntime", "strftime", "strfntime", "gmt2sec", "gmt2nsec", "sec2date", "dhms2sec", "dhms2fsec", "hms2sec", "hms2fsec"]
TIME_FMTS = ["%Y", "%e %Y", "%d", "%j", "%e", "%m/%d", "%H:%M:%S", "%y%m%d", "%s", "%N", "%1S", "%9S", "%p", "%I %p", "%b %e", "%a", "%Z", "%z", "%%", "%", "%5", "%Q", "%Y-%m-%dT%H:%M:%SZ",
             "%Y %e", "%e%e%e", "% e", "%F %T", "%D", "%c", "%v", "x%ey", "%f", ".%f", "%S.%f", "%1", "%e %", "%E", "%O"]
TIME_INPUTS = ["", "4", "4 ", " 4", "abc", "2023", "12:", "1/", "-", "-007", "20230101", "1 2 3", "31", "366", "Mar 4", "Mar  4", "AM", "12 PM", "+0100", "Z", "%", "1.5", ".", "00", "4 2023x", "2023-01-01T00:00:00Z", "99999999999"]
REGEX_HOSTILE = ['(a)(b)(c)(d)(e)(f)(g)(h)(i)(j)', '(a)(b)(c)(d)(e)(f)(g)(h)(i)(j)(k)(l)', '((((((((((((a))))))))))))', '(a)?(b)?(c)?(d)?(e)?(f)?(g)?(h)?(i)?(j)?(k)?', '"i', '"', '""i', '"a"i', '"(', '(?i', '\\', 'a{2,1}', '[[:alpha:', '(?P<n>a)(?P<n>b)', 'a**', '\\1', '(a)|b', '^*', '$^', '.{0}', '(?:)', 'a|', '|', '\\Q', 'x*?+', '[z-a]']
REGEX_FNS = [("sub", 3), ("gsub", 3), ("regextract", 2), ("regextract_or_else", 3), ("matchx" if False else "strmatchx", 2), ("strmatch", 2), ("splitax", 2), ("any", 0), ("=~", 2), ("!=~", 2)]
PCTL_PS = ["(0.0/0.0)", "(1.0/0.0)", "-(1.0/0.0)", "[25, (0.0/0.0)]", "-0.0", "1e-320", "-1", "0", "50", "100", "150", "1e300", '"x"', "[50]", "[150, -1]", '["x"]', "[]", "{}", "$nosuch", '""']
PCTL_OPTS = ['{"interpolate_linearly": true}', '{"interpolate_linearly": "x"}', '{"output_array_not_map": true}', '{"array_is_final_sorted": true}', '{"oa": true, "il": true}',
             '{"nosuch": 1}', "{}", "3", '{"interpolate_linearly": true, "output_array_not_map": true, "array_is_final_sorted": true}']
PCTL_DATA = ["[1,2,3]", "[]", "[3,1,2]", '["a","b"]', "[1]", '{"a":1,"b":5}', "{}", '[1,"",3]', "[[1],[2]]", "[1.5, 2, -0.0]", "3", '"abc"']


def hostile_pool_calls():
    calls = []
    for fn in TIME_FNS2:
        for f in TIME_FMTS:
            for x in TIME_INPUTS:
                if fn.startswith("strf"):
                    calls.append(f"{fn}({json.dumps(x) if not x.lstrip('-').isdigit() else x}, {json.dumps(f)})")
                elif fn in ("strptime", "strpntime"):
                    calls.append(f"{fn}({json.dumps(x)}, {json.dumps(f)})")
        if fn not in ("strptime", "strpntime", "strftime", "strfntime"):
            for x in TIME_INPUTS:
                calls.append(f"{fn}({json.dumps(x)})")
    for fn in ("strptime_local", "strftime_local"):
        for f in TIME_FMTS[::3]:
            for x in TIME_INPUTS[::3]:
                for tz in ('"Asia/Istanbul"', '"Nowhere/Land"', '""'):
                    calls.append(f"{fn}({json.dumps(x) if fn.startswith('strp') else '0'}, {json.dumps(f)}, {tz})")
    for rx in REGEX_HOSTILE:
        lit = json.dumps(rx)
        for subj in ('"abc"', '""', '"a\\b"', '"abcdefghijkl"'):
            calls += [f"sub({subj}, {lit}, \"x\\1\")", f"gsub({subj}, {lit}, \"\\0\\9\")", f"regextract({subj}, {lit})", f"regextract_or_else({subj}, {lit}, 1)",
                      f"strmatchx({subj}, {lit})", f"strmatch({subj}, {lit})", f"splitax({subj}, {lit})", f"({subj} =~ {lit})", f"({subj} !=~ {lit})",
                      f"matchx({subj}, {lit})" if False else f"ssub({subj}, {lit}, \"y\")", f"unformat({lit}, {subj})", f"format({lit}, {subj})", f"fmtnum(3, {lit})",
                      f"strfind({subj}, {lit})" if False else f"contains({subj}, {lit})", f"index({subj}, {lit})", f"leafcount({lit})", f"latin1_to_utf8({lit})"]
    for d in PCTL_DATA:
        for pp in PCTL_PS:
            calls.append(f"percentile({d}, {pp})")
            calls.append(f"percentiles({d}, {pp})")
            for o in PCTL_OPTS:
                calls.append(f"percentiles({d}, {pp}, {o})")
                calls.append(f"percentile({d}, {pp}, {o})")
        for o in PCTL_OPTS:
            calls.append(f"median({d}, {o})")
        calls += [f"{fn}({d})" for fn in ("sort_collection", "mode", "antimode", "minlen", "maxlen", "kurtosis", "skewness", "meaneb", "variance", "distinct_count", "null_count", "sum2", "sum4", "median")]
    return calls


def pool_case(case):
    calls = case["calls"]
    res = case_result(_h("t", case["idx"]), nontrivial=False)
    res["evals"] = len(calls)
    inp = '{"e":"","n":null}\n'
    start = 0
    guard = 0
    nt = []
    while start < len(calls) and guard < len(calls) + 5:
        guard += 1
        prog = "\n".join(f'print "@{i} " . typeof({calls[i]});' for i in range(start, len(calls)))
        r = R.mlr(["--ijson", "--ojson", "put", "-q", "-f", "prog.mlr"], stdin=inp, files={"prog.mlr": prog}, env=ENV, cpu_s=15, watchdog=60, as_bytes=3 << 30)
        bump(res, "pool_processes")
        done = [int(m) for m in re.findall(r"^@(\d+) ", r.out, re.M)]
        last = max(done) if done else start - 1
        bump(res, "pool_calls_returned", len(done))
        if r.verdict == "exited" and r.rc == 0:
            break
        k = last + 1
        if k >= len(calls):
            break
        txt = calls[k]
        detail = {"argv": ["--ijson", "--ojson", "put", "-q", f"print typeof({txt})"], "stdin": inp, "env": ENV, "call": txt}
        r1 = R.mlr(detail["argv"], stdin=inp, env=ENV, cpu_s=15, watchdog=60, as_bytes=3 << 30)
        fn = re.match(r"\(?\W*(\w+)", txt)
        ok = judge(res, r1, {"where": "builtin-pool", "fn": fn.group(1) if fn else "?"}, f"{txt}", detail)
        if ok and r1.rc == 1:
            bump(res, "pool_calls_fatal_mlr_error")
        start = k + 1
    res["nontrivial_keys"] = [_h("t", c) for c in calls]
    res["sample"] = {"monitor": "hostile-pool", "first": calls[0], "n": len(calls)}
    return res


# ==========================================================================================

def run(chk):
    only = getattr(chk, "only", None)
    q = chk.quick()
    rng = chk.rng("master")
    chk.rule = ("m: every builtin function/operator from `mlr help usage-functions-by-class` at every arity <= 3 x every tuple of the 11 argument kinds "
                "(exhaustive over kinds; one representative value per kind in quick + hostile values of the first kind; 3 values per cell in thorough); "
                "r: grammar-aware mutants (truncate/delete/duplicate/swap delimiters, splice formats, NUL/0xFF/CR bytes, 1 MiB fields, 100000x bracket repeats, "
                "boundary numbers) of valid documents of 16 formats under hostile reader options, written as JSON and as the same format; d: token-level mutants "
                "of ~70 seed programs + ~45 pathological programs (deep nesting, unbounded recursion, hostile arguments); v: verb options with hostile numbers / "
                "regexes / empty lists; o: every main flag from the binary's flag tables with hostile argument values, alone and in random combinations, over valid and mutated documents; t: cross products of hostile time formats x short inputs, hostile regexes x regex functions, percentile arguments x option maps. Non-trivial: matrix cells by (function, kind tuple); mutants that differ from the valid document; every DSL/verb case")
    if not only or "m" in only:
        cases = matrix_cases(chk)
        chk.pmap(matrix_case, cases, label="m builtin x kind matrix")
        chk.exhaustive = True
        chk.extra["exhaustive_scope"] = ("builtin matrix: all kind tuples at arity <= 2 (quick) / <= 3 (thorough); quick covers arity 3 on all (first, second) "
                                         "kind pairs with a rotating third of the third-argument kinds")
    if not only or "r" in only:
        n = 2500 if q else 120000
        fmts = list(READER_OPTS)
        cases = []
        for i in range(n):
            c = {"seed": f"{chk.seed}/r/{i}", "fmt": fmts[i % len(fmts)]}
            if i % 40 == 37:
                c["special"] = ["empty", "seps", "header-only"][(i // 40) % 3]
            cases.append(c)
        k = 0
        for fmt in fmts:
            for how in ("nonexistent", "plain-bytes", "empty", "second-of-two"):
                for zflag in (None, "--gzin", "--zin", "--bz2in", "--zstdin"):
                    if how in ("nonexistent", "second-of-two") and zflag and k % 2:
                        k += 1
                        continue
                    k += 1
                    cases.append({"seed": f"{chk.seed}/ro/{fmt}/{how}/{zflag}", "fmt": fmt, "special": "open-fault", "how": how, "zflag": zflag})
        chk.pmap(reader_case, cases, chunksize=8, label="r reader mutants")
    if not only or "d" in only:
        seeds = load_seed_programs()
        chk.extra["dsl_seed_programs"] = len(seeds)
        n = 1200 if q else 50000
        cases = [{"seed": f"{chk.seed}/d/{i}", "base": seeds[i % len(seeds)]} for i in range(n)]
        for name, prog in pathological_programs():
            cases.append({"seed": f"{chk.seed}/dp/{name}", "prog": prog, "name": name, "argv_carried": name.startswith("tiny-")})
        chk.pmap(dsl_case, cases, chunksize=4, label="d DSL mutants")
    if not only or "v" in only:
        chk.pmap(verb_case, verb_cases(chk), chunksize=4, label="v verb options")
    if not only or "o" in only:
        flags = flag_table()
        chk.extra["main_flags_in_fuzz"] = len(flags)
        cases = []
        # every flag that takes an argument x every hostile value once (focus), plus random combinations
        k = 0
        for nm, nargs in flags:
            if nargs:
                vals = HOSTILE_ARGS if not q else [HOSTILE_ARGS[(k + j * 7) % len(HOSTILE_ARGS)] for j in range(6)] + ["", "abc"]
                for a in vals:
                    cases.append({"seed": f"{chk.seed}/of/{nm}/{a}", "flags": flags, "focus": (nm, nargs), "arg": a})
                k += 1
        for i in range(600 if q else 30000):
            cases.append({"seed": f"{chk.seed}/o/{i}", "flags": flags})
        chk.pmap(option_case, cases, chunksize=8, label="o main-flag fuzz")
    if not only or "t" in only:
        calls = hostile_pool_calls()
        chk.extra["hostile_pool_calls"] = len(calls)
        if q:
            # quick: every call whose argument list holds a non-finite or extreme number, plus a seeded sample of the rest
            must = [c for c in calls if re.search(r"0\.0/0\.0|1\.0/0\.0|1e300|1e-320|-0\.0", c)]
            rest = [c for c in calls if c not in set(must)]
            rng.shuffle(rest)
            calls = must + rest[:max(0, 5000 - len(must))]
            rng.shuffle(calls)
        chunks = [calls[i:i + 60] for i in range(0, len(calls), 60)]
        chk.pmap(pool_case, [{"calls": c, "idx": i} for i, c in enumerate(chunks)], label="t hostile time-format / regex / percentile pools")
    chk.assumptions = [
        "shell-outs are disabled (MLR_NO_SHELL=1); system/exec/os-level and random functions are not in the matrix",
        "an address-space limit (3 GiB for matrix calls, 4 GiB otherwise) and 10-30 CPU-seconds per run: exhausting either on a tiny input is reported as kind=resource",
        "exhaustive: true refers to the kind tuples of the builtin matrix only",
        "a clean `mlr:` error with exit 1 is a pass",
        "programs that do not terminate by their own logic (while(true), recursion without a base case: >90 CPU-seconds and >1 GiB before any stack limit is reached) are user-program non-termination, not generated",
    ]
