"""C14 - put/filter programs mean what the language reference says.

Monitors (DESIGN.md section 3, C14):
  expr     random typed expression trees + every ordered pair of binary operators (and unary/ternary mixes),
           printed with the minimal parentheses the documented precedence table requires, evaluated by the
           reference interpreter on the tree and by `mlr -n put 'end{print ...}'` on the text
  prog     free-form random programs (assignments to every lvalue kind, control flow, functions, subroutines,
           function literals + higher-order functions, maps/arrays, print/dump/emit*/filter, put -q/-x, filter -x)
           on random heterogeneous record streams, at --records-per-batch 1 and default
  astpair  every ordered pair of binary operators (both groupings), unary/binary and ternary mixes, printed with minimal
           parentheses: the syntax tree reported by `put -v` against the documented precedence table (model-free, exhaustive;
           reaches the pairs whose groupings cannot be told apart by value)
  shape    a fixed list of scoping / typing / indexing / emit / loop-snapshot shapes, each instantiated with random leaves
  emitverb emit / emitp by names against the grouping verbs (stats1, count-distinct), no interpreter involved
  canary   indexed assignment to a scalar-valued / unset / absent variable must not change any other value
           (other variables, fresh literals, typeof(@nosuch), typeof(""), 1==1): model-free regression guard
  docs     replay of the recorded executions (GENMD blocks) in the DSL reference pages

The reference interpreter is vf/model/dslref.py (written from the docs, operates on the generator's AST);
generator and pretty-printer are vf/model/dslgen.py.
"""
import hashlib
import json
import os
import random
import re
import shutil

from .. import run as R
from ..harness import add_violation, bump, case_result
from ..model import dslgen as G
from ..model import dslref as D
from ..model import dslshapes as S

BINARIES = ("mlr-verif",)
LEVEL = "exploration"


def _h(*xs):
    return hashlib.sha1(repr(xs).encode()).hexdigest()[:16]


# ==========================================================================================
# running one program on both sides

def json_input(records):
    if not records:
        return "[\n]\n"
    return "[\n" + ",\n".join(json.dumps(r) for r in records) + "\n]\n"


def build_argv(p, text, batch=None, fname="in.json"):
    argv = ["--ijson", "--ojsonl"]
    if batch:
        argv += ["--records-per-batch", str(batch)]
    argv += [p["verb"]] + list(p.get("flags", []))
    for k, v in p.get("presets", []):
        argv += ["-s", "%s=%s" % (k, v)]
    argv += [text, fname]
    return argv


def ref_run(p, records):
    """-> ("ok", items, interp) | ("fatal", reason, interp) | ("decline", reason, None)"""
    try:
        it = D.Interp(p["prog"], verb=p["verb"], quiet="-q" in p.get("flags", []), invert="-x" in p.get("flags", []),
                      presets=p.get("presets", []))
    except D.Decline as e:
        return "decline", str(e), None
    try:
        out = it.run(records)
        return "ok", out, it
    except D.Fatal as e:
        return "fatal", str(e), it
    except D.Decline as e:
        return "decline", str(e), None
    except RecursionError:
        return "decline", "python recursion", None


def mlr_run(p, records, batch=None, style=0):
    text = G.pp_prog(p["prog"], style)
    argv = build_argv(p, text, batch)
    r = R.mlr(argv, files={"in.json": json_input(records)}, watchdog=60.0)
    return r, argv, text


PARSE_ERROR_RE = re.compile(r"parse error|syntax error|cannot parse DSL|unexpected token", re.I)


def judge(kind, exp, r, partial=None):
    """None if mlr's run agrees with the reference outcome, else (failure kind, got-summary).
    partial: for an expected-fatal run, the items the reference had written when the fatal statement was reached."""
    if r.verdict == "slow":
        return ("inconclusive", None)
    if r.verdict in ("deadlock", "cpu", "output-cap"):
        return ("hang:" + r.verdict, r.brief())
    if r.crashed():
        return ("crash", r.brief(1500))
    if kind == "fatal":
        if r.rc in (None, 0):
            return ("expected-failure-but-succeeded", r.brief())
        # the run must fail *at the statement the documentation makes fatal*: every generated program is grammatical, so
        # a parse error is a different failure; and whatever reached stdout before the failure must be what the reference
        # had written by then (output still buffered when the process exits may be missing: a prefix is required)
        if PARSE_ERROR_RE.search(r.err):
            return ("expected-runtime-failure-but-parse-error", r.brief())
        if partial is not None:
            try:
                got = D.parse_stdout(r.out)
            except Exception:
                return None      # cut inside a multi-line value by the exit: nothing to compare
            if got != partial[:len(got)]:
                return ("output-before-failure-differs", {"first_difference": first_diff(partial[:len(got)], got), "stdout": r.out[:3000],
                                                          "stderr": r.err[:400]})
        return None
    if r.rc != 0:
        return ("unexpected-failure", r.brief())
    try:
        got = D.parse_stdout(r.out)
    except Exception as e:   # not parseable as the item stream at all
        return ("unparseable-output", {"error": repr(e), "stdout": r.out[:2000]})
    if got != exp:
        return ("output-differs", {"first_difference": first_diff(exp, got), "stdout": r.out[:3000]})
    return None


def first_diff(exp, got):
    for i in range(max(len(exp), len(got))):
        a = exp[i] if i < len(exp) else None
        b = got[i] if i < len(got) else None
        if a != b:
            return {"index": i, "expected": show_item(a), "got": show_item(b)}
    return None


def uncanon(c):
    t = c[0]
    if t in ("b", "n", "s"):
        return c[1]
    if t == "z":
        return None
    if t == "M":
        return {k: uncanon(v) for k, v in c[1]}
    if t == "A":
        return [uncanon(v) for v in c[1]]
    return repr(c)


def show_item(it):
    if it is None:
        return "(nothing)"
    if it[0] == "j":
        return "JSON " + json.dumps(uncanon(it[1]))
    return "text " + json.dumps(it[1])


def show_items(items, cap=60):
    return [show_item(i) for i in items[:cap]]


CONSTRUCT_RE = re.compile(r"^(assign|opassign|decl|unset|if|cond|while|dowhile|for1|for2|formulti|forc|break|continue|return|call|"
                          r"bare|filter|print|printn|dump|emit1|emitf|emit|begin|end|func|subr|funclit|ucall|lcall|slice|index|tern|posname|posval|fieldx)$")


def constructs(prog):
    out = set()

    def walk(x):
        if isinstance(x, (list, tuple)):
            if G.is_node(x):
                if CONSTRUCT_RE.match(x[0]):
                    out.add(x[0] if x[0] != "emit" else x[1] + ("-lashed" if x[2] else ""))
                if x[0] == "bcall":
                    out.add("fn:" + x[1])
                if x[0] in ("bin", "opassign"):
                    out.add("op:" + x[1])
                if x[0] == "un":
                    out.add("op:u" + x[1])
            for y in x:
                walk(y)
    walk(prog)
    return sorted(out)


def shrink(p, records, batch, style, fail_kind, budget=90, allowed=None, forbid=frozenset()):
    """Greedy shrinking: delete statements / replace subexpressions / drop records while the same kind of
    disagreement persists (and the reference neither declines nor changes its kind of outcome).
    allowed: risk features (Interp.feats) of the original run - a candidate may not bring in a new one (the witness must
    not drift onto another, possibly already listed, defect); forbid: features a candidate must not have."""
    runs = 0
    cur_p, cur_recs = p, records

    def still_fails(pp_, recs):
        nonlocal runs
        try:
            G.pp_prog(pp_["prog"], style)
        except Exception:
            return False
        k, exp, it = ref_run(pp_, recs)
        if k == "decline":
            return False
        if allowed is not None and not (it.feats <= allowed):
            return False
        if it.feats & forbid:
            return False
        runs += 1
        r, argv, text = mlr_run(pp_, recs, batch, style)
        j = judge(k, exp, r, partial_of(k, it))
        return j is not None and j[0] == fail_kind

    # coarse pass: drop chunks of top-level statements (ddmin-style) and of records before the fine-grained pass
    def chunk_pass(items, rebuild):
        nonlocal runs
        n = 2
        while len(items) >= 2 and runs < budget:
            size_ = max(1, len(items) // n)
            removed = False
            for start in range(0, len(items), size_):
                cand = items[:start] + items[start + size_:]
                if not cand or runs >= budget:
                    continue
                if rebuild(cand):
                    items = cand
                    n = max(n - 1, 2)
                    removed = True
                    break
            if not removed:
                if size_ == 1:
                    break
                n = min(len(items), n * 2)
        return items

    def try_recs(c):
        nonlocal cur_recs
        if still_fails(cur_p, c):
            cur_recs = c
            return True
        return False

    def try_prog(c):
        nonlocal cur_p
        cand = dict(cur_p, prog=c)
        if still_fails(cand, cur_recs):
            cur_p = cand
            return True
        return False
    if len(cur_recs) >= 2:
        chunk_pass(list(cur_recs), try_recs)
    if len(cur_p["prog"]) >= 3:
        chunk_pass(list(cur_p["prog"]), try_prog)

    improved = True
    while improved and runs < budget:
        improved = False
        # records first (cheap)
        for i in range(len(cur_recs)):
            cand = cur_recs[:i] + cur_recs[i + 1:]
            if runs >= budget:
                break
            if still_fails(cur_p, cand):
                cur_recs = cand
                improved = True
                break
        if improved:
            continue
        for cand_prog in G.shrink_candidates(cur_p["prog"]):
            if runs >= budget:
                break
            if G.size(cand_prog) >= G.size(cur_p["prog"]):
                continue
            cand = dict(cur_p, prog=cand_prog)
            if still_fails(cand, cur_recs):
                cur_p = cand
                improved = True
                break
    # drop fields of the remaining records
    for ri in range(len(cur_recs)):
        for key in list(cur_recs[ri].keys()):
            if runs >= budget:
                break
            rec2 = {k: v for k, v in cur_recs[ri].items() if k != key}
            cand = cur_recs[:ri] + [rec2] + cur_recs[ri + 1:]
            if still_fails(cur_p, cand):
                cur_recs = cand
    return cur_p, cur_recs


def partial_of(kind, it):
    return list(it.out) if kind == "fatal" and it is not None else None


def check_program(res, p, records, batches=(None,), style=0, monitor="prog", extra_sig=None, do_shrink=True, shrink_budget=90):
    """Run the reference and mlr; record a violation (after shrinking) on disagreement.
    Returns the reference's outcome kind ("ok"/"fatal"/"decline") and the interpreter."""
    kind, exp, it = ref_run(p, records)
    if kind == "decline":
        res["skipped"] += 1
        bump(res, "declined")
        return kind, None
    outcome = kind
    reported = set()
    for batch in batches:
        r, argv, text = mlr_run(p, records, batch, style)
        res["evals"] += 1
        j = judge(kind, exp, r, partial_of(kind, it))
        if j is None:
            if kind == "fatal" and r.out.strip():
                bump(res, "expected_failures_with_output_compared_before_the_failure")
            continue
        if j[0] == "inconclusive":
            res["inconc"] += 1
            continue
        fail_kind = j[0]
        outcome = "violation"
        if fail_kind in reported:
            # the same kind of disagreement at another batch size: one defect, one report; a different kind is reported
            continue
        reported.add(fail_kind)
        sp, srecs = (p, records)
        if do_shrink and not fail_kind.startswith("hang"):
            try:
                sp, srecs = shrink(p, records, batch, style, fail_kind, budget=shrink_budget, allowed=frozenset(it.feats))
                # a witness that carries a risk feature (known findings are matched on those): if the disagreement
                # persists without the feature it is a different defect and must be reported as such
                for f in sorted(ref_run(sp, srecs)[2].feats):
                    sp2, srecs2 = shrink(sp, srecs, batch, style, fail_kind, budget=25, allowed=frozenset(it.feats), forbid=frozenset([f]))
                    if sp2 is not sp or srecs2 is not srecs:
                        sp, srecs = sp2, srecs2
            except Exception:
                sp, srecs = p, records
        k2, exp2, it2 = ref_run(sp, srecs)
        r2, argv2, text2 = mlr_run(sp, srecs, batch, style)
        j2 = judge(k2, exp2, r2, partial_of(k2, it2)) if k2 != "decline" else None
        if j2 is None or k2 == "decline":
            sp, srecs, k2, exp2, it2, r2, argv2, text2, j2 = p, records, kind, exp, it, r, argv, text, j
        feats = sorted(it2.feats) if it2 is not None else []
        sig = {"kind": j2[0], "monitor": monitor, "feats": "+".join(feats), "constructs": "+".join(constructs(sp["prog"]))}
        if extra_sig:
            sig.update(extra_sig)
        what = "%s: %s for program %s" % (monitor, j2[0], " ".join(text2.split())[:300])
        detail = {"argv": argv2, "files": {"in.json": json_input(srecs)}, "program": text2,
                  "expected": ("the run must fail: " + str(exp2)) if k2 == "fatal" else show_items(exp2),
                  "got": j2[1], "reference_outcome": k2, "unshrunk_program": text if sp is not p else None}
        if k2 == "fatal" and it2 is not None:
            detail["expected_output_before_the_failure"] = show_items(list(it2.out))
        add_violation(res, sig, what, detail)
    return outcome, it


def nontrivial(it, exp, records, kind):
    if it is None:
        return False
    st = it.stats
    active = any(k.startswith(("ucall", "lcall", "subr-call", "hof", "for", "while", "dowhile", "emit")) for k in st)
    two_lv = len(set(k.split(":")[0] if not k.startswith("index") else k for k in it.lvkinds)) >= 2
    if not (active or two_lv):
        return False
    if kind == "fatal":
        return True
    if not exp:
        return False
    cat = []
    try:
        cat = [("j", D.canon(r)) for r in records]
    except D.Decline:
        pass
    return exp != cat


def absorb_stats(res, it):
    if it is None:
        return
    for k, v in it.stats.items():
        bump(res, "exec:" + k.split(":")[0] if k.startswith("bcall:") else "exec:" + k, v)
    for k in it.stats:
        if k.startswith("bcall:"):
            res["stats"].setdefault("builtins", set()).add(k[6:])
    for k in it.lvkinds:
        res["stats"].setdefault("lvalue_kinds", set()).add(k)


# ==========================================================================================
# monitor: free-form programs

def prog_case(case):
    rng = random.Random(case["seed"])
    res = case_result(_h("prog", case["seed"]), nontrivial=False, evals=0)
    # generate until the reference accepts the program on both inputs
    for attempt in range(40):
        p = G.gen_freeform(rng)
        recs1 = p.pop("records")
        recs2 = G.gen_records(rng)
        k1 = ref_run(p, recs1)[0]
        k2 = ref_run(p, recs2)[0]
        if k1 != "decline" and k2 != "decline":
            break
        bump(res, "generation_declines")
    else:
        res["skipped"] += 1
        return res
    style = rng.choice([0, 2, 4, 8, 12, 14])
    nt = False
    for recs, batches in ((recs1, (1, None)), (recs2, (None,))):
        kind, it = check_program(res, p, recs, batches=batches, style=style, monitor="prog")
        if kind in ("ok", "fatal"):
            _, exp, _ = ref_run(p, recs)
            if nontrivial(it, exp if kind == "ok" else None, recs, kind):
                nt = True
            absorb_stats(res, it)
            bump(res, "programs_run_" + kind)
    res["nontrivial"] = nt
    if case.get("sample"):
        res["sample"] = {"monitor": "prog", "argv": build_argv(p, G.pp_prog(p["prog"], style)), "records": recs1[:3]}
    return res


# ==========================================================================================
# monitor: expressions and precedence pairs

EXPR_PRELUDE = [
    ("assign", ("local", "i0"), ("int", 7)), ("assign", ("local", "i1"), ("int", 12)), ("assign", ("local", "i2"), ("un", "-", ("int", 5))),
    ("assign", ("local", "s0"), ("str", "pan")), ("assign", ("local", "s1"), ("str", "ab")),
    ("assign", ("local", "b0"), ("bool", True)), ("assign", ("local", "b1"), ("bool", False)),
    ("assign", ("local", "m0"), ("map", [(("str", "pan"), ("int", 1)), (("str", "eks"), ("map", [(("str", "k"), ("int", 5))])), (("int", 3), ("str", "q"))])),
    ("assign", ("local", "m1"), ("map", [(("str", "wye"), ("int", 9))])),
    ("assign", ("local", "a0"), ("arr", [("int", 4), ("int", 1), ("int", 9), ("int", 3)])),
    ("assign", ("local", "a1"), ("arr", [("str", "u"), ("int", 2), ("arr", [("int", 1)])])),
    ("assign", ("oos", "ci0"), ("int", 3)), ("assign", ("oos", "cs0"), ("str", "zee")),
    ("assign", ("oos", "cm0"), ("map", [(("str", "pan"), ("map", [(("str", "x"), ("int", 1))]))])),
    ("assign", ("oos", "ca0"), ("arr", [("int", 10), ("int", 20), ("int", 30)])),
]
EXPR_ASSIGNED = {"i0", "i1", "i2", "s0", "s1", "b0", "b1", "m0", "m1", "a0", "a1", "@ci0", "@cs0", "@cm0", "@ca0"}


def eval_expr_ref(e):
    prog = [("end", EXPR_PRELUDE + [("print", [e]), ("print", [("bcall", "typeof", [e])])])]
    try:
        it = D.Interp(prog)
        return it.run([]), it
    except (D.Decline, D.Fatal):
        return None, None
    except RecursionError:
        return None, None


LEAVES_BY_TYPE = {
    "int": [("int", 2), ("int", 3), ("int", 5), ("int", 1), ("int", 0), ("int", 12), ("local", "i0"), ("local", "i2"), ("int", 40), ("int", 7)],
    "str": [("str", "ab"), ("str", "b"), ("local", "s0"), ("str", "pan"), ("str", "10"), ("str", "9")],
    "bool": [("bool", True), ("bool", False), ("local", "b0"), ("local", "b1")],
    "absent": [("oos", "nosuch")],
    "empty": [("str", "")],
}


ARITH = ["+", "-", "*", "/", "//", "%", "**", "&", "|", "^", "<<", ">>", ">>>"]


def op_sigs(op):
    """(left type, right type, result type) combinations on which the documentation defines the operator."""
    if op in ARITH:
        return [("int", "int", "int")]
    if op == ".":
        return [("str", "str", "str"), ("int", "int", "str"), ("str", "int", "str"), ("int", "str", "str")]
    if op in ("<", "<=", ">", ">=", "==", "!="):
        return [("int", "int", "bool"), ("str", "str", "bool"), ("int", "str", "bool")] + ([("bool", "bool", "bool")] if op in ("==", "!=") else [])
    if op == "<=>":
        return [("int", "int", "int"), ("str", "str", "int")]
    if op in ("=~", "!=~"):
        return [("str", "re", "bool")]
    if op in ("&&", "||", "^^"):
        return [("bool", "bool", "bool")]
    if op in ("??", "???"):
        out = []
        for t in ("int", "str", "bool"):
            out += [("absent", t, t), (t, t, t), ("absent", "absent", "absent")]
        if op == "???":
            out += [("empty", "int", "int"), ("empty", "str", "str")]
        return out
    raise ValueError(op)


def _compat(res, want):
    return res == want or (want == "re" and res == "str")


def _leaf(rng, t):
    if t == "re":
        return ("str", rng.choice(G.REGEXES + ["a", "b$", "^ab"]))
    return rng.choice(LEAVES_BY_TYPE[t])


def pair_exprs(rng, per_pair):
    """For every ordered pair (op1, op2) of binary operators: trees (a op1 b) op2 c and a op1 (b op2 c), with leaf types
    chosen from the operators' documented signatures so that the tree has a defined value; a pair is testable as soon as one
    grouping has a defined value, because under the other grouping the same text gives a different value or an error."""
    out = []
    untestable = []
    ops = list(G.BINOPS)
    for op1 in ops:
        for op2 in ops:
            found = 0
            for shape in (0, 1):
                combos = []
                for s1 in op_sigs(op1):
                    for s2 in op_sigs(op2):
                        if shape == 0 and _compat(s1[2], s2[0]):
                            combos.append((s1[0], s1[1], s2[1]))      # (a op1 b) op2 c
                        if shape == 1 and _compat(s2[2], s1[1]):
                            combos.append((s1[0], s2[0], s2[1]))      # a op1 (b op2 c)
                got_this_shape = 0
                if not combos:
                    continue
                for attempt in range(80):
                    tys = rng.choice(combos)
                    a, b, c = [_leaf(rng, t) for t in tys]
                    e = ("bin", op2, ("bin", op1, a, b), c) if shape == 0 else ("bin", op1, a, ("bin", op2, b, c))
                    exp, it = eval_expr_ref(e)
                    if exp is None:
                        continue
                    # prefer trees whose two groupings differ in value (otherwise the pair says nothing)
                    alt = ("bin", op1, a, ("bin", op2, b, c)) if shape == 0 else ("bin", op2, ("bin", op1, a, b), c)
                    aexp, _ = eval_expr_ref(alt)
                    if aexp == exp and attempt < 60:
                        continue
                    out.append((e, exp, "pair:%s:%s:%d" % (op1, op2, shape), aexp != exp))
                    got_this_shape += 1
                    found += 1
                    if got_this_shape >= per_pair:
                        break
            if not found:
                untestable.append((op1, op2))
    # unary / binary and ternary mixes
    for u in ["-", "+", "~", "!"]:
        for op in ops:
            for shape in (0, 1, 2):
                for attempt in range(40):
                    tys = [rng.choice(["int", "int", "bool", "str"]) for _ in range(2)]
                    a, b = [rng.choice(LEAVES_BY_TYPE[t]) for t in tys]
                    if shape == 0:
                        e = ("bin", op, ("un", u, a), b)       # (-a) op b
                    elif shape == 1:
                        e = ("un", u, ("bin", op, a, b))       # -(a op b)
                    else:
                        e = ("bin", op, a, ("un", u, b))       # a op (-b)
                    exp, it = eval_expr_ref(e)
                    if exp is None:
                        continue
                    out.append((e, exp, "unary:%s:%s:%d" % (u, op, shape), True))
                    break
    for op in ops:
        for shape in (0, 1, 2, 3):
            for attempt in range(40):
                tys = [rng.choice(["int", "int", "bool", "str"]) for _ in range(4)]
                a, b, c, d = [rng.choice(LEAVES_BY_TYPE[t]) for t in tys]
                if shape == 0:
                    e = ("tern", ("bin", op, a, b), c, d)
                elif shape == 1:
                    e = ("tern", ("bool", rng.random() < 0.5), ("bin", op, a, b), c)
                elif shape == 2:
                    e = ("tern", ("bool", rng.random() < 0.5), a, ("bin", op, b, c))
                else:
                    e = ("bin", op, ("tern", ("bool", rng.random() < 0.5), a, b), c)
                exp, it = eval_expr_ref(e)
                if exp is None:
                    continue
                out.append((e, exp, "ternary:%s:%d" % (op, shape), True))
                break
    # nested ternaries (right-associative)
    for attempt in range(12):
        bs = [("bool", rng.random() < 0.5) for _ in range(2)]
        xs = [("int", rng.randint(0, 9)) for _ in range(3)]
        for e in (("tern", bs[0], xs[0], ("tern", bs[1], xs[1], xs[2])), ("tern", ("tern", bs[0], bs[1], bs[0]), xs[0], xs[1]),
                  ("tern", bs[0], ("tern", bs[1], xs[0], xs[1]), xs[2])):
            exp, it = eval_expr_ref(e)
            if exp is not None:
                out.append((e, exp, "ternary:nest", True))
    return out, untestable


def expr_batch_case(case):
    """case: {"exprs": [(expr, expected items, label)], "style": n}"""
    res = case_result(_h("expr", case["id"]), nontrivial=True, evals=0)
    exprs = case["exprs"]
    style = case["style"]
    stmts = list(EXPR_PRELUDE)
    exp_all = []
    for e, exp, label in exprs:
        stmts.append(("print", [e]))
        stmts.append(("print", [("bcall", "typeof", [e])]))
        exp_all.extend(exp)
    text = G.pp_prog([("end", stmts)], style)
    r = R.mlr(["-n", "--ojsonl", "put", text])
    res["evals"] += 1
    ok = False
    if r.ok:
        try:
            ok = (D.parse_stdout(r.out) == exp_all)
        except Exception:
            ok = False
    if not ok and r.verdict == "slow":
        res["inconc"] += 1
        return res
    nk = []
    n_viol_before, n_inconc_before = len(res["viol"]), res["inconc"]
    if ok:
        for e, exp, label in exprs:
            nk.append(_h("e", G.pp(e)))
        res["nontrivial_keys"] = nk
        bump(res, "expressions_checked", len(exprs))
        res["stats"].setdefault("pairs_checked", set()).update(l for _, _, l in exprs if l.startswith(("pair:", "unary:", "ternary:")))
        return res
    # locate the culprit(s) one by one
    for e, exp, label in exprs:
        prog = [("end", EXPR_PRELUDE + [("print", [e]), ("print", [("bcall", "typeof", [e])])])]
        p = {"prog": prog, "verb": "put", "flags": [], "presets": []}
        t = G.pp_prog(prog, style)
        q = R.mlr(["-n", "--ojsonl", "put", t])
        res["evals"] += 1
        j = judge("ok", exp, q)
        if j is None:
            nk.append(_h("e", G.pp(e)))
            bump(res, "expressions_checked")
            continue
        if j[0] == "inconclusive":
            res["inconc"] += 1
            continue
        # shrink the expression itself
        cur = e
        improved = True
        runs = 0
        while improved and runs < 120:
            improved = False
            for cand_stmt in G.shrink_candidates([("print", [cur])]):
                if not cand_stmt or cand_stmt[0][0] != "print" or len(cand_stmt[0][1]) != 1:
                    continue
                ce = cand_stmt[0][1][0]
                if G.size(ce) >= G.size(cur):
                    continue
                cexp, cit = eval_expr_ref(ce)
                if cexp is None:
                    continue
                ct = G.pp_prog([("end", EXPR_PRELUDE + [("print", [ce]), ("print", [("bcall", "typeof", [ce])])])], style)
                cq = R.mlr(["-n", "--ojsonl", "put", ct])
                runs += 1
                cj = judge("ok", cexp, cq)
                if cj is not None and cj[0] == j[0]:
                    cur, exp, q, j, t = ce, cexp, cq, cj, ct
                    improved = True
                    break
        _, it = eval_expr_ref(cur)
        feats = sorted(it.feats) if it else []
        ops = sorted(set(c for c in constructs([("print", [cur])]) if c.startswith(("op:", "fn:"))))
        sig = {"kind": j[0], "monitor": "expr", "feats": "+".join(feats), "constructs": "+".join(ops)}
        add_violation(res, sig, "expr: %s for expression %s" % (j[0], G.pp(cur, style)),
                      {"argv": ["-n", "--ojsonl", "put", t], "stdin": "", "expression": G.pp(cur, style), "label": label,
                       "expected": show_items(exp), "got": j[1]})
    if len(res["viol"]) == n_viol_before and res["inconc"] == n_inconc_before:
        # every expression is right on its own but the block of all of them is not: a state-dependent fault (something
        # not reset between statements).  Narrow the block down to a minimal failing run of consecutive expressions.
        batch_only(res, exprs, style, r)
    res["nontrivial_keys"] = nk
    return res


def _run_expr_block(res, exprs, style):
    """-> (judgement or None, text, Result) for one end-block that prints the given expressions after the prelude."""
    stmts = list(EXPR_PRELUDE)
    exp_all = []
    for e, exp, label in exprs:
        stmts.append(("print", [e]))
        stmts.append(("print", [("bcall", "typeof", [e])]))
        exp_all.extend(exp)
    text = G.pp_prog([("end", stmts)], style)
    r = R.mlr(["-n", "--ojsonl", "put", text])
    res["evals"] += 1
    return judge("ok", exp_all, r), text, r, exp_all


def batch_only(res, exprs, style, r0):
    lo, hi = 0, len(exprs)          # exprs[lo:hi] fails as a block
    j, text, r, exp_all = _run_expr_block(res, exprs, style)
    if j is None:
        # not even the same block fails a second time: a run-to-run difference, which a pure program must not show
        add_violation(res, {"kind": "batch-not-reproducible", "monitor": "expr", "feats": "", "constructs": ""},
                      "expr: a block of %d print statements gave a wrong result once and the expected one on re-run" % len(exprs),
                      {"argv": ["-n", "--ojsonl", "put", text], "stdin": "", "expected": show_items(exp_all), "got": r0.brief(3000)})
        return
    if j[0] == "inconclusive":
        res["inconc"] += 1
        return
    # shortest failing prefix, then shortest failing suffix of it (greedy halving; the failure need not be monotone,
    # every accepted step is re-checked by an actual run)
    changed = True
    while changed and hi - lo > 1:
        changed = False
        for cand in ((lo, lo + (hi - lo + 1) // 2), (lo + (hi - lo) // 2, hi), (lo, hi - 1), (lo + 1, hi)):
            if cand[1] - cand[0] < 1 or cand == (lo, hi):
                continue
            cj, ct, cr, ce = _run_expr_block(res, exprs[cand[0]:cand[1]], style)
            if cj is not None and cj[0] == j[0]:
                lo, hi = cand
                j, text, r, exp_all = cj, ct, cr, ce
                changed = True
                break
    add_violation(res, {"kind": "batch-only", "monitor": "expr", "failure": j[0], "feats": "", "constructs": ""},
                  "expr: %s only when %d expressions are printed in one block (each is right alone): %s"
                  % (j[0], hi - lo, "; ".join(G.pp(e, style) for e, _, _ in exprs[lo:hi])[:300]),
                  {"argv": ["-n", "--ojsonl", "put", text], "stdin": "", "expressions": [G.pp(e, style) for e, _, _ in exprs[lo:hi]],
                   "expected": show_items(exp_all), "got": j[1]})


def expr_cases(chk):
    rng = chk.rng("expr")
    q = chk.quick()
    exprs = []
    # (1) all ordered operator pairs + unary/ternary mixes
    pairs, untestable = pair_exprs(rng, 1 if q else 3)
    npairs_distinguishing = sum(1 for p in pairs if p[3])
    for e, exp, label, _ in pairs:
        exprs.append((e, exp, label))
    chk.extra["operator_pairs_total"] = len(G.BINOPS) ** 2
    chk.extra["operator_pairs_untestable_in_value_domain"] = ["%s %s" % u for u in untestable]
    chk.extra["pair_trees_generated"] = len(pairs)
    chk.extra["pair_trees_whose_groupings_differ"] = npairs_distinguishing
    # (2) random typed trees
    n_random = 1500 if q else 30000
    g = G.G(rng, in_main=False)
    g.assigned = set(EXPR_ASSIGNED)
    tries = 0
    kept = 0
    while kept < n_random and tries < n_random * 3:
        tries += 1
        ty = rng.choice(["int", "int", "int", "str", "bool", "bool", "map", "arr"])
        e = g.expr(ty, rng.choice([1, 2, 3, 3, 4, 5]))
        exp, it = eval_expr_ref(e)
        if exp is None:
            continue
        if it.feats & {"mod-exact-multiple-negative-dividend"} and rng.random() < 0.9:
            # keep only a few instances of an already-characterised defect in the random stream
            continue
        exprs.append((e, exp, "random"))
        kept += 1
    chk.extra["random_expressions"] = kept
    chk.extra["random_expression_generation_declines"] = tries - kept
    cases = []
    B = 40
    for i in range(0, len(exprs), B):
        cases.append({"id": "%s/%d" % (chk.seed, i), "exprs": exprs[i:i + B], "style": rng.choice([0, 2])})
    return cases


# ==========================================================================================
# monitor: grouping of every ordered operator pair as the parser itself reports it (`put -v` prints the syntax tree).
# Model-free and exhaustive: covers the pairs whose two groupings cannot be told apart by value (a logical operator next
# to an arithmetic one, =~ next to nearly everything, chains of comparisons); the leaves are local-variable names, the
# statements are in the main block of `mlr -n`, so nothing is evaluated.

def ast_tree_from_pp(e):
    k = e[0]
    if k == "local":
        return e[1]
    if k == "bin":
        return (e[1], ast_tree_from_pp(e[2]), ast_tree_from_pp(e[3]))
    if k == "un":
        return (e[1], ast_tree_from_pp(e[2]))
    if k == "tern":
        return ("?", ast_tree_from_pp(e[1]), ast_tree_from_pp(e[2]), ast_tree_from_pp(e[3]))
    raise ValueError(k)


_AST_LINE = re.compile(r'^( *)"(.*)" \[tt:([^\]]*)\] \[nt:([^\]]*)\]$')


def parse_ast_dump(text):
    """-> list of expression trees, one per assignment `x = <expr>` in the printed syntax tree."""
    lines = text.split("\n")
    try:
        start = lines.index("AST:") + 1
    except ValueError:
        raise ValueError("no AST section")
    nodes = []       # (depth, text, nt)
    for ln in lines[start:]:
        if not ln.strip():
            break
        m = _AST_LINE.match(ln)
        if not m:
            raise ValueError("unparseable AST line %r" % ln)
        nodes.append((len(m.group(1)) // 4, m.group(2), m.group(4)))
    pos = [0]

    def build():
        d, t, nt = nodes[pos[0]]
        pos[0] += 1
        kids = []
        while pos[0] < len(nodes) and nodes[pos[0]][0] > d:
            if nodes[pos[0]][0] != d + 1:
                raise ValueError("indentation jump")
            kids.append(build())
        return (t, nt, kids)
    root = build()
    out = []

    def conv(n):
        t, nt, kids = n
        if nt == "Parenthesized" and len(kids) == 1:     # explicit parentheses are kept as a one-child wrapper node
            return conv(kids[0])
        if not kids:
            return t
        return (t,) + tuple(conv(k) for k in kids)

    def walk(n):
        t, nt, kids = n
        if nt == "Assignment":
            out.append(conv(kids[1]))
            return
        for k in kids:
            walk(k)
    walk(root)
    return out


def astpair_items():
    """(label, expression AST) for every ordered pair of binary operators, every unary/binary mix and the ternary mixes:
    the printer of dslgen emits the text with the minimal parentheses of the documented table, both groupings."""
    a, b, c, d = ("local", "a"), ("local", "b"), ("local", "c"), ("local", "d")
    items = []
    for op1 in G.BINOPS:
        for op2 in G.BINOPS:
            # text `a op1 b op2 c` (no parentheses) must parse as the grouping the table gives; which of the two trees
            # prints without parentheses is decided by the printer, the other one checks that parentheses are honoured
            items.append(("pair:%s:%s:L" % (op1, op2), ("bin", op2, ("bin", op1, a, b), c)))
            items.append(("pair:%s:%s:R" % (op1, op2), ("bin", op1, a, ("bin", op2, b, c))))
    for u in ["-", "+", "~", "!"]:
        for op in G.BINOPS:
            items.append(("unary:%s:%s:0" % (u, op), ("bin", op, ("un", u, a), b)))
            items.append(("unary:%s:%s:1" % (u, op), ("un", u, ("bin", op, a, b))))
            items.append(("unary:%s:%s:2" % (u, op), ("bin", op, a, ("un", u, b))))
        for u2 in ["-", "!", "~"]:
            items.append(("unary:%s:%s" % (u, u2), ("un", u, ("un", u2, a))))
    for op in G.BINOPS:
        items.append(("ternary:%s:0" % op, ("tern", ("bin", op, a, b), c, d)))
        items.append(("ternary:%s:1" % op, ("tern", a, ("bin", op, b, c), d)))
        items.append(("ternary:%s:2" % op, ("tern", a, b, ("bin", op, c, d))))
        items.append(("ternary:%s:3" % op, ("bin", op, ("tern", a, b, c), d)))
        items.append(("ternary:%s:4" % op, ("bin", op, a, ("tern", b, c, d))))
    items.append(("ternary:nest:0", ("tern", a, b, ("tern", c, d, a))))
    items.append(("ternary:nest:1", ("tern", ("tern", a, b, c), d, a)))
    items.append(("ternary:nest:2", ("tern", a, ("tern", b, c, d), a)))
    return items


def astpair_case(case):
    res = case_result(_h("astpair", case["id"]), nontrivial=True, evals=0)
    items = case["items"]
    style = case["style"]
    texts = [G.pp(e, style) for _, e in items]
    prog = "\n".join("x = %s;" % t for t in texts)
    argv = ["-n", "put", "-v", prog]
    r = R.mlr(argv)
    res["evals"] += 1
    if r.verdict == "slow":
        res["inconc"] += 1
        return res
    sig0 = {"monitor": "astpair", "feats": "", "constructs": ""}
    trees = None
    if r.ok:
        try:
            trees = parse_ast_dump(r.out)
        except Exception as e:
            trees = None
    if trees is None or len(trees) != len(items):
        # locate the statements the parser rejects (each alone)
        bad = 0
        for (label, e), t in zip(items, texts):
            q = R.mlr(["-n", "put", "-v", "x = %s;" % t])
            res["evals"] += 1
            ok1 = False
            if q.ok:
                try:
                    ok1 = len(parse_ast_dump(q.out)) == 1
                except Exception:
                    ok1 = False
            if not ok1:
                bad += 1
                add_violation(res, dict(sig0, kind="grammatical-expression-rejected", pair=label.rsplit(":", 1)[0] if label.startswith("pair:") else label),
                              "astpair: `x = %s` is not accepted / not printed by put -v" % t,
                              {"argv": ["-n", "put", "-v", "x = %s;" % t], "stdin": "", "expected": "a syntax tree", "got": q.brief(800)})
        if not bad:
            add_violation(res, dict(sig0, kind="batch-only"), "astpair: a block of %d assignments fails to parse / print although each does alone" % len(items),
                          {"argv": argv, "stdin": "", "expected": "%d syntax trees" % len(items), "got": r.brief(1500)})
        return res
    nk = []
    for (label, e), t, got in zip(items, texts, trees):
        want = ast_tree_from_pp(e)
        if got != want:
            add_violation(res, dict(sig0, kind="ast-grouping", pair=label.rsplit(":", 1)[0] if label.startswith("pair:") else label),
                          "astpair: `%s` is parsed as %s, the precedence table requires %s" % (t, _show_tree(got), _show_tree(want)),
                          {"argv": ["-n", "put", "-v", "x = %s;" % t], "stdin": "", "text": t, "expected": _show_tree(want), "got": _show_tree(got)})
        else:
            nk.append(_h("astpair", label, t))
    res["nontrivial_keys"] = nk
    bump(res, "astpair_statements_checked", len(nk))
    res["stats"].setdefault("ast_pairs_checked", set()).update(l.rsplit(":", 1)[0] for l, _ in items if l.startswith("pair:"))
    return res


def _show_tree(t):
    if isinstance(t, str):
        return t
    if len(t) == 2:
        return "(%s %s)" % (t[0], _show_tree(t[1]))
    if len(t) == 3:
        return "(%s %s %s)" % (_show_tree(t[1]), t[0], _show_tree(t[2]))
    return "(%s ? %s : %s)" % tuple(_show_tree(x) for x in t[1:4])


# ==========================================================================================
# monitor: shapes

def shape_case(case):
    rng = random.Random(case["seed"])
    name = case["shape"]
    res = case_result(_h("shape", name, case["seed"]), nontrivial=False, evals=0)
    fn = S.SHAPES[name]
    for attempt in range(12):
        inst = fn(rng)
        kinds = [ref_run(p, recs)[0] if not p.get("chain") else "ok" for p, recs in inst["runs"]]
        if "decline" not in kinds:
            break
        bump(res, "generation_declines")
    else:
        res["skipped"] += 1
        bump(res, "shape_always_declined:" + name)
        return res
    style = rng.choice([0, 4, 8])
    nt = False
    for p, recs in inst["runs"]:
        if p.get("chain"):
            kind, it = check_chain(res, p, recs, name)
        else:
            kind, it = check_program(res, p, recs, batches=(1, None) if rng.random() < 0.5 else (None,), style=style,
                                     monitor="shape", extra_sig={"shape": name}, shrink_budget=45)     # shape programs are small already
        if kind in ("ok", "fatal"):
            nt = True
            absorb_stats(res, it)
            bump(res, "shape_runs_" + kind)
            res["stats"].setdefault("shapes_held", set()).add(name)
    res["nontrivial"] = nt
    if case.get("sample"):
        p, recs = inst["runs"][0]
        res["sample"] = {"monitor": "shape", "shape": name, "program": G.pp_prog(p["prog"], style) if not p.get("chain") else [G.pp_prog(x["prog"]) for x in p["chain"]]}
    return res


def check_chain(res, p, records, name):
    """p = {"chain": [prog1, prog2]}: `put P1 then put P2`; oosvars are private to each put.  The model runs the two
    interpreters one after the other (P1 here never prints or emits, so the streams do not interleave)."""
    progs = p["chain"]
    k1, out1, it1 = ref_run(progs[0], records)
    if k1 != "ok":
        res["skipped"] += 1
        return "decline", None
    mid = [D_uncanon_record(i) for i in out1 if i[0] == "j"]
    if len(mid) != len(out1):
        res["skipped"] += 1
        return "decline", None
    k2, out2, it2 = ref_run(progs[1], mid)
    if k2 != "ok":
        res["skipped"] += 1
        return "decline", None
    t1, t2 = G.pp_prog(progs[0]["prog"]), G.pp_prog(progs[1]["prog"])
    argv = ["--ijson", "--ojsonl", progs[0].get("verb", "put")] + progs[0].get("flags", []) + [t1, "then", progs[1].get("verb", "put")] + progs[1].get("flags", []) + [t2, "in.json"]
    r = R.mlr(argv, files={"in.json": json_input(records)})
    res["evals"] += 1
    j = judge("ok", out2, r)
    if j is None:
        return "ok", it2
    if j[0] == "inconclusive":
        res["inconc"] += 1
        return "inconc", None
    add_violation(res, {"kind": j[0], "monitor": "shape", "shape": name, "feats": "", "constructs": "chain"},
                  "shape %s: %s for %s '%s' then %s '%s'" % (name, j[0], progs[0].get("verb", "put"), " ".join(t1.split())[:150], progs[1].get("verb", "put"), " ".join(t2.split())[:150]),
                  {"argv": argv, "files": {"in.json": json_input(records)}, "expected": show_items(out2), "got": j[1]})
    return "violation", it2


def D_uncanon_record(item):
    return uncanon(item[1])


# ==========================================================================================
# monitor: emit vs grouping verbs (no interpreter)

def _pairs_to_dict(rec):
    return {k: v for k, v in rec}


def _parse_jsonl(text):
    out = []
    dec = json.JSONDecoder(object_pairs_hook=lambda p: p)
    for line in text.splitlines():
        line = line.strip()
        if not line:
            continue
        out.append(dec.decode(line))
    return out


def _nested_order(rows, keys):
    """Rows in first-appearance order of the key tuple (as a grouping verb emits them) -> the order in which a
    nested map keyed level by level is traversed (outer key first appearance, then inner)."""
    if not keys:
        return rows
    groups = {}
    for r in rows:
        groups.setdefault(dict(r)[keys[0]], []).append(r)
    out = []
    for g in groups.values():
        out.extend(_nested_order(g, keys[1:]))
    return out


def emitverb_case(case):
    rng = random.Random(case["seed"])
    res = case_result(_h("emitverb", case["seed"]), nontrivial=False, evals=0)
    n = rng.choice([1, 2, 3, 5, 8, 13, 30, 80])
    pool_a = G.KEY_POOL[:rng.choice([1, 2, 3, 5])]
    pool_b = G.KEY_POOL[:rng.choice([1, 2, 4])]
    pool_c = ["u", "v"]
    recs = []
    for k in range(n):
        r = {}
        if rng.random() > 0.08:
            r["a"] = rng.choice(pool_a)
        if rng.random() > 0.08:
            r["b"] = rng.choice(pool_b)
        if rng.random() > 0.5:
            r["c"] = rng.choice(pool_c)
        r["i"] = k + 1
        r["x"] = rng.randint(-50, 500)     # the aggregated fields are always present: a group whose records all lack the
        r["y"] = rng.randint(0, 9)         # value field is listed (keys only) by stats1 but never created by `@sum[..] += $x`
        recs.append(r)
    depth = rng.choice([1, 2, 2, 3])
    gkeys = ["a", "b", "c"][:depth]
    variant = case["variant"]
    idx = "".join("[$%s]" % k for k in gkeys)
    names = ", ".join('"%s"' % k for k in gkeys)
    files = {"in.json": json_input(recs)}
    base = ["--ijson", "--ojsonl"]
    fld = rng.choice(["x", "y"])

    def run(argv):
        r = R.mlr(base + argv + ["in.json"], files=files)
        res["evals"] += 1
        return r

    def fail(what, a1, r1, a2, r2, expected, got):
        add_violation(res, {"kind": "emit-vs-verb", "monitor": "emitverb", "variant": variant, "depth": depth},
                      "emitverb %s: %s" % (variant, what),
                      {"argv": base + a1 + ["in.json"], "verb_argv": base + a2 + ["in.json"], "files": files,
                       "expected": expected[:40], "got": got[:40], "stderr": r1.err[:400] + r2.err[:400]})

    if variant == "sum":
        a1 = ["put", "-q", "@sum%s += $%s; end{emit @sum, %s}" % (idx, fld, names)]
        a2 = ["stats1", "-a", "sum", "-f", fld, "-g", ",".join(gkeys), "then", "rename", "%s_sum,sum" % fld]
    elif variant == "count_sum_lashed":
        a1 = ["put", "-q", "is_present($%s) {@count%s += 1; @sum%s += $%s} end{emit (@count, @sum), %s}" % (fld, idx, idx, fld, names)]
        a2 = ["stats1", "-a", "count,sum", "-f", fld, "-g", ",".join(gkeys), "then", "rename", "%s_count,count,%s_sum,sum" % (fld, fld)]
    elif variant == "emitp_full":
        a1 = ["put", "-q", "@sum%s += $%s; end{emitp @sum, %s}" % (idx, fld, names)]
        a2 = ["stats1", "-a", "sum", "-f", fld, "-g", ",".join(gkeys), "then", "rename", "%s_sum,sum" % fld]
    elif variant == "emitp_lashed":
        a1 = ["put", "-q", "is_present($%s) {@count%s += 1; @sum%s += $%s} end{emitp (@count, @sum), %s}" % (fld, idx, idx, fld, names)]
        a2 = ["stats1", "-a", "count,sum", "-f", fld, "-g", ",".join(gkeys), "then", "rename", "%s_count,count,%s_sum,sum" % (fld, fld)]
    elif variant == "count_distinct":
        a1 = ["put", "-q", "@count%s += 1; end{emit @count, %s}" % (idx, names)]
        a2 = ["count-distinct", "-f", ",".join(gkeys)]
    elif variant in ("partial_emit", "partial_emitp"):
        if depth < 2:
            depth = 2
            gkeys = ["a", "b"]
            idx = "[$a][$b]"
        names1 = ", ".join('"%s"' % k for k in gkeys[:-1])
        kw = "emit" if variant == "partial_emit" else "emitp"
        a1 = ["put", "-q", "@sum%s += $%s; end{%s @sum, %s}" % (idx, fld, kw, names1)]
        a2 = ["stats1", "-a", "sum", "-f", fld, "-g", ",".join(gkeys)]
        if depth == 3 and variant == "partial_emit":
            # emit with two names and one remaining level: the prose and the recorded example of the reference disagree
            res["skipped"] += 1
            return res
    else:
        raise ValueError(variant)
    r1 = run(a1)
    r2 = run(a2)
    if r1.verdict == "slow" or r2.verdict == "slow":
        res["inconc"] += 1
        return res
    if not (r1.ok and r2.ok):
        fail("a run failed", a1, r1, a2, r2, [r2.brief()], [r1.brief()])
        return res
    got = _parse_jsonl(r1.out)
    verb = _parse_jsonl(r2.out)
    # the grouping verb lists groups in first-appearance order of the key tuple; the nested map is traversed level by level
    verb = _nested_order(verb, gkeys)
    if variant in ("partial_emit", "partial_emitp"):
        outer = gkeys[:-1]
        last = gkeys[-1]
        exp = []
        groups = {}
        for r in verb:
            d = dict(r)
            groups.setdefault(tuple(d[k] for k in outer), []).append(d)
        for ok, rows in groups.items():
            rec = [(k, v) for k, v in zip(outer, ok)]
            if variant == "partial_emit":
                rec += [(str(d[last]), d[fld + "_sum"]) for d in rows]
            else:
                rec += [("sum", [(str(d[last]), d[fld + "_sum"]) for d in rows])]
            exp.append(rec)
        got_n = [_norm_keys(r) for r in got]
        exp_n = [_norm_keys(r) for r in exp]
    else:
        got_n = [_norm_keys(r) for r in got]
        exp_n = [_norm_keys(r) for r in verb]
    if got_n != exp_n:
        fail("emitted records differ from the grouping verb's", a1, r1, a2, r2, exp_n, got_n)
    else:
        res["nontrivial"] = len(got_n) >= 2
        bump(res, "emitverb_" + variant)
    return res


def _norm_keys(rec):
    """Group-key values pass through map keys in the DSL (strings) but stay typed in the verb: compare as text."""
    out = []
    for k, v in rec:
        if isinstance(v, list):
            out.append((k, tuple((kk, vv) for kk, vv in v)))
        elif k in ("a", "b", "c"):
            out.append((k, str(v)))
        else:
            out.append((k, v))
    return out


# ==========================================================================================
# monitor: canaries around indexed assignment to scalar-valued / unset / absent variables (model-free)
#
# Regression guard for 1758e262f: `x=1; unset x; x[1]="a"` turned the process-wide ABSENT object into an array,
# `b=true; b[1]="a"` broke every later `1==1`, `y=x; y["a"]=2` turned x into a map.  What the indexed variable itself
# becomes is not documented (the reference interpreter declines there), so it is never printed; only values that the
# statement must not touch are: other variables, fresh literals, typeof(@nosuch), typeof(""), the truth of 1==1.

def _lit_text(v):
    if v is True:
        return "true"
    if v is False:
        return "false"
    if isinstance(v, int):
        return str(v)
    return '"%s"' % v


def canary_case(case):
    rng = random.Random(case["seed"])
    res = case_result(_h("canary", case["seed"]), nontrivial=False, evals=0)
    lit = rng.choice([True, False, 0, 1, 5, 7, 100, "", "abc", "pan"])
    L = _lit_text(lit)
    key = rng.choice(["1", "2", '"a"', '"k"', "-1"])
    val = rng.choice(['"a"', "2", "true", '{"q": 1}', "[9]"])
    variant = case["variant"]
    pre, canary_extra, exp_extra = "", "", []
    lit_type = D.typeof(lit)
    if variant == "unset_local":
        stmt = "x = %s; unset x; x[%s] = %s;" % (L, key, val)
    elif variant == "scalar_local":
        stmt = "b = %s; b[%s] = %s;" % (L, key, val)
    elif variant == "copy_of_scalar":
        stmt = "x = %s; y = x; y[%s] = %s;" % (L, key, val)
        canary_extra = "print typeof(x); print x;"
        exp_extra = [lit_type, D.fmt_scalar(lit)]
    elif variant == "absent_parameter":
        pre = "func f(p) { p[%s] = %s; return 1 } subr s(p) { p[%s] = %s }" % (key, val, key, val)
        stmt = "w = f(@nosuch); call s(@nosuch2); w2 = f(nolocal);"
    elif variant == "scalar_oosvar":
        stmt = "@o = %s; @c = @o; @o[%s] = %s;" % (L, key, val)
        canary_extra = "print typeof(@c); print @c;"
        exp_extra = [lit_type, D.fmt_scalar(lit)]
    elif variant == "scalar_map_element":
        stmt = 'm = {"k": %s, "other": %s}; m["k"][%s] = %s;' % (L, L, key, val)
        canary_extra = 'print typeof(m["other"]); print m["other"];'
        exp_extra = [lit_type, D.fmt_scalar(lit)]
    elif variant == "array_slot":
        stmt = "a = [%s]; a[%s][1] = %s; a[1][%s] = %s;" % (L, rng.choice(["2", "3", "5"]), val, key, val)
    elif variant == "typed_local":
        # (a typed `num n = 3; unset n; n[k] = 4` is a type-declaration violation - the run must fail - and belongs to
        # the typed_declarations shape, not here)
        stmt = "var x = %s; if (true) { x[%s] = %s } var y = x; if (true) { if (true) { y[%s] = 4 } }" % (L, key, val, key)
    else:
        raise ValueError(variant)
    canaries = ("print typeof(@nosuch); print typeof(@nosuch2); print typeof(nolocal); print typeof(\"\"); print typeof(%s); z = %s; print typeof(z); print z;"
                " if (1 == 1) {print \"eq\"} else {print \"ne\"} if (%s == %s) {print \"eq\"} else {print \"ne\"} print typeof(true); print typeof(1); print 1 + 1;"
                " print is_present(@nosuch); print typeof([1,2][7]); print typeof({}[1]);" % (L, L, L, L)) + canary_extra
    expected = ["absent", "absent", "absent", "empty", lit_type, lit_type, D.fmt_scalar(lit), "eq", "eq", D.typeof(True), "int", "2", "false",
                "absent", "absent"] + exp_extra
    in_main = rng.random() < 0.5
    if in_main:
        nrec = rng.randint(1, 3)
        text = pre + " " + stmt + " " + canaries
        argv = ["--ijson", "--ojsonl", "--records-per-batch", str(rng.choice([1, 500])), "put", "-q", text, "in.json"]
        files = {"in.json": json_input([{"i": k + 1} for k in range(nrec)])}
        expected = expected * nrec
    else:
        if variant == "typed_local":      # declarations: one scope per repetition (re-declaration in one scope is an error)
            text = pre + " end { if (true) { " + stmt + " " + canaries + " } if (true) { " + stmt + " " + canaries + " } }"
        else:
            text = pre + " end { " + stmt + " " + canaries + " " + stmt + " " + canaries + " }"
        argv = ["-n", "put", text]
        files = {}
        expected = expected * 2
    r = R.mlr(argv, files=files)
    res["evals"] += 1
    if r.verdict == "slow":
        res["inconc"] += 1
        return res
    sig = {"kind": "canary", "monitor": "canary", "variant": variant}
    detail = {"argv": argv, "files": files, "expected": expected, "got": r.brief(1500)}
    if r.crashed() or r.verdict != "exited":
        add_violation(res, dict(sig, kind="crash-or-hang"), "canary %s: crash/hang for %s" % (variant, stmt), detail)
        return res
    if r.rc != 0:
        # rejecting the statement outright would be a legitimate reading of the reference; nothing to observe then.  But
        # only then: if the statement alone is accepted, the failure comes from the canaries (reads of untouched values,
        # typeof(@nosuch), 1 == 1), which are valid in every program.
        if in_main:
            argv0 = argv[:-2] + [pre + " " + stmt, "in.json"]
        else:
            argv0 = ["-n", "put", pre + " end { if (true) { " + stmt + " } if (true) { " + stmt + " } }" if variant == "typed_local"
                     else pre + " end { " + stmt + " " + stmt + " }"]
        r0 = R.mlr(argv0, files=files)
        res["evals"] += 1
        if r0.verdict == "slow":
            res["inconc"] += 1
            return res
        if r0.crashed() or r0.verdict != "exited":
            add_violation(res, dict(sig, kind="crash-or-hang"), "canary %s: crash/hang for %s" % (variant, stmt), dict(detail, argv=argv0, got=r0.brief(1500)))
            return res
        if r0.rc == 0:
            add_violation(res, dict(sig, kind="canary-fails"), "canary %s: `%s` alone is accepted (exit 0) but reading unrelated values after it fails (exit %s)"
                          % (variant, stmt, r.rc), dict(detail, statement_alone_argv=argv0))
            return res
        res["skipped"] += 1
        bump(res, "canary_statement_rejected")
        return res
    got = r.out.split("\n")
    if got and got[-1] == "":
        got.pop()
    if got != expected:
        bad = next((i for i in range(max(len(got), len(expected))) if i >= len(got) or i >= len(expected) or got[i] != expected[i]), None)
        add_violation(res, sig, "canary %s: after `%s` an unrelated value changed (line %s: expected %r, got %r)"
                      % (variant, stmt, bad, expected[bad] if bad is not None and bad < len(expected) else None,
                         got[bad] if bad is not None and bad < len(got) else None), detail)
        return res
    res["nontrivial"] = True
    bump(res, "canary_" + variant)
    return res


CANARY_VARIANTS = ["unset_local", "scalar_local", "copy_of_scalar", "absent_parameter", "scalar_oosvar", "scalar_map_element",
                   "array_slot", "typed_local"]


# ==========================================================================================
# monitor: doc replay for the DSL pages

DOC_PAGES = ["reference-dsl-variables.md", "reference-dsl-operators.md", "reference-dsl-control-structures.md",
             "reference-dsl-user-defined-functions.md", "reference-dsl-higher-order-functions.md",
             "reference-dsl-output-statements.md", "reference-dsl-unset-statements.md", "reference-dsl-filter-statements.md",
             "reference-dsl-syntax.md", "reference-dsl.md", "reference-main-maps.md", "reference-main-arrays.md",
             "reference-main-null-data.md", "reference-main-strings.md", "questions-about-the-dsl.md",
             "reference-dsl-operator-assignments.md", "reference-dsl-absent-empty.md"]
DOC_SKIP = re.compile(r"urand|random|systime|hostname|os\.|system\(|exec\(|version|seqgen --stop 1000000|--seed|\bsplit\b|tee >|> \$|"
                      r"\| *\"|emit >|print >|dump >|--ofmt|strftime|sec2gmt|\bhelp\b| -[fklK] *\||mlr -f|mlr -k|mlr -K|repl|nothing-to-see|"
                      r"format-values|fmtnum|fmtifnum")
DOCS_SRC = "/repo/docs/src"


def doc_blocks():
    out = []
    pat = re.compile(r'<pre class="pre-highlight-in-pair">\n(.*?)</pre>\n<pre class="pre-non-highlight-in-pair">\n(.*?)</pre>', re.S)
    for page in DOC_PAGES:
        path = os.path.join(DOCS_SRC, page)
        if not os.path.exists(path):
            continue
        text = open(path, encoding="utf-8").read()
        for m in pat.finditer(text):
            cmd_lines = re.findall(r"<b>(.*?)</b>", m.group(1), re.S)
            cmd = "\n".join(cmd_lines)
            exp = m.group(2)
            for a, b in (("&lt;", "<"), ("&gt;", ">"), ("&quot;", '"'), ("&amp;", "&")):
                cmd = cmd.replace(a, b)
                exp = exp.replace(a, b)
            out.append((page, cmd, exp))
    return out


def docs_case(case):
    res = case_result(_h("docs", case["page"], case["cmd"]), nontrivial=True, evals=0)
    cmd, exp, root = case["cmd"], case["exp"], case["root"]
    import subprocess
    import resource

    def lim():
        os.setsid()
        resource.setrlimit(resource.RLIMIT_CPU, (20, 22))
        resource.setrlimit(resource.RLIMIT_FSIZE, (64 << 20, 64 << 20))
        resource.setrlimit(resource.RLIMIT_AS, (4 << 30, 4 << 30))
    env = dict(R.BASE_ENV)
    env["PATH"] = case["bindir"] + ":" + env["PATH"]
    env["HOME"] = root
    try:
        p = subprocess.run(["bash", "-c", cmd], cwd=root, env=env, capture_output=True, timeout=60, preexec_fn=lim)
    except subprocess.TimeoutExpired:
        res["inconc"] += 1
        return res
    res["evals"] += 1
    got = p.stdout.decode("utf-8", "replace")
    if "2>&1" in cmd:
        res["skipped"] += 1
        return res

    def norm(s):
        return [l.rstrip() for l in s.rstrip("\n").split("\n")]
    if norm(got) == norm(exp):
        bump(res, "doc_blocks_reproduced")
        return res
    # numbers may differ in the last digits (recorded with another build): compare tokens with tolerance
    ta, tb = re.split(r"([\s,=:\[\]{}\"]+)", got.strip()), re.split(r"([\s,=:\[\]{}\"]+)", exp.strip())
    same = len(ta) == len(tb)
    if same:
        for x, y in zip(ta, tb):
            if x == y:
                continue
            try:
                fx, fy = float(x), float(y)
                if abs(fx - fy) <= 1e-9 * max(1.0, abs(fx), abs(fy)):
                    continue
            except ValueError:
                pass
            same = False
            break
    if same:
        bump(res, "doc_blocks_reproduced")
        return res
    if p.returncode != 0 and exp.lstrip().startswith("mlr:"):
        # the recorded output is an error message written to stderr (GENMD captures both)
        bump(res, "doc_blocks_reproduced")
        return res
    add_violation(res, {"kind": "doc-replay", "monitor": "docs", "page": case["page"], "cmd": hashlib.sha1(cmd.encode()).hexdigest()[:10]},
                  "docs: recorded execution in %s no longer reproduces: %s" % (case["page"], " ".join(cmd.split())[:160]),
                  {"argv": ["bash", "-c", cmd], "cwd": "copy of /repo/docs/src", "expected": exp[:3000], "got": got[:3000],
                   "stderr": p.stderr.decode("utf-8", "replace")[:600], "rc": p.returncode})
    return res


def docs_cases(chk):
    from .. import build
    root = R.new_scratch("vf-c14docs-")

    def ignore(d, names):
        return [n for n in names if n in ("pix", "coverart", "perf", "profiling", "js", "assets", "css") or n.endswith((".png", ".jpg", ".md.in"))]
    shutil.copytree(DOCS_SRC, os.path.join(root, "src"), ignore=ignore, symlinks=True)
    bindir = os.path.join(root, "bin")
    os.makedirs(bindir)
    os.symlink(build.binpath("mlr-verif"), os.path.join(bindir, "mlr"))
    cases = []
    nskip = 0
    for page, cmd, exp in doc_blocks():
        if not cmd.lstrip().startswith(("mlr", "echo ")) or "mlr" not in cmd or DOC_SKIP.search(cmd):
            nskip += 1
            continue
        cases.append({"page": page, "cmd": cmd, "exp": exp, "root": os.path.join(root, "src"), "bindir": bindir})
    chk.extra["doc_blocks_skipped_nondeterministic_or_other_property"] = nskip
    chk.extra["doc_blocks_replayed"] = len(cases)
    return cases, root


# ==========================================================================================

EMITVERB_VARIANTS = ["sum", "count_sum_lashed", "emitp_full", "emitp_lashed", "count_distinct", "partial_emit", "partial_emitp"]


def run(chk):
    only = getattr(chk, "only", None)
    q = chk.quick()
    chk.rule = ("expr: every ordered pair of the 29 binary operators of the precedence table (both groupings where the value domain "
                "allows), unary/binary and ternary mixes, plus random typed expression trees of depth <= 5, printed with minimal "
                "parentheses, 40 per process (a block that fails although each expression passes alone is narrowed down and "
                "reported as batch-only); astpair: all 841 ordered operator pairs x 2 groupings + unary/ternary mixes, syntax tree of "
                "`put -v` vs the precedence table; prog: free-form random programs (<= ~25 statements, nesting <= 3, <= 2 functions + 1 subroutine) x 2 "
                "heterogeneous inputs of 0-12 records (20 % with 10-16 fields, so that records cross the 12-entry key-index "
                "threshold; heterogeneous ones with empty and float values from the data) x batch sizes {1, default}; shape: every shape of vf/model/dslshapes.py x N "
                "random instantiations; emitverb: 7 emit variants x random grouped inputs; docs: recorded executions of the DSL "
                "reference pages. A program counts as non-trivial when the reference executed >= 1 assignment to each of two "
                "lvalue kinds or >= 1 call/loop/emit and the expected output is non-empty and differs from `cat`; an expression "
                "counts once per distinct text; distinct = by generator seed (prog/shape) or expression text.")
    if not only or "expr" in only:
        cases = expr_cases(chk)
        chk.pmap(expr_batch_case, cases, label="expr")
    if not only or "astpair" in only:
        items = astpair_items()
        cases = [{"id": "%d/%d" % (st, i), "items": items[i:i + 120], "style": st} for st in ((0,) if q else (0, 2, 4)) for i in range(0, len(items), 120)]
        chk.pmap(astpair_case, cases, label="astpair")
        chk.extra["astpair_statements"] = len(items)
    if not only or "shape" in only:
        reps = 10 if q else 60
        names = sorted(S.SHAPES)
        cases = [{"shape": n, "seed": "%s/shape/%s/%d" % (chk.seed, n, i), "sample": (i == 0 and n in ("recursion_frames",))} for n in names for i in range(reps)]
        chk.pmap(shape_case, cases, label="shape")
        chk.extra["shapes"] = names
    if not only or "prog" in only:
        n = 1000 if q else 22000
        cases = [{"seed": "%s/prog/%d" % (chk.seed, i), "sample": i < 2} for i in range(n)]
        chk.pmap(prog_case, cases, label="prog", chunksize=4)
    if not only or "emitverb" in only:
        n = 20 if q else 300
        cases = [{"seed": "%s/ev/%s/%d" % (chk.seed, v, i), "variant": v} for v in EMITVERB_VARIANTS for i in range(n)]
        chk.pmap(emitverb_case, cases, label="emitverb", chunksize=4)
    if not only or "canary" in only:
        n = 12 if q else 150
        cases = [{"seed": "%s/canary/%s/%d" % (chk.seed, v, i), "variant": v} for v in CANARY_VARIANTS for i in range(n)]
        chk.pmap(canary_case, cases, label="canary", chunksize=4)
    if not only or "docs" in only:
        cases, root = docs_cases(chk)
        try:
            chk.pmap(docs_case, cases, label="docs")
        finally:
            shutil.rmtree(root, ignore_errors=True)
    st = chk.stats
    chk.extra["programs_checked"] = int(st.get("programs_run_ok", 0) + st.get("programs_run_fatal", 0) + st.get("shape_runs_ok", 0) + st.get("shape_runs_fatal", 0))
    chk.extra["programs_expected_to_fail"] = int(st.get("programs_run_fatal", 0) + st.get("shape_runs_fatal", 0))
    chk.extra["covered_language"] = COVERED
    chk.extra["not_covered"] = NOT_COVERED
    chk.assumptions = ASSUMPTIONS


COVERED = [
    "values: ints |v| <= 1e12 (literals <= 9999), exact quarters as floats, ASCII strings without escapes, booleans, empty, absent, maps, arrays, function values",
    "operators: ** ??? ?? unary(! ~ + -) . * / // % + - << >> >>> & ^ | < <= > >= == != =~ !=~ <=> && ^^ || ?: with the documented precedence/associativity; "
    "absent/empty rules only where reference-main-null-data.md tabulates them (+ - * . && || ?? ???, unary - + ~, min/max/abs)",
    "rvalues: $x ${x y} $[e] $[[n]] $[[[n]]] $* @x @* locals NR NF FNR FILENAME, m[k] a[i] (1-up, negative aliases, out-of-bounds read absent), "
    "slices of arrays and strings (inclusive, trimmed), map/array literals, 50 builtins incl. apply/select/reduce/fold/sort/any/every, "
    "user functions, function literals called by name or passed to higher-order functions",
    "statements: = and op= on every lvalue kind ($x $[e] $[[n]] $[[[n]]] $* @x @* local, indexed with auto-create / auto-extend / null-gap), "
    "typed declarations var/str/num/int/float/bool/map/arr/funct enforced at every assignment (run must fail), unset, if/elif/else, "
    "pattern-action, while, do-while, for (e in), for (k,v in), for ((k1,k2),v in), C-style for with multiple init/step, break/continue, "
    "begin/end (several), func/subr/call/return with typed parameters and return types, recursion, print/printn/dump/emit1/emitf/"
    "emit/emitp (non-lashed, lashed, by 0..3 names, @*/all/map-literal/function-call emittables), filter statement, put -q, put -x, "
    "filter, filter -x, -s name=value; put/filter chains in both orders (out-of-stream variables private to each)",
    "loops over locals / parameters / out-of-stream variables / indexed sub-maps whose elements are maps or arrays (2-3 levels), with bodies that "
    "assign, op-assign or unset inside elements not yet visited, replace / add / remove elements, re-assign the base or write through the bound variable",
    "records of 10-16 fields (across the 12-entry key-index threshold) under assignment, unset, positional rename, $* replacement and map-valued copies; "
    "6-10 nested blocks with two locals each, 11-18 locals in one scope (also per activation of a recursive function)",
]
NOT_COVERED = [
    "floating-point formatting and arithmetic beyond exact quarters, integer overflow, % with non-positive modulus, .+ .- .* ./ (C07)",
    "absent/empty in comparisons, ^^, !, bit operators, min/max collation across types (C08); sorting collation of mixed types (C09)",
    "string escapes, regex captures \\1..\\9, case-insensitive regex literals, sub/gsub/format/strptime etc. (C15, C16)",
    "redirected output (tee/emit/print/dump > >> |), ENV, system/exec/os, nested map-valued input fields, numeric-looking strings from the data, "
    "positional rename onto an existing name",
    "error values flowing anywhere (the reference declines), absent arguments to user functions, absent right-hand side of a typed declaration",
    "emit shapes the reference leaves open: lashed non-prefixed emit of maps with fewer names than levels-1, emit by >= 2 names with remaining map levels, "
    "mixed terminal/map levels, emit-by on scalars, indexed emittables (@x[1]), emitp of function values, redirects",
    "function literals that escape the function activation that created them or assign to enclosing locals; unset of for-loop-bound variables",
    "case statements (absent from the grammar), `.` as map traversal, $-references in begin/end (static error), NF outside the main block",
]
ASSUMPTIONS = [
    "records are read with --ijson and written with --ojsonl; emitted records and printed/dumped collections are compared as ordered JSON "
    "(numbers by value), printed scalars as text lines, in stdout order; print output is ordered with the record stream as the binary emits it "
    "(records of one put are written after the statements executed for them)",
    "a program on which the reference interpreter declines (see not_covered) is discarded at generation time and counted as skipped",
    "for type-declaration violations, redeclaration in one scope, asserting_* failures and array index 0 on assignment the run must exit non-zero "
    "without a parse error, and what it wrote to stdout before must be a prefix of what the reference had written when it reached the fatal statement "
    "(output still buffered at exit may be lost)",
    "loop variables of for (v in X) / for (k, v in X) / for ((k1, k2), v in X) are bound from a deep snapshot of X taken when the loop starts "
    "(reference-dsl-control-structures.md: 'bound to a copy of the sub-map as it was before the loop started'); all other reads and writes in the body "
    "see the live collection",
    "a shrunk witness may only carry risk features (Interp.feats) that the original failing program had; if the disagreement persists without a "
    "feature the smaller program without it is reported (so a listed finding cannot absorb a different defect)",
    "the right operand of ?? / ??? and the functions given to any/every are side-effect free in generated programs (evaluation order there is not documented)",
    "emit @*, emit all, emit $* and emit {map literal} emit every top-level key as its own emittable (reference: 'emit all ... output all out-of-stream variables', "
    "recorded example in reference-dsl-output-statements.md), whereas a function-call emittable is one map",
    "custom sort comparators are only used when they define a strict total order on the elements (otherwise the result depends on the algorithm)",
]


def replay(w):
    """./check C14 --replay <witness.json>"""
    d = w.get("detail", {})
    sig = w.get("sig", {})
    if sig.get("monitor") == "docs":
        print("doc-replay witness: run, with cwd = a copy of /repo/docs/src and mlr on PATH:")
        print(d["argv"][2])
        print("--- recorded output:\n" + d.get("expected", ""))
        print("--- output observed by the check:\n" + d.get("got", ""))
        return 0
    files = d.get("files") or {}
    for argv in [d.get("argv")] + ([d["verb_argv"]] if d.get("verb_argv") else []):
        r = R.mlr(argv, files=files)
        print("argv:", argv)
        print("rc:", r.rc, "signal:", r.signal, "verdict:", r.verdict)
        print("stdout:\n" + r.out[:4000])
        print("stderr:\n" + r.err[:2000])
    if "program" in d:
        print("program:\n" + d["program"])
    print("expected:", json.dumps(d.get("expected"))[:4000])
    return 0
