"""C06 - type inference from data follows the documented number grammar exactly.

Oracle: vf/model/numgrammar.py (anchored regular expressions + Python int()/float(), written
from the documentation) against the real binary.  One mlr process classifies 10^4..10^5 strings,
one per record, through several observation channels at once:
    typeof($x), is_int/is_float/is_numeric/is_string/is_empty/is_not_empty, $x + 0,
    fmtnum($x,"%d"), fmtnum($x,"%.17le"), $x . ""         (one put)
    asserting_*($x)                                        (one process per observed type, plus
                                                            one single-record process per grammar
                                                            category for the rejecting direction)
    sort -nf x / sort -nr x, input forwards and reversed   (four processes)
Every channel of the put reads ITS OWN copy of the text (the record carries the string in eleven
fields), so that each function infers from a not-yet-inferred value.
The channels are first checked for MUTUAL AGREEMENT (needs no model); then type and value are
compared with the model (ints exactly, floats by bit pattern).

Carriers: DKVP field (separators US/RS so that any byte of the alphabet can be in a value),
quoted and unquoted CSV field, TSV, NIDX, XTAB, PPRINT and markdown cells, JSON string, JSON number
token at top level and nested in arrays / maps, DSL literal.  Modes: default, -S, -A, -O.

Sub-monitors (--only): enum, struct, near, boundary, sortint, dsl.
"""
import hashlib
import itertools
import json
import random
import struct

from .. import run as R
from ..harness import add_violation, bump, case_result
from ..model import numgrammar as G

BINARIES = ("mlr-verif",)
LEVEL = "exploration"

US, RS = "\x1f", "\x1e"

SECONDARY = ("csv", "jsonstr", "jsonnum")
MORE_CARRIERS = ("csvu", "tsv", "nidx", "xtab", "pprint", "markdown", "jsonnest")

ALPHA31 = "0123456789+-.abcdefABCDEFxXoO_ "
CORE20 = "01789+-.eExXobafF_ O"
assert len(set(ALPHA31)) == 31 and len(set(CORE20)) == 20

PROG_TEMPLATE = r'''
func enc(r) { t = typeof(r); if (t == "int") { return "i" . fmtnum(r, "%d") } elif (t == "float") { return "f" . fmtnum(r, "%.17le") } else { return t } }
func b(v) { return v ? "1" : "0" }
$* = {"t": typeof(@A0),
  "f": b(is_int(@A1)) . b(is_float(@A2)) . b(is_numeric(@A3)) . b(is_string(@A4)) . b(is_empty(@A5)) . b(is_not_empty(@A6)),
  "p": enc(@A7 + 0), "d": fmtnum(@A8, "%d"), "e": fmtnum(@A9, "%.17le"), "c": @A10 . ""};
'''

NCOPIES = 11
NAMES = list("abcdefghijk")
ACCESSORS = {
    None: ["$" + c for c in NAMES],
    "nidx": ["$%d" % (i + 1) for i in range(NCOPIES)],
    "jsonnest": ['$v[1]', '$v[2]', '$v[3]', '$v[4][1]', '$v[5]["y"]', '$v[6]["y"]["z"]',
                 '$m["g"]', '$m["h"][1]', '$m["i"]["q"][2]', '$m["j"]', '$m["k"]'],
}


def prog_for(carrier):
    acc = ACCESSORS.get(carrier, ACCESSORS[None])
    p = PROG_TEMPLATE
    for i in reversed(range(NCOPIES)):
        p = p.replace("@A%d" % i, acc[i])
    return p


FLAGS_FOR_TYPE = {"int": "101001", "float": "011001", "string": "000101", "empty": "000110"}
FLAG_NAMES = ["is_int", "is_float", "is_numeric", "is_string", "is_empty", "is_not_empty"]

OSEP = ["--ofs", "ascii_us", "--ops", "ascii_rs", "--odkvp"]


def fbits(x):
    return struct.unpack(">Q", struct.pack(">d", x))[0]


def skey(s):
    return int.from_bytes(s.encode("utf-8", "surrogateescape"), "big") * 32 + min(len(s), 31)


def char_classes(s):
    cl = set()
    for c in s:
        if c in "+-":
            cl.add("sign")
        elif c.isdigit():
            cl.add("digit")
        elif c in "xXoObB":
            cl.add("prefix")
        elif c in ".eE":
            cl.add("point-exp")
    return cl


def shape(s):
    """Coarse shape of a string for violation signatures: digit runs -> 9 (a leading 0 of a run is
    kept), the digits after 0x -> h, runs of the hex letters acdf/ACDF elsewhere -> a/A, everything
    else as is; at most 16 characters."""
    out = []
    prev_digit = False
    in_hex = False
    for c in s:
        if in_hex and c in "0123456789abcdefABCDEF":
            if out[-1] != "h":
                out.append("h")
            continue
        in_hex = False
        if c in "0123456789":
            if not prev_digit:
                out.append("0" if c == "0" else "9")
            elif out[-1] == "0":
                out.append("9")
            prev_digit = True
            continue
        if c in "xX" and prev_digit and out[-1] == "0":
            in_hex = True
        prev_digit = False
        if c in "acdf":
            c = "a"
        elif c in "ACDF":
            c = "A"
        if c in "aA" and out and out[-1] == c:
            continue
        out.append(c)
    return "".join(out)[:16]


def nontrivial(s):
    return len(char_classes(s)) >= 2


# ------------------------------------------------------------------------------------------
# carriers

def input_for(carrier, strings):
    """-> (argv input flags, stdin text). Every record carries the string NCOPIES times, one copy
    per observation channel."""
    n = NCOPIES
    if carrier == "dkvp":
        return (["--idkvp", "--ifs", "ascii_us", "--ips", "ascii_rs"],
                "".join(US.join(c + RS + s for c in NAMES) + "\n" for s in strings))
    if carrier == "csv":
        return (["--icsv"], ",".join(NAMES) + "\n" +
                "".join(",".join(['"' + s.replace('"', '""') + '"'] * n) + "\n" for s in strings))
    if carrier == "csvu":
        return (["--icsv"], ",".join(NAMES) + "\n" + "".join(",".join([s] * n) + "\n" for s in strings))
    if carrier == "tsv":
        return (["--itsv"], "\t".join(NAMES) + "\n" + "".join("\t".join([s] * n) + "\n" for s in strings))
    if carrier == "nidx":
        return (["--inidx", "--ifs", " "], "".join(" ".join([s] * n) + "\n" for s in strings))
    if carrier == "xtab":
        return (["--ixtab"], "".join("".join(c + " " + s + "\n" for c in NAMES) + "\n" for s in strings))
    if carrier == "pprint":
        # a constant first column keeps a value from starting a line
        return (["--ipprint"], "z " + " ".join(NAMES) + "\n" + "".join("r " + " ".join([s] * n) + "\n" for s in strings))
    if carrier == "markdown":
        return (["--imd"], "| " + " | ".join(NAMES) + " |\n" + "| " + " | ".join(["---"] * n) + " |\n" +
                "".join("| " + " | ".join([s] * n) + " |\n" for s in strings))
    if carrier == "jsonstr":
        return (["--ijson"], "".join("{" + ", ".join('"%s": %s' % (c, json.dumps(s, ensure_ascii=False)) for c in NAMES) + "}\n"
                                     for s in strings))
    if carrier == "jsonnum":
        return (["--ijson"], "".join("{" + ", ".join('"%s": %s' % (c, s) for c in NAMES) + "}\n" for s in strings))
    if carrier == "jsonnest":
        # number tokens inside arrays and nested maps (see ACCESSORS["jsonnest"])
        return (["--ijson"], "".join(
            '{"v": [%s, %s, %s, [%s], {"y": %s}, {"y": {"z": %s}}], '
            '"m": {"g": %s, "h": [%s], "i": {"q": [0, %s]}, "j": %s, "k": %s}}\n' % ((s,) * n) for s in strings))
    raise KeyError(carrier)


LINE_BREAKS = ("\r", "\n")


def carrier_ok(carrier, s):
    if carrier in ("jsonnum", "jsonnest"):
        return G.is_json_number(s)
    if any(c in s for c in LINE_BREAKS):
        return False                                # C01 owns embedded line breaks
    if carrier == "dkvp":
        return not any(c in s for c in (US, RS))
    if carrier == "csv":
        return True
    if carrier == "csvu":
        # unquoted cells: no separator / quote; C01 owns what a bare cell with those means
        return not any(c in s for c in (",", '"'))
    if carrier == "tsv":
        return not any(c in s for c in ("\t", "\\"))
    if carrier == "nidx":
        return s != "" and not any(c in s for c in (" ", "\t"))
    if carrier == "pprint":
        # a lone "-" is PPRINT's own marker for an empty cell (format encoding, C01's subject)
        return s not in ("", "-") and not any(c in s for c in (" ", "\t", "|"))
    if carrier == "xtab":
        return s != "" and s == s.strip(" \t")
    if carrier == "markdown":
        # a row whose cells are made of - and : only is markdown's alignment row, not data
        return s != "" and s == s.strip(" \t") and "|" not in s and s.strip("-:") != ""
    if carrier == "jsonstr":
        try:
            s.encode("utf-8")
        except UnicodeEncodeError:
            return False
        return True
    return True


def parse_out(text):
    rows = []
    for line in text.split("\n"):
        if not line:
            continue
        d = {}
        for p in line.split(US):
            k, _, v = p.partition(RS)
            d[k] = v
        rows.append(d)
    return rows


def expected(s, mode, carrier):
    if carrier == "jsonstr":
        return ([("empty",)] if s == "" else [("string",)]), "json-string"
    return G.classify(s, mode)


def parse_enc(p):
    if p.startswith("i"):
        try:
            return ("int", int(p[1:]))
        except ValueError:
            pass
    if p.startswith("f") and p != "funct":
        try:
            return ("float", float(p[1:]))
        except ValueError:
            pass
    return (p,)


class Tally:
    """Caps the witnesses kept per signature inside one case."""

    def __init__(self, res, cap=3):
        self.res, self.cap, self.seen = res, cap, {}

    def add(self, sig, what, detail):
        k = tuple(sorted(sig.items()))
        n = self.seen.get(k, 0)
        self.seen[k] = n + 1
        if n < self.cap:
            add_violation(self.res, sig, what, detail)
        else:
            bump(self.res, "violations_same_signature_not_listed")


def replay_detail(argv, s, carrier, exp, got):
    _, stdin = input_for(carrier, [s])
    return {"argv": argv, "stdin": stdin, "string": s, "carrier": carrier,
            "expected": [list(o) for o in exp], "got": got}


def observe(strings, mode, carrier):
    iflags, stdin = input_for(carrier, strings)
    argv = G.MODE_FLAGS[mode] + iflags + OSEP + ["put", prog_for(carrier)]
    r = R.mlr(argv, stdin=stdin, cpu_s=60, watchdog=180.0, fsize=256 << 20, out_cap=256 << 20)
    return argv, r


def judge_batch(strings, mode, carrier, res, tally, want_sort=False, want_assert=False):
    """Runs the batch, checks channel agreement and the model. Returns observed (type, value) list
    or None when the process itself failed."""
    argv, r = observe(strings, mode, carrier)
    base_sig = {"mode": mode, "carrier": carrier}
    if r.verdict == "slow":
        res["inconc"] += len(strings)
        return None
    if not r.ok:
        hang = r.verdict in HANG_VERDICTS
        kind = "hang" if hang else ("crash" if r.crashed() else "abort")
        # localise: bisect to one string
        bad = bisect_failure(strings, mode, carrier)
        if bad is None and hang:
            res["inconc"] += len(strings)          # a stall that no half of the batch reproduces
            return None
        tally.add(dict(base_sig, kind=kind, tag=(G.classify(bad, mode)[1] if bad is not None else "?")),
                  f"mlr {' '.join(G.MODE_FLAGS[mode])} {'hangs (' + r.verdict + ')' if hang else 'dies'} reading the "
                  f"{carrier} value {bad!r}: {(r.err.strip().splitlines() or ['rc=%s' % r.rc])[0][:200]}",
                  replay_detail(argv, bad if bad is not None else strings[0], carrier, [], r.brief(300)))
        return None
    rows = parse_out(r.out)
    if len(rows) != len(strings):
        tally.add(dict(base_sig, kind="record-count"),
                  f"{len(strings)} {carrier} records in, {len(rows)} out", {"argv": argv, "n_in": len(strings)})
        return None
    obs = []
    tags = []
    for s, o in zip(strings, rows):
        t = o.get("t", "?")
        exp, tag = expected(s, mode, carrier)
        bump(res, "tag:" + tag)
        tags.append(tag)
        val = None
        bad_channel = None
        # ---- channel agreement ----
        if t not in FLAGS_FOR_TYPE:
            bad_channel = ("typeof", f"typeof is {t!r}")
        else:
            f = o.get("f", "")
            if f != FLAGS_FOR_TYPE[t]:
                wrong = [FLAG_NAMES[i] for i in range(6) if i < len(f) and f[i] != FLAGS_FOR_TYPE[t][i]]
                bad_channel = ("is_*", f"typeof is {t} but {','.join(wrong) or 'is_* flags'} disagree ({f})")
            p = parse_enc(o.get("p", ""))
            e_txt, d_txt, c = o.get("e", ""), o.get("d", ""), o.get("c", "")
            if t == "int":
                if p[0] != "int":
                    bad_channel = bad_channel or ("plus0", f"typeof is int but $x + 0 is {p}")
                else:
                    val = p[1]
                    if d_txt != str(val):
                        bad_channel = bad_channel or ("fmtnum-d", f"$x + 0 is {val} but fmtnum($x,\"%d\") is {d_txt}")
                    try:
                        if float(e_txt) != float(val):
                            bad_channel = bad_channel or ("fmtnum-e", f"$x + 0 is {val} but fmtnum %le is {e_txt}")
                    except (ValueError, OverflowError):
                        bad_channel = bad_channel or ("fmtnum-e", f"fmtnum($x,\"%.17le\") is {e_txt!r} for an int")
            elif t == "float":
                try:
                    val = float(e_txt)
                except ValueError:
                    bad_channel = bad_channel or ("fmtnum-e", f"typeof is float but fmtnum %le is {e_txt!r}")
                if val is not None:
                    if p[0] != "float" or not (p[1] == val or (p[1] != p[1] and val != val)):
                        bad_channel = bad_channel or ("plus0", f"float {val!r} but $x + 0 is {p}")
            elif t == "string":
                if p[0] != "error":
                    bad_channel = bad_channel or ("plus0", f"typeof is string but $x + 0 is {p}")
                if e_txt != "(error)" or d_txt != "(error)":
                    bad_channel = bad_channel or ("fmtnum", f"typeof is string but fmtnum gives {d_txt!r} / {e_txt!r}")
            # original text is retained (reference-main-data-types.md); -A re-renders ints as floats
            if not (mode == "A" and tag not in ("float", "string", "empty", "float-out-of-range")):
                if c != s:
                    bad_channel = bad_channel or ("dot", f"$x . \"\" is {c!r}, the field was {s!r}")
        if bad_channel:
            tally.add(dict(base_sig, kind="channels-disagree", channel=bad_channel[0], tag=tag, shape=shape(s)),
                      f"[{mode}/{carrier}] {s!r}: {bad_channel[1]}",
                      replay_detail(argv, s, carrier, exp, o))
        # ---- model ----
        got = (t,) if val is None else (t, val)
        ok = False
        for x in exp:
            if x[0] != got[0]:
                continue
            if x[0] == "int" and len(got) > 1 and x[1] == got[1]:
                ok = True
            elif x[0] == "float" and len(got) > 1 and fbits(x[1]) == fbits(got[1]):
                ok = True
            elif x[0] in ("string", "empty"):
                ok = True
        if len(exp) > 1:
            bump(res, "strings_where_docs_leave_a_choice")
        if not ok and t in FLAGS_FOR_TYPE:
            kind = "classification" if got[0] not in [x[0] for x in exp] else "value"
            tally.add(dict(base_sig, kind=kind, tag=tag, got=got[0], want=exp[0][0], shape=shape(s)),
                      f"[{mode}/{carrier}] {s!r} is inferred as {render(got)}; documented grammar: "
                      f"{' or '.join(render(x) for x in exp)} ({tag})",
                      replay_detail(argv, s, carrier, exp, o))
        obs.append(got)
    if want_assert:
        assert_channel(strings, obs, tags, mode, res, tally)
    if want_sort:
        sort_channel(strings, obs, mode, res, tally, lite=(want_sort == "lite"))
    return obs


def render(o):
    if o[0] == "int" and len(o) > 1:
        return f"int {o[1]}"
    if o[0] == "float" and len(o) > 1:
        return f"float {o[1]!r}"
    return o[0]


HANG_VERDICTS = ("deadlock", "cpu", "output-cap")


def bisect_failure(strings, mode, carrier):
    """The one string of a failing batch that fails on its own (None when no half reproduces)."""
    idx = list(strings)
    guard = 0
    while len(idx) > 1 and guard < 40:
        guard += 1
        mid = len(idx) // 2
        _, r = observe(idx[:mid], mode, carrier)
        if r.verdict == "slow":
            return None
        if not r.ok:
            idx = idx[:mid]
        else:
            _, r2 = observe(idx[mid:], mode, carrier)
            if r2.ok or r2.verdict == "slow":
                return None           # not reproducible on halves
            idx = idx[mid:]
    return idx[0] if idx else None


ASSERTS = {"int": ["asserting_int", "asserting_numeric", "asserting_not_empty", "asserting_not_null"],
           "float": ["asserting_float", "asserting_numeric", "asserting_not_empty"],
           "string": ["asserting_string", "asserting_not_empty", "asserting_not_null"],
           "empty": ["asserting_empty", "asserting_null", "asserting_string"]}
NEG_ASSERTS = {"int": ["asserting_float", "asserting_string"], "float": ["asserting_int", "asserting_string"],
               "string": ["asserting_int", "asserting_float", "asserting_numeric"],
               "empty": ["asserting_not_empty", "asserting_int"]}


NEG_PER_CLASS = 25


def assert_channel(strings, obs, tags, mode, res, tally):
    """asserting_* must pass on every value typeof puts in the class (one process per class) and
    abort on values of another class: one representative per (observed class, grammar category),
    one single-record process per (representative, excluded assertion)."""
    groups = {}
    for s, o, tag in zip(strings, obs, tags):
        groups.setdefault(o[0], {}).setdefault(tag, []).append(s)
    for t, by_tag in groups.items():
        if t not in ASSERTS:
            continue
        ss = [s for g in by_tag.values() for s in g]
        iflags, stdin = input_for("dkvp", ss)
        prog = "; ".join(f"{a}(${NAMES[i % NCOPIES]})" for i, a in enumerate(ASSERTS[t]))
        argv = G.MODE_FLAGS[mode] + iflags + ["put", "-q", prog]
        r = R.mlr(argv, stdin=stdin, cpu_s=60)
        bump(res, "asserting_values_checked", len(ss))
        if r.verdict == "slow":
            res["inconc"] += 1
        elif not r.ok:
            tally.add({"kind": "hang" if r.verdict in HANG_VERDICTS else "channels-disagree", "channel": "asserting",
                       "mode": mode, "carrier": "dkvp", "tag": t},
                      f"[{mode}] typeof says {t} for {len(ss)} values but {prog} "
                      f"{'hangs' if r.verdict in HANG_VERDICTS else 'aborts'}: "
                      f"{(r.err.strip().splitlines() or ['?'])[0][:200]}",
                      {"argv": argv, "stdin": stdin[:2000], "got": r.brief(400)})
        reps = [(tag, g[len(g) // 2]) for tag, g in sorted(by_tag.items())][:NEG_PER_CLASS]
        for tag, s in reps:
            for a in NEG_ASSERTS[t]:
                iflags, stdin = input_for("dkvp", [s])
                argv = G.MODE_FLAGS[mode] + iflags + ["put", "-q", f"{a}($a)"]
                r = R.mlr(argv, stdin=stdin, cpu_s=20)
                bump(res, "asserting_negative_checks")
                if r.verdict == "slow":
                    res["inconc"] += 1
                elif r.ok or r.verdict in HANG_VERDICTS or r.crashed():
                    how = "passes" if r.ok else ("hangs" if r.verdict in HANG_VERDICTS else "crashes")
                    tally.add({"kind": "channels-disagree" if r.ok else ("hang" if how == "hangs" else "crash"),
                               "channel": "asserting-negative", "mode": mode, "carrier": "dkvp", "tag": t,
                               "gtag": tag, "fn": a},
                              f"[{mode}] typeof says {t} for {s!r} ({tag}) but {a}($a) {how}",
                              {"argv": argv, "stdin": stdin, "got": r.brief(400)})


def num_gt(a, b):
    """a > b for two observed numbers: exactly when both are ints, as doubles otherwise."""
    if a[0] == "int" and b[0] == "int":
        return a[1] > b[1]
    return float(a[1]) > float(b[1])


SORT_VARIANTS = (("-nf", False), ("-nr", True), ("-nr", False), ("-nf", True))


def sort_channel(strings, obs, mode, res, tally, lite=False):
    """sort -nf must place exactly the values typeof calls int/float first, in non-decreasing
    numerical order, and everything else after them; sort -nr is the mirror image (non-numbers
    first, numbers non-increasing).  Two ints are compared EXACTLY (they are distinct ints for typeof
    and arithmetic however close they are), an int and a float or two floats as doubles.  Each flag is
    run on the input as given and on the reversed input: a comparator that wrongly calls two values
    equal leaves them in input order, which is wrong in one of the two."""
    numeric = {i for i, o in enumerate(obs) if o[0] in ("int", "float") and len(o) > 1}
    # exact int order is not demanded across a float of the same double value (a float compares
    # equal, as a double, to both ints: the order is then not a total one and the docs do not say more)
    bridges = {float(o[1]) for o in obs if o[0] == "float" and len(o) > 1}
    for flag, rev in (SORT_VARIANTS[:2] if lite else SORT_VARIANTS):
        idx = list(range(len(strings)))
        if rev:
            idx.reverse()
        stdin = "".join("n" + RS + str(i) + US + "x" + RS + strings[i] + "\n" for i in idx)
        argv = G.MODE_FLAGS[mode] + ["--idkvp", "--ifs", "ascii_us", "--ips", "ascii_rs"] + OSEP + \
            ["sort", flag, "x", "then", "cut", "-f", "n"]
        r = R.mlr(argv, stdin=stdin, cpu_s=60, watchdog=180.0)
        if r.verdict == "slow":
            res["inconc"] += 1
            continue
        sig = {"kind": "channels-disagree", "channel": "sort" + flag, "mode": mode, "carrier": "dkvp"}
        if r.verdict in HANG_VERDICTS:
            tally.add(dict(sig, kind="hang", tag=r.verdict),
                      f"[{mode}] sort {flag} x hangs ({r.verdict}) on {len(strings)} records",
                      {"argv": argv, "stdin": stdin[:4000], "got": r.brief(400)})
            continue
        try:
            order = [int(l.partition(RS)[2]) for l in r.out.split("\n") if l]
        except ValueError:
            order = None
        if not r.ok or order is None or sorted(order) != list(range(len(strings))):
            tally.add(dict(sig, tag="not-a-permutation"),
                      f"[{mode}] sort {flag} x did not return a permutation of its input",
                      {"argv": argv, "stdin": stdin[:4000], "got": r.brief(400)})
            continue
        bump(res, "sort_values_checked", len(strings))
        desc = flag == "-nr"
        nn = len(strings) - len(numeric)
        block = order[nn:] if desc else order[:len(numeric)]
        rest = order[:nn] if desc else order[len(numeric):]
        stray = [i for i in block if i not in numeric]
        if stray:
            missing = [i for i in rest if i in numeric]
            tally.add(dict(sig, tag="numeric-set"),
                      f"[{mode}] sort {flag} treats {strings[stray[0]]!r} (typeof {obs[stray[0]][0]}) as a number and "
                      f"{strings[missing[0]]!r} (typeof {obs[missing[0]][0]}) as a non-number",
                      {"argv": argv, "stdin": stdin[:4000], "stray": [strings[i] for i in stray[:10]],
                       "missing": [strings[i] for i in missing[:10]]})
            continue
        prev = None
        for i in block:
            o = obs[i]
            if prev is not None:
                lo, hi = (o, obs[prev]) if desc else (obs[prev], o)       # required: lo <= hi
                if num_gt(lo, hi):
                    both_int = lo[0] == "int" and hi[0] == "int"
                    if both_int and float(lo[1]) == float(hi[1]) and float(lo[1]) in bridges:
                        bump(res, "sort_int_pairs_not_judged_float_of_same_double_in_batch")
                    else:
                        pair = [strings[prev], strings[i]]
                        first = [j for j in idx if j in (prev, i)]               # the two, in input order
                        tally.add(dict(sig, tag="order", cmp="int-int" if both_int else "as-double",
                                       same_double=bool(float(lo[1]) == float(hi[1]))),
                                  f"[{mode}] sort {flag} x puts {pair[0]!r} ({render(obs[prev])}) before "
                                  f"{pair[1]!r} ({render(o)})",
                                  {"argv": argv,
                                   "stdin": "".join("n" + RS + str(j) + US + "x" + RS + strings[j] + "\n" for j in first),
                                   "note": "stdin = the two records in their input order; found in a batch of %d "
                                           "records, input %s" % (len(strings), "reversed" if rev else "as generated"),
                                   "output_order": pair})
                        break
                elif o[0] == "int" and obs[prev][0] == "int" and o[1] != obs[prev][1] and \
                        float(o[1]) == float(obs[prev][1]):
                    bump(res, "sort_adjacent_distinct_ints_of_same_double_in_right_order")
            prev = i


# ------------------------------------------------------------------------------------------
# DSL literal carrier

def dsl_program(lits):
    lines = ["end {"]
    for s in lits:
        # three prints: an error value would swallow a concatenated line
        lines.append(f'print typeof({s}); print fmtnum({s}, "%d"); print fmtnum({s}, "%.17le");')
    lines.append("}")
    return "\n".join(lines) + "\n"


def dsl_observe(lits):
    r = R.mlr(["-n", "put", "-f", "p.mlr"], files={"p.mlr": dsl_program(lits)}, cpu_s=120, watchdog=300.0)
    if not r.ok:
        return None, r
    lines = r.out.split("\n")
    if lines and lines[-1] == "":
        lines.pop()
    if len(lines) != 3 * len(lits):
        return None, r
    return [lines[3 * i:3 * i + 3] for i in range(len(lits))], r


RISKY_TAGS = ("dec-int-beyond-int64", "hex-beyond-64-bits", "hex-bit64-leading-zeros", "oct-bit64",
              "oct-beyond-64-bits", "bin-bit64", "bin-beyond-64-bits", "float-out-of-range")


def dsl_eval(lits, res, tally, pairs, depth=0):
    """Evaluate literals in one program; a program that fails (parse error / abort) is halved
    until the offending literal is alone."""
    if not lits:
        return
    out, r = dsl_observe(lits)
    if out is not None:
        pairs.extend(zip(lits, out))
        return
    if r.verdict == "slow":
        res["inconc"] += len(lits)
        return
    if len(lits) > 1:
        mid = len(lits) // 2
        dsl_eval(lits[:mid], res, tally, pairs, depth + 1)
        dsl_eval(lits[mid:], res, tally, pairs, depth + 1)
        return
    s = lits[0]
    tag = G.classify(s)[1]
    argv1 = ["-n", "put", f"end{{print typeof({s})}}"]
    if "cannot parse DSL expression" in r.err and not r.crashed() and r.verdict == "exited":
        # RE_DSL_LITERAL admits only spellings the documentation promises for numbers ("Type inference for
        # literal and record data"; reference-main-arithmetic.md lists the 0x 0o 0b prefixes): a parser that
        # does not accept one of them is a defect of this property, not a skip
        bump(res, "dsl_literals_rejected_by_parser")
        tally.add({"kind": "dsl-literal-rejected", "mode": "default", "carrier": "dsl", "tag": tag,
                   "form": dsl_form(s)},
                  f"[DSL literal] the parser rejects the documented number spelling {s}: "
                  f"{(r.err.strip().splitlines() or ['?'])[-1][:200]}",
                  {"argv": argv1, "got": r.brief(300)})
        return
    hang = r.verdict in HANG_VERDICTS
    tally.add({"kind": "hang" if hang else ("crash" if r.crashed() else "abort"), "mode": "default", "carrier": "dsl",
               "tag": tag},
              f"[DSL literal] mlr {'hangs (' + r.verdict + ')' if hang else 'dies'} evaluating the number literal {s}: "
              f"{(r.err.strip().splitlines() or ['rc=%s' % r.rc])[0][:200]}",
              {"argv": argv1, "got": r.brief(300)})


def dsl_form(s):
    if s[:2] in ("0x", "0b", "0o"):
        return s[:2]
    if s.startswith("."):
        return "leading-point"
    if "." in s and (s.endswith(".") or s[s.index(".") + 1] in "eE"):
        return "trailing-point"
    return "float" if any(c in s for c in ".eE") else "decimal"


def w_dsl(case):
    strings = [s for s in make_strings(case) if G.is_dsl_literal(s)]
    strings = list(dict.fromkeys(strings))
    res = case_result("c06:" + hashlib.sha1(repr(case).encode()).hexdigest()[:16])
    tally = Tally(res)
    # scheduling only: literals that may stop a whole program (beyond 64 bits / double range) are
    # evaluated in processes of their own, and the 0b form (which this parser does not lex today) in a
    # program of its own, so that neither makes the bulk program be halved down
    binary = [s for s in strings if s[:2] == "0b"]
    risky = [s for s in strings if s not in binary and G.classify(s)[1] in RISKY_TAGS]
    safe = [s for s in strings if s not in binary and s not in risky]
    pairs = []
    dsl_eval(safe, res, tally, pairs)
    out, r = dsl_observe(binary) if binary else ([], None)
    if out is not None:
        pairs.extend(zip(binary, out))
    else:
        # the program of 0b literals fails: one literal per grammar category (and the four shortest) alone;
        # when the parser rejects every one of those, the remaining ones are not run one by one
        reps = list(dict.fromkeys([next(s for s in binary if G.classify(s)[1] == t)
                                   for t in sorted({G.classify(s)[1] for s in binary})] + sorted(binary, key=len)[:4]))
        before = res["stats"].get("dsl_literals_rejected_by_parser", 0)
        for s in reps:
            dsl_eval([s], res, tally, pairs)
        rest = [s for s in binary if s not in reps]
        if res["stats"].get("dsl_literals_rejected_by_parser", 0) - before == len(reps):
            res["skipped"] += len(rest)
            bump(res, "dsl_binary_literals_not_run_one_by_one", len(rest))
        else:
            dsl_eval(rest, res, tally, pairs)
    dsl_eval(risky, res, tally, pairs)               # in one program; halved down only if it fails
    ntk = []
    for s, o in pairs:
        exp, tag = G.classify(s, "default")
        bump(res, "tag:" + tag)
        t = o[0]
        got = (t,)
        try:
            if t == "int":
                got = ("int", int(o[1]))
            elif t == "float":
                got = ("float", float(o[2]))
        except (ValueError, IndexError):
            pass
        ok = any(x[0] == got[0] and (x[0] in ("string", "empty") or
                                     (len(got) > 1 and (x[1] == got[1] if x[0] == "int" else fbits(x[1]) == fbits(got[1]))))
                 for x in exp)
        if not ok:
            kind = "classification" if got[0] not in [x[0] for x in exp] else "value"
            tally.add({"kind": kind, "mode": "default", "carrier": "dsl", "tag": tag, "got": got[0], "want": exp[0][0],
                       "shape": shape(s)},
                      f"[DSL literal] {s} is {render(got)}; documented grammar: {' or '.join(render(x) for x in exp)} ({tag})",
                      {"argv": ["-n", "put", f'end{{print typeof({s}) . " " . fmtnum({s}, "%d") . " " . fmtnum({s}, "%.17le")}}'],
                       "expected": [list(x) for x in exp], "got": o})
        if nontrivial(s):
            ntk.append(skey(s))
    res["nontrivial_keys"] = ntk
    res["evals"] = len(pairs)
    bump(res, "classifications:dsl", len(pairs))
    if pairs:
        res["sample"] = {"carrier": "dsl", "mode": "default", "n": len(pairs), "example": pairs[len(pairs) // 2][0]}
    return res


# ------------------------------------------------------------------------------------------
# string sources

def valid_numeral(rng):
    k = rng.random()
    sign = rng.choice(["", "", "-", "+"])
    if k < 0.2:
        return sign + str(rng.choice([rng.randint(0, 99), rng.randint(0, 10 ** 6), rng.getrandbits(63), rng.getrandbits(70)]))
    if k < 0.35:
        return sign + rng.choice(["0x", "0x", "0X"]) + "".join(rng.choice("0123456789abcdefABCDEF") for _ in range(rng.choice([1, 2, 4, 8, 15, 16, 17])))
    if k < 0.42:
        return sign + rng.choice(["0b", "0B"]) + "".join(rng.choice("01") for _ in range(rng.choice([1, 3, 8, 63, 64, 65])))
    if k < 0.5:
        return sign + rng.choice(["0o", "0O"]) + "".join(rng.choice("01234567") for _ in range(rng.choice([1, 3, 8, 21, 22, 23])))
    if k < 0.58:
        return sign + "0" * rng.randint(1, 3) + str(rng.randint(0, 9999))
    ip = str(rng.randint(0, 10 ** rng.randint(0, 18))) if rng.random() < 0.85 else ""
    fp = "".join(rng.choice("0123456789") for _ in range(rng.randint(0 if ip else 1, rng.choice([1, 3, 17, 24]))))
    m = ip + ("." + fp if (fp or rng.random() < 0.3 or not ip) else "")
    if not any(ch.isdigit() for ch in m):
        m = "1" + m
    e = ""
    if rng.random() < 0.5:
        e = rng.choice("eE") + rng.choice(["", "+", "-"]) + str(rng.choice([0, 1, 5, 22, 23, 100, 307, 308, 309, 323, 324, 325, 400]))
    return sign + m + e


EDIT_CHARS = list("0123456789+-.eExXoObBaAfF_ ,'\"\t%$/:;pPnNiIlLuU#*()") + \
    ["٣", "１", " ", "−", "²", "é", "\x00", "\x7f"]


def near_miss(rng):
    s = valid_numeral(rng)
    for _ in range(rng.choice([1, 1, 1, 2])):
        op = rng.random()
        pos = rng.randint(0, len(s))
        if op < 0.4:
            s = s[:pos] + rng.choice(EDIT_CHARS) + s[pos:]
        elif op < 0.6 and s:
            pos = min(pos, len(s) - 1)
            s = s[:pos] + s[pos + 1:]
        elif op < 0.85 and s:
            pos = min(pos, len(s) - 1)
            s = s[:pos] + rng.choice(EDIT_CHARS) + s[pos + 1:]
        elif len(s) >= 2:
            pos = min(pos, len(s) - 2)
            s = s[:pos] + s[pos + 1] + s[pos] + s[pos + 2:]
    return s[:40]


def boundary_strings():
    out = []
    for k in (31, 32, 52, 53, 62, 63, 64, 65, 100):
        for d in (-2, -1, 0, 1, 2):
            v = (1 << k) + d
            for sg in ("", "-", "+"):
                out.append(sg + str(v))
                out.append(sg + hex(v))
                out.append(sg + "0X" + ("%X" % v))
                out.append(sg + bin(v))
                out.append(sg + oct(v))
                out.append(sg + str(v) + ".0")
                out.append(sg + str(v) + "e0")
                out.append(sg + "0x" + "0" * 3 + ("%x" % v))
    for s in ["9223372036854775807", "9223372036854775808", "-9223372036854775808", "-9223372036854775809",
              "18446744073709551615", "18446744073709551616", "99999999999999999999", "-99999999999999999999",
              "1" + "0" * 30, "1" + "0" * 308, "1" + "0" * 309, "9" * 400, "-" + "9" * 400,
              "0x7fffffffffffffff", "0x8000000000000000", "0xffffffffffffffff", "0xFFFFFFFFFFFFFFFF",
              "0x10000000000000000", "-0x8000000000000000", "-0xffffffffffffffff", "-0x7fffffffffffffff",
              "0x" + "f" * 17, "0x" + "0" * 20 + "1", "0b" + "1" * 63, "0b" + "1" * 64, "0b1" + "0" * 63, "0b1" + "0" * 64,
              "-0b1" + "0" * 63, "0o777777777777777777777", "0o1000000000000000000000", "0o1777777777777777777777",
              "0o2000000000000000000000", "-0o1000000000000000000000",
              "1e308", "1.7976931348623157e308", "1.7976931348623158e308", "1.7976931348623159e308", "1.8e308",
              "1e309", "1e400", "-1e400", "1e-307", "2.2250738585072014e-308", "2.2250738585072011e-308",
              "4.9406564584124654e-324", "4.9e-324", "5e-324", "2.5e-324", "2.4703282292062327e-324",
              "2.4703282292062328e-324", "2e-324", "1e-400", "-1e-400", "0e999", "0.0e-999",
              "9007199254740992", "9007199254740993", "9007199254740993.0", "9007199254740992.5",
              "0.1000000000000000055511151231257827021181583404541015625", "0.1", "0.30000000000000004",
              "1.00000000000000011102230246251565404236316680908203125",
              "1.00000000000000011102230246251565404236316680908203126",
              "1.00000000000000011102230246251565404236316680908203124",
              "123456789012345678", "1234567890123456789.5", "0." + "0" * 400 + "1", "1" + "0" * 400 + ".0",
              "0", "-0", "+0", "00", "-00", "0.0", "-0.0", "+0.0", "0.", ".0", "-.0", "0e0", "-0e0", "007", "08", "09", "0089",
              "-007", "+007", "0377", "06789", "0777777777777777777777", "01000000000000000000000",
              "-01000000000000000000000", "-01000000000000000000001", "089116986592244106796", "09223372036854775807",
              "09223372036854775808", "007.5", "00.5", "00e1", "08e1", "0_7", "1_000", "1,000", "1 000",
              "inf", "+inf", "-inf", "Inf", "INF", "infinity", "Infinity", "-Infinity", "NaN", "nan", "NAN", "-nan",
              "true", "false", "TRUE", "null", "0x", "0b", "0o", "0x-1", "0x+1", "0xg", "0b2", "0o8", "0x1p3", "0x1.8p1",
              "1e", "e1", "1e+", "1e-", ".e1", "+.e1", "1.e1", "1.5.", "1..5", "--1", "+-1", "-+1", "1-", "1+", "1e1e1",
              "1e1.5", " 1", "1 ", " 1 ", "\t1", "1\t", "1d5", "1D5", "1f", "1L", "1u", "0x1L", "1e5f", "１２３", "٣",
              "+", "-", ".", "-.", "+.", "e", "E", "x", "0e", "0x0", "0b0", "0o0", "-0x0", "0x00", "0X0", "0B1", "0O7",
              "0xABCDEF", "0xabcdef", "0xAbCdEf", "1E5", "1e+5", "1E-5", "-.5E+1", "5.", ".5", "-5.", "+.5"]:
        out.append(s)
    seen, uniq = set(), []
    for s in out:
        if s not in seen:
            seen.add(s)
            uniq.append(s)
    return uniq


STRUCT_SIGNS = ("", "+", "-")
STRUCT_HEADS = ("0x", "0X", "0b", "0B", "0o", "0O", "0x8", "0xf", "0", "00", "1", "9", ".", "0.", "1.", "1e", "1E", "1e-",
                "1e+", ".e", "e", "0e", "1.e", "0x1", "-", "+")


def struct_strings():
    """sign x head x every tail of length <= 2 over the core alphabet: the signed prefixed numerals,
    signed exponents and prefix + two digits that the short exhaustive enumeration does not reach."""
    tails = [""] + list(CORE20) + [a + b for a in CORE20 for b in CORE20]
    out = [sg + h + t for sg in STRUCT_SIGNS for h in STRUCT_HEADS for t in tails]
    return list(dict.fromkeys(out))


SORTINT_SIZES = (2, 3, 5, 8, 11, 12, 13, 20, 49, 50, 51, 100, 499, 500, 501, 1200)


def spell_int(rng, v, mode):
    """One of the documented spellings of the int64 value v (decimal, +decimal, 0x incl. the
    16-digit two's-complement form, 0o, 0b, signed prefixed forms; a 0-prefixed octal under -O)."""
    forms = [str(v), str(v)]
    m = -v if v < 0 else v
    sg = "-" if v < 0 else rng.choice(["", "", "+"])
    if v >= 0:
        forms.append("+" + str(v))
    if m < (1 << 63):
        forms += [sg + "0x%x" % m, sg + "0X%X" % m, sg + "0o%o" % m, sg + "0b" + bin(m)[2:]]
        if mode == "O":
            forms.append(sg + "0%o" % m)
    if v < 0:
        forms += ["0x%016x" % (v + (1 << 64))] * 2
    return rng.choice(forms)


def sortint_strings(case):
    """Values that typeof and arithmetic call int, most of them in clusters of DISTINCT ints that
    share one float64 (beyond 2^53, up to the int64 limits), a few small ints, floats of small
    magnitude (they cannot equal the double of two distinct ints) and non-numbers, shuffled."""
    rng = random.Random(case["seed"])
    n, mode = case["n"], case["mode"]
    lo, hi = G.MIN, G.MAX
    centers = [1 << 53, -(1 << 53), (1 << 53) + (1 << 20), 1 << 54, 1 << 55, 1 << 60, 1 << 62, -(1 << 62), hi, lo,
               hi - 1024, lo + 1024, rng.getrandbits(62) + (1 << 61), -(rng.getrandbits(62) + (1 << 61))]
    my = rng.sample(centers, rng.choice([1, 1, 2, 3]))
    vals = []
    n_other = 0 if n < 8 else rng.choice([0, 0, n // 8])
    while len(vals) < n - n_other:
        k = rng.random()
        if k < 0.1:
            v = rng.randint(-100, 100)
        elif k < 0.2:
            v = rng.randint(-(1 << 53), 1 << 53)
        else:
            w = rng.choice([1, 2, 3, 8, 8, 64, 600, 5000])
            v = rng.choice(my) + rng.randint(-w, w)
        vals.append(min(hi, max(lo, v)))
    out = [spell_int(rng, v, mode) for v in vals]
    for _ in range(n_other):
        out.append(rng.choice(["", "abc", "-", "0x", "1_000", "1.5", "-2.25e3", "0.1", "1e15", "-.5", "4503599627370496.5"]))
    # keep only spellings with ONE documented reading
    out = [s for s in out if len(G.classify(s, mode)[0]) == 1]
    rng.shuffle(out)
    return out


def make_strings(case):
    src = case["src"]
    if src == "enum":
        alpha, L, prefix = case["alpha"], case["L"], case.get("prefix", "")
        if case.get("upto"):
            out = []
            for l in range(0, L + 1):
                out += ["".join(t) for t in itertools.product(alpha, repeat=l)]
            return out
        return [prefix + "".join(t) for t in itertools.product(alpha, repeat=L - len(prefix))]
    if src == "near":
        rng = random.Random(case["seed"])
        return [near_miss(rng) if rng.random() < 0.8 else valid_numeral(rng) for _ in range(case["n"])]
    if src == "boundary":
        return boundary_strings()
    if src == "struct":
        return struct_strings()
    if src == "sortint":
        return sortint_strings(case)
    raise KeyError(src)


def w_batch(case):
    mode, carrier = case["mode"], case["carrier"]
    strings = make_strings(case)
    every = case.get("every", 1)
    if every > 1:                                    # systematic sample for the secondary carriers
        strings = strings[case.get("phase", 0)::every]
    n0 = len(strings)
    strings = [s for s in strings if carrier_ok(carrier, s)]
    res = case_result("c06:" + hashlib.sha1(repr(case).encode()).hexdigest()[:16])
    if carrier in ("dkvp", "csv", "jsonstr"):
        res["skipped"] += n0 - len(strings)
    elif n0 > len(strings):
        # number-token and cell carriers: the other strings cannot be written in the carrier at all
        bump(res, "not_expressible_in_carrier:" + carrier, n0 - len(strings))
    tally = Tally(res)
    if not strings:
        res["evals"] = 0
        return res
    obs = judge_batch(strings, mode, carrier, res, tally,
                      want_sort=case.get("sort", False), want_assert=case.get("asserting", False))
    res["evals"] = len(strings) if obs is not None else 0
    bump(res, f"classifications:{carrier}/{mode}", res["evals"])
    res["nontrivial_keys"] = [skey(s) for s in strings if nontrivial(s)]
    if obs:
        j = next((i for i, s in enumerate(strings) if nontrivial(s) and obs[i][0] in ("int", "float")), 0)
        res["sample"] = {"source": case["src"], "mode": mode, "carrier": carrier, "strings_in_batch": len(strings),
                         "example": {"string": strings[j], "observed": render(obs[j])}}
    return res


# ------------------------------------------------------------------------------------------

def run(chk):
    only = chk.only
    want = lambda name: (only is None) or (name in only)
    seed = f"{chk.seed}/C06/{chk.tier}"
    quick = chk.quick()

    chk.rule = (
        "cases = (string, inference mode, carrier). Strings: (enum) EXHAUSTIVE enumeration of every string of "
        "length <= %s over the 31-symbol alphabet [0-9 + - . a-f A-F x X o O _ space]%s; (struct) EXHAUSTIVE "
        "product sign {'', +, -} x %d heads (0x 0X 0b 0B 0o 0O 0x8 0xf 0 00 1 9 . 0. 1. 1e 1E 1e- 1e+ .e e 0e 1.e 0x1 - +) "
        "x every tail of length <= 2 over the 20-symbol core alphabet [%s] (%d strings: the signed prefixed "
        "numerals, signed exponents and prefix + digits that length <= 3 cannot hold); (near) seeded "
        "grammar-directed near-misses: a valid int / hex / binary / octal / leading-zero / float numeral of length "
        "<= 40 with one or two character edits (insert, delete, replace, transpose; 62 edit characters incl. "
        "separators, quotes, TAB, NUL, non-ASCII digits, NBSP, U+2212); (boundary) %d hand-listed magnitudes and "
        "shapes around 2^31..2^65, 2^100, 1e308, denormals, 17+ digit mantissas, exact halfway decimals, 400-digit "
        "ints, inf/nan/true words, dangling signs/points/exponents/prefixes, in decimal/hex/binary/octal with "
        "signs; (sortint) seeded shuffled batches of %s records (sizes around the sort cut-offs 12 / 50 and the "
        "500-record batch) of int-typed values in every documented spelling, clustered so that distinct ints share "
        "one float64 (2^53 .. 2^63-1, -2^63 ..), with a few small floats and non-numbers, default and -O. "
        "Modes default, -S, -A, -O. Carriers: DKVP field (all channels incl. asserting_* in both directions and sort "
        "-nf / -nr on the input as given and reversed), quoted CSV field, unquoted CSV / TSV / NIDX / XTAB / PPRINT / "
        "markdown cell, JSON string, JSON number token (strings that are RFC-8259 numbers) at top level and nested "
        "in arrays and maps, DSL literal (default mode, unsigned literal forms). Each observation channel of the put "
        "reads its own copy of the text. One evaluation = one classified (string, mode, carrier). A string is "
        "non-trivial when it mixes at least two of the classes {sign, digit, prefix letter xXoObB, point/exponent "
        ". e E}; distinct by string (modes and carriers are not counted as distinct)."
        % ((("3", "") if quick else ("4", " and of length 5 over the 20-symbol core alphabet [%s]" % CORE20))
           + (len(STRUCT_HEADS), CORE20, len(struct_strings()), len(boundary_strings()),
              "/".join(str(n) for n in SORTINT_SIZES))))
    chk.assumptions = [
        "Grammar (reference-main-arithmetic.md 'Input scanning', reference-main-data-types.md, property statement): "
        "[+-]?digits = int unless it has a leading zero (then string; -O: octal int when all digits are 0-7); "
        "[+-]?0[xX]hex, 0[bB]bin, 0[oO]oct = int; hex 0x8000000000000000..0xffffffffffffffff = two's-complement "
        "negative; C/Go decimal float syntax (digits with '.' and/or exponent, at least one mantissa digit; "
        "leading zeros allowed, as the docs' own 004.56 example shows) = float with the correctly rounded value; "
        "an integer that does not fit in int64 = float; '' = empty; everything else = string.",
        "Upper-case prefixes 0X 0B 0O are taken as equivalent to the documented lower-case ones.",
        "Where the documentation leaves a choice, every reading is accepted and the case is counted under "
        "'strings_where_docs_leave_a_choice': -O with a leading-zero number containing 8 or 9 (decimal int per "
        "reference-main-arithmetic.md / new-in-miller-6.md, float per reference-main-flag-list.md); a minus sign in "
        "front of a two's-complement hex literal (negated either as unsigned or as two's-complement value); binary "
        "/ octal literals with bit 63 set (float, or two's-complement int as for hex); decimal floats whose "
        "magnitude exceeds the double range, e.g. 1e400 (float Inf, or string as for the word 'Inf').",
        "-A: the value is float(int value); the text re-rendering of such a value ($x . \"\") is not compared.",
        "JSON strings are never inferred (string, or empty for \"\"); JSON number tokens are restricted to RFC-8259 "
        "numbers (top level, and inside arrays / nested maps); quoted CSV values are documented not to affect "
        "inference; values containing CR/LF (and, for DKVP, the US/RS separator bytes) are skipped - C01 owns those.",
        "Cell carriers are restricted to what the format can hold as one bare cell (C01 owns the encodings): unquoted "
        "CSV without comma / double quote; TSV without TAB / backslash; NIDX and PPRINT non-empty without space / TAB "
        "(PPRINT also without '|' and not the lone '-', that format's own marker for an empty cell); XTAB and markdown "
        "non-empty without edge blanks (markdown without '|' and not made of '-' ':' only, its alignment row). DCF, "
        "recutils and YAML are not used: file-formats.md shows DCF 'Version: 1.0' read as the string \"1.0\", i.e. no "
        "number inference is promised there.",
        "DSL literals: unsigned, no leading zero, lower-case prefixes: 7, 8.9, 1e5, 0xff, 0b1011, 0o377 and the bare-point "
        "float spellings 5. / .5 (reference-main-data-types.md 'Type inference for literal and record data' promises "
        "the same scan for data files and 'DSL expressions you key in'; reference-main-arithmetic.md lists the 0x 0o 0b "
        "prefixes), default mode only (-S/-A/-O are documented for data files). A literal of that set which the "
        "parser rejects is a violation (kind dsl-literal-rejected), not a skip.",
        "sort -nf: numbers (as typeof sees them) must come first in non-decreasing order, everything else after them "
        "(sort --help: 'nulls sort last'; sorting.md: 'numbers numerically, then strings'); sort -nr: the mirror image "
        "('nulls sort first'). Two ints are compared exactly - the property makes sort -n agree with the one "
        "classification, for which 2^63-1 and 2^63-2 are distinct ints; an int and a float, or two floats, as doubles. "
        "The exact order of two ints is not demanded when the batch holds a float of the same double value (it equals "
        "both as a double; counted under 'sort_int_pairs_not_judged_float_of_same_double_in_batch'). Equal values may "
        "come in any order; order among non-numbers is C09's subject.",
        "A process that stalls (deadlock / CPU cap / output cap) on a finite batch is bisected to one string and "
        "reported (kind hang); only a watchdog 'slow' verdict is inconclusive.",
        "$x + 0 of the empty string is not compared (C08's subject).",
    ]

    modes = list(G.MODES)
    cases = []
    if want("enum"):
        # length <= 3 (quick) / <= 4 (thorough) over the full alphabet: every mode, DKVP with all channels
        for mode in modes:
            cases.append({"src": "enum", "alpha": ALPHA31, "L": 3, "upto": True, "mode": mode, "carrier": "dkvp",
                          "sort": True, "asserting": True})
            for carrier in SECONDARY:
                cases.append({"src": "enum", "alpha": ALPHA31, "L": 3, "upto": True, "mode": mode, "carrier": carrier})
            for ci, carrier in enumerate(MORE_CARRIERS):
                # quick: a systematic third of the strings per cell-type carrier (the phase rotates with carrier and mode)
                cases.append(dict({"src": "enum", "alpha": ALPHA31, "L": 3, "upto": True, "mode": mode, "carrier": carrier},
                                  **({"every": 3, "phase": (ci + modes.index(mode)) % 3}
                                     if quick and carrier != "jsonnest" else {})))
        if not quick:
            for mode in modes:
                for ch in ALPHA31:
                    cases.append({"src": "enum", "alpha": ALPHA31, "L": 4, "prefix": ch, "mode": mode, "carrier": "dkvp",
                                  "sort": (mode in ("default", "O")) and "lite", "asserting": mode == "default"})
                    for ci, carrier in enumerate(("csv", "jsonstr") + MORE_CARRIERS[:-1]):
                        cases.append({"src": "enum", "alpha": ALPHA31, "L": 4, "prefix": ch, "mode": mode,
                                      "carrier": carrier, "every": 10, "phase": ci})
                    for carrier in ("jsonnum", "jsonnest"):
                        cases.append({"src": "enum", "alpha": ALPHA31, "L": 4, "prefix": ch, "mode": mode, "carrier": carrier})
                for ch in CORE20:
                    cases.append({"src": "enum", "alpha": CORE20, "L": 5, "prefix": ch, "mode": mode, "carrier": "dkvp",
                                  "sort": (mode == "default") and "lite"})
                    for ci, carrier in enumerate(("csv", "jsonstr") + MORE_CARRIERS[:-1]):
                        cases.append({"src": "enum", "alpha": CORE20, "L": 5, "prefix": ch, "mode": mode,
                                      "carrier": carrier, "every": 10, "phase": (3 + ci) % 10})
                    for carrier in ("jsonnum", "jsonnest"):
                        cases.append({"src": "enum", "alpha": CORE20, "L": 5, "prefix": ch, "mode": mode, "carrier": carrier})
    if want("struct"):
        for mode in modes:
            cases.append({"src": "struct", "mode": mode, "carrier": "dkvp", "sort": mode in ("default", "O"),
                          "asserting": mode == "default"})
            for ci, carrier in enumerate(SECONDARY + MORE_CARRIERS):
                cases.append(dict({"src": "struct", "mode": mode, "carrier": carrier},
                                  **({"every": 3, "phase": (ci + modes.index(mode)) % 3}
                                     if quick and carrier not in ("jsonnum", "jsonnest") else {})))
    if want("near"):
        nb, per = (1, 5000) if quick else (10, 20000)
        for i in range(nb):
            for mode in modes:
                cases.append({"src": "near", "seed": f"{seed}/near/{i}", "n": per, "mode": mode, "carrier": "dkvp",
                              "sort": True, "asserting": i == 0})
                if quick or i == 0:
                    for carrier in SECONDARY + MORE_CARRIERS:
                        cases.append({"src": "near", "seed": f"{seed}/near/{i}", "n": per, "mode": mode, "carrier": carrier})
    if want("boundary"):
        for mode in modes:
            for carrier in ("dkvp",) + SECONDARY + MORE_CARRIERS:
                cases.append({"src": "boundary", "mode": mode, "carrier": carrier,
                              "sort": carrier == "dkvp", "asserting": carrier == "dkvp"})
    if want("sortint"):
        # int-only clusters beyond 2^53 in every batch size around the sort routines' small-slice cut-offs
        # (12, 50) and the 500-record batch; default and -O (under -A the same values ARE floats)
        for rep in range(2 if quick else 12):
            for n in SORTINT_SIZES:
                for mode in ("default", "O"):
                    cases.append({"src": "sortint", "seed": f"{seed}/sortint/{rep}/{n}/{mode}", "n": n, "mode": mode,
                                  "carrier": "dkvp", "sort": True})
    # biggest first, so that the pool drains evenly
    cases.sort(key=lambda c: -(len(c["alpha"]) ** (c["L"] - len(c.get("prefix", ""))) if c["src"] == "enum" else
                               (20000 if c["src"] == "struct" else c.get("n", 500))))
    if cases:
        chk.pmap(w_batch, cases, label="data carriers")
    if want("dsl"):
        dcases = [{"src": "enum", "alpha": ALPHA31, "L": 3, "upto": True}, {"src": "boundary"}, {"src": "struct"},
                  {"src": "near", "seed": f"{seed}/near/0", "n": 5000 if quick else 20000}]
        if not quick:
            dcases += [{"src": "enum", "alpha": ALPHA31, "L": 4, "prefix": ch} for ch in "0123456789."]
        chk.pmap(w_dsl, dcases, label="DSL literals")

    st = chk.stats
    tags = {k.split(":", 1)[1]: v for k, v in st.items() if k.startswith("tag:")}
    cls = {k.split(":", 1)[1]: v for k, v in st.items() if k.startswith("classifications:")}
    for k in list(st):
        if k.startswith("tag:") or k.startswith("classifications:"):
            del st[k]
    chk.extra["classifications_per_carrier_and_mode"] = cls
    chk.extra["classifications_per_grammar_category"] = tags
    chk.extra["carriers_reached"] = sorted({k.split("/")[0] for k in cls})
    chk.extra["modes_reached"] = sorted({k.split("/")[1] for k in cls if "/" in k})
    chk.extra["exhaustive_bound"] = ("all strings of length <= 3 over the 31-symbol alphabet (30784 strings) x 4 modes x "
                                     "{dkvp, csv, json string} (a systematic third on the other cell carriers), plus the "
                                     "sign x head x tail product (%d strings). Length <= 3 alone holds no signed prefixed "
                                     "numeral (-0x1), no signed exponent (1e-5) and no sign + 0x + two digits: in this tier "
                                     "those are covered by the product set and the seeded near-misses only, exhaustively "
                                     "(length <= 4, and 5 over the core alphabet) in the thorough tier" % len(struct_strings())
                                     if quick else
                                     "all strings of length <= 4 over the 31-symbol alphabet (954305) and of length 5 over "
                                     "the 20-symbol core alphabet (3200000) x 4 modes on the dkvp carrier")
    chk.exhaustive = bool(want("enum"))
