"""C08 - absent/empty null-data algebra (DESIGN.md section 3, C08).

Monitors (all decide by observing the real binary; the rules are written from
reference-main-null-data.md, reference-dsl-operators.md, reference-main-data-types.md
and `mlr help function ...`, never from Miller's Go tables):
  m  binary operator x operand x operand matrix: R-abs-abs, R-abs-id, R-empty-num, R-error,
     R-comm (kind and value), R-twin (.+ ~ +, .- ~ -, .* ~ *, pow ~ **)
  u  unary operators and class=math functions x operand: R-math-abs, R-abs-abs (unary), R-error,
     R-math-empty; variadic min/max at arity 0..3 (fold consistency)
  a  assignment forms x absent sources (+ present controls): R-assign-skip
  s  accumulation idioms end to end (@sum[$a] += $x ...) against a Python fold
  p  is_* / asserting_* predicates x values: R-pred
  d  the tables recorded in reference-main-null-data.md for + && || against evaluated cells
  f  the matrix and the predicates again over operands read from DKVP / CSV files
R-type (all matrix monitors): the type rules the documentation states, as an expectation independent of the binary; cells
the documentation leaves open are counted as unjudged, never compared with a recording of the binary.
"""
import hashlib
import json
import os
import random
import re

from .. import run as R
from ..harness import add_violation, bump, case_result

BINARIES = ("mlr-verif",)
LEVEL = "exploration"

ENV = {"MLR_NO_SHELL": "1"}
INPUT = '{"i":3,"f":2.5,"b":true,"e":"","s":"abc","n":null}\n'
PRELUDE_FUNCS = ('func fabs() { if (false) { return 1 } }\n'
                 'func fid(a) { return a }\n'
                 'func fkeep(a) { var y = 5; y = a; return y }\n'
                 'func fkeepn(a) { num y = 5; y = a; return y }\n')
PRELUDE_LOCALS = ('fn = func(a) {return a};\n'
                  'err = 1/"x";\n')
PRELUDE = PRELUDE_FUNCS + PRELUDE_LOCALS
DOC_NULL = "/repo/docs/src/reference-main-null-data.md"

KINDS = ["int", "float", "boolean", "empty", "string", "bytes", "array", "map", "funct", "error", "null", "absent"]
ABBR = {"int": "i", "float": "f", "boolean": "b", "empty": "E", "string": "s", "bytes": "y", "array": "A",
        "map": "M", "funct": "F", "error": "!", "null": "n", "absent": "-", "FATAL": "X", "CRASH": "C"}
SCALARS = ("int", "float", "boolean", "empty", "string", "bytes")   # reference-main-data-types.md "Scalars" (+ empty string)
NULLISH = ("absent", "empty", "error", "null")


# operand source of the case being run in this worker process: None = the JSON record INPUT, else
# {"name", "flags", "stdin"} (values read from a DKVP / CSV file); set and reset by the case functions that support it
_IO = None


def _flags():
    return list(_IO["flags"]) if _IO else ["--ijson", "--ojson"]


def _stdin():
    return _IO["stdin"] if _IO else INPUT


def _run_io(func, case):
    global _IO
    _IO = case.get("io")
    try:
        return func(case)
    finally:
        _IO = None


def _h(*xs):
    return hashlib.sha1(repr(xs).encode()).hexdigest()[:16]


# ------------------------------------------------------------------------------------------
# operands: (kind, DSL expression, canonical?, soft?) ; soft = dropped silently when the binary
# does not give it the intended kind (construction not pinned by the docs)

def operand_pool(tier):
    P = [
        ("int", "$i", True, False), ("float", "$f", True, False), ("boolean", "$b", True, False),
        ("empty", "$e", True, False), ("string", "$s", True, False), ("bytes", 'b"\\x01\\xff"', True, False),
        ("array", "[1,2]", True, False), ("map", '{"a":1}', True, False), ("funct", "fn", True, False),
        ("error", "err", True, False), ("null", "$n", True, False), ("absent", "$nosuch", True, False),
        # second sources, also in the quick tier
        ("absent", "@nosuch", False, False), ("empty", '""', False, False), ("null", "null", False, False),
        ("boolean", "false", False, False),
    ]
    if tier == "thorough":
        P += [
            ("int", "7", False, False), ("int", "-1", False, False), ("int", "9223372036854775807", False, False),
            ("int", "0xff", False, False), ("int", "0", False, False),
            ("float", "-0.0", False, False), ("float", "1e300", False, False), ("float", "-1.5", False, False),
            ("float", "(0.0/0.0)", False, True), ("float", "(1.0/0.0)", False, True),
            ("boolean", "true", False, False),
            ("string", '"0"', False, False), ("string", '"true"', False, False), ("string", '"hello world"', False, False),
            ("bytes", 'b""', False, True),
            ("array", "[]", False, False), ("array", '[[1],"a"]', False, False),
            ("map", "{}", False, False),
            ("error", '("a"+1)', False, False), ("error", 'abs("x")', False, False),
            ("absent", "nosuchlocal", False, False), ("absent", '{}["x"]', False, False),
            ("absent", '$*["nosuch"]', False, False), ("absent", "fabs()", False, False),
        ]
    return [{"id": n, "kind": k, "expr": e, "canon": c, "soft": s} for n, (k, e, c, s) in enumerate(P)]


# operands read from DATA FILES (reference-main-null-data.md: empty = "x=,y=2 in the data input stream"; for CSV "the only way
# a value can be missing is to be empty"; reference-main-arithmetic.md / data-types: from-data 0xff and 1e3 are numbers, `-`,
# `true`, `infinity` and ` ` are strings, a field the record lacks is absent)
FROM_DATA_FIELDS = [
    # (field, text in the file, documented kind)
    ("i", "3", "int"), ("f", "2.5", "float"), ("e", "", "empty"), ("s", "abc", "string"), ("hx", "0xff", "int"),
    ("sci", "1e3", "float"), ("dash", "-", "string"), ("t", "true", "string"), ("sp", " ", "string"), ("neg", "-7", "int"),
    ("z", "0", "int"), ("inf", "infinity", "string"), ("e2", "", "empty"),
]


def from_data_sources():
    names = [f for f, _, _ in FROM_DATA_FIELDS]
    vals = [v for _, v, _ in FROM_DATA_FIELDS]
    return [
        {"name": "dkvp", "flags": ["--idkvp", "--ojson"], "stdin": ",".join(f"{n}={v}" for n, v in zip(names, vals)) + "\n"},
        {"name": "csv", "flags": ["--icsv", "--ojson"], "stdin": ",".join(names) + "\n" + ",".join(vals) + "\n"},
    ]


def from_data_pool():
    P = [{"id": 100 + n, "kind": k, "expr": "$" + f, "canon": False, "soft": False, "text": v}
         for n, (f, v, k) in enumerate(FROM_DATA_FIELDS)]
    P.append({"id": 199, "kind": "absent", "expr": "$nosuch", "canon": False, "soft": False, "text": ""})
    return P


def calibrate_from_data(io, labelmap):
    """typeof and printed text of every from-data operand must be the documented kind and the file's own text"""
    global _IO
    pool = from_data_pool()
    _IO = io
    try:
        got = eval_cells([(str(o["id"]), "(" + o["expr"] + ")") for o in pool])
    finally:
        _IO = None
    keep, problems = [], []
    for o in pool:
        lab, txt = got[str(o["id"])]
        k = labelmap.get(lab, lab)
        if k != o["kind"] or (k != "absent" and txt != o["text"]):
            problems.append((o, k, txt))
        else:
            keep.append(o)
    return keep, problems


# ------------------------------------------------------------------------------------------
# evaluating many expressions in one process; a batch that dies is bisected

def _prog(prelude, units, wrap=None):
    """wrap = "begin" | "end": the statements run inside that block (function definitions stay at top level)"""
    lines = [prelude] if not wrap else [PRELUDE_FUNCS, wrap + " {", PRELUDE_LOCALS]
    for uid, stmts, obs in units:
        if stmts:
            lines.append(stmts)
        for cid, expr in obs:
            lines.append(f'print "<<<{cid} ".typeof({expr}); print {expr}; print ">>>";')
    if wrap:
        lines.append("}")
    return "\n".join(lines)


def _parse(out):
    got = {}
    cur = None
    for line in out.split("\n"):
        if cur is None:
            if line.startswith("<<<"):
                parts = line[3:].split(" ", 1)
                if len(parts) == 2:
                    cur = (parts[0], parts[1], [])
        elif line == ">>>":
            got[cur[0]] = (cur[1], "\n".join(cur[2]))
            cur = None
        else:
            cur[2].append(line)
    return got


def eval_units(units, res=None, prelude=PRELUDE, stdin=INPUT, wrap=None):
    """units: list of (unit id, statements to run first, [(cell id, expression to observe)]).
    Returns {cell id: (typeof label, printed text)}; if a unit ends the process all its cells get
    ("FATAL"|"CRASH"|"SLOW", stderr excerpt). A batch that dies is bisected down to the culprit."""
    if not units:
        return {}
    # the program goes through a file: one argv string is limited to 128 KiB
    if _IO and stdin is INPUT:
        stdin = _IO["stdin"]
    r = R.mlr(_flags() + ["put", "-q", "-f", "prog.mlr"], stdin=stdin, env=ENV,
              files={"prog.mlr": _prog(prelude, units, wrap)})
    if res is not None:
        bump(res, "processes")
    got = _parse(r.out) if r.verdict == "exited" else {}
    if r.ok and all(cid in got for _, _, obs in units for cid, _ in obs):
        return got
    if len(units) == 1:
        if r.verdict != "exited":
            v = ("SLOW" if r.verdict == "slow" else "CRASH", r.verdict)
        elif r.crashed():
            v = ("CRASH", r.err[-1500:])
        elif r.rc != 0:
            v = ("FATAL", r.err[-400:])
        else:
            v = ("FATAL", "no output for the cell: " + r.out[-200:])
        return {cid: v for cid, _ in units[0][2]}
    mid = len(units) // 2
    out = eval_units(units[:mid], res, prelude, stdin, wrap)
    out.update(eval_units(units[mid:], res, prelude, stdin, wrap))
    return out


def eval_cells(cells, res=None, prelude=PRELUDE, stdin=INPUT):
    """cells: list of (id string, expression)."""
    return eval_units([(cid, "", [(cid, expr)]) for cid, expr in cells], res, prelude, stdin)


def replay_argv(expr, prelude=PRELUDE):
    return _flags() + ["put", "-q", prelude + f"print typeof({expr}); print {expr};"]


def parse_num(text):
    t = (text or "").strip()
    m = re.fullmatch(r"([+-]?)(0x[0-9a-fA-F]+|0b[01]+|0o[0-7]+|[0-9]+)", t)
    try:
        if m:
            u = m.group(2)
            v = int(u, 0) if u[:2].lower() in ("0x", "0b", "0o") else int(u, 10)
            return -v if m.group(1) == "-" else v
        if re.fullmatch(r"[+-]?(inf|Inf|NaN|nan|[0-9.]+([eE][+-]?[0-9]+)?)", t):
            return float(t)
    except ValueError:
        return None
    return None


def same_value(t1, t2):
    if t1 == t2:
        return True
    a, b = parse_num(t1), parse_num(t2)
    if a is None or b is None:
        return False
    if isinstance(a, float) or isinstance(b, float):
        try:
            a, b = float(a), float(b)
        except OverflowError:
            return False
        if a != a:
            return b != b
    return a == b


def neg_value(t1, t2):
    a, b = parse_num(t1), parse_num(t2)
    if a is None or b is None:
        return False
    if isinstance(a, float) or isinstance(b, float):
        try:
            a, b = float(a), float(b)
        except OverflowError:
            return False
        if a != a:
            return b != b
        return a == -b
    return a == -b


# ------------------------------------------------------------------------------------------
# calibration: what typeof says for each operand, and its printed text

def calibrate(pool):
    got = eval_cells([(str(o["id"]), "(" + o["expr"] + ")") for o in pool])
    labelmap = {}
    problems = []
    for o in pool:
        lab, txt = got[str(o["id"])]
        o["label"], o["text"] = lab, txt
        if o["canon"]:
            if lab in labelmap or lab in ("FATAL", "CRASH", "SLOW"):
                problems.append(f"canonical {o['kind']} operand {o['expr']} has typeof {lab!r} (ambiguous or fatal)")
            labelmap[lab] = o["kind"]
    keep = []
    for o in pool:
        k = labelmap.get(o["label"])
        if k == o["kind"]:
            keep.append(o)
        elif o["soft"]:
            o["dropped"] = True
        else:
            problems.append(f"operand {o['expr']} is documented to be {o['kind']} but typeof says {o['label']!r}")
            o["dropped"] = True
    return labelmap, keep, problems


# ------------------------------------------------------------------------------------------
# (m) binary matrix

ARITH = ["+", "-", "*", "/", "//", "%", "**", ".+", ".-", ".*", "./"]
BITWISE = ["&", "|", "^", "<<", ">>", ">>>"]
COMPARE = ["<", "<=", "==", "!=", ">=", ">", "<=>"]
LOGICAL = ["&&", "||", "^^"]
COALESCE = ["??", "???"]
REGEX = ["=~", "!=~"]
INFIX = ARITH + BITWISE + ["."] + COMPARE + LOGICAL + COALESCE + REGEX
MINMAX = ["min", "max"]
COMMUTATIVE = ["+", "*", "&", "|", "^", ".+", ".*", "min", "max", "==", "!=", "^^"]
EMPTYNUM = ["+", "-", "*", ".+", ".-", ".*"]
TWINS = [(".+", "+"), (".-", "-"), (".*", "*"), ("pow", "**")]
DIVLIKE = ["/", "//", "%", "./"]


def abs_id_domain(op):
    if op in ARITH or op in ("pow",):
        return ("int", "float")
    if op in BITWISE:
        return ("int",)
    if op == ".":
        return ("int", "float", "boolean", "empty", "string", "bytes")
    if op in MINMAX:
        return ("int", "float", "boolean", "empty", "string")
    if op == "^^":
        return ("boolean",)     # "Other arithmetic, boolean, and bitwise operators besides && and || are similar to +"
    return ()


def bexpr(op, a, b, form):
    if form == "func":
        return f"{op}({a}, {b})"
    return f"({a}) {op} ({b})"


# ---- R-type: the type rules the documentation states, as an expectation that never looks at the binary.
# Sources: the (+) table of reference-main-null-data.md and the sentence under it ("Other arithmetic, boolean, and
# bitwise operators besides && and || are similar to +"); "Most functions/operators which have one or more empty
# arguments produce empty output" (same page); reference-main-data-types.md ("Generally strings, numbers, and booleans
# don't mix ... the dot operator has been generalized to stringify non-strings"; error = "input ... of the wrong type");
# function help of < == ("Mixing number and string results in string compare"), <=>, ?? and ???, . ; for min/max
# reference-dsl-operators.md ("if one argument is absent-null, the other is returned. Empty-null loses min or max against
# numeric or boolean; empty-null is less than any other string"), the help ("Min of n numbers; null loses ... recurse into
# arrays and maps") and the mixed-data note of stats1/merge-fields ("numbers are less than strings").
# A cell the documentation leaves open returns None and is counted as unjudged; nothing is taken from the binary.

WRONGTYPE = ("boolean", "string")      # non-numeric, non-null scalars: arithmetic/bitwise/math on them is a type error
S7 = ("int", "float", "boolean", "empty", "string", "absent", "error")
NUM = ("int", "float")


def _numlike(o):
    return o["kind"] == "string" and (parse_num(o["text"]) is not None or o["text"] in ("true", "false"))


def _canon_dec(o):
    """number whose text is plain decimal (so that 'string compare' of it is unambiguous)"""
    return re.fullmatch(r"-?(0|[1-9][0-9]*)(\.[0-9]+)?", o["text"] or "") is not None


def _isnan(o):
    v = parse_num(o["text"])
    return isinstance(v, float) and v != v


def _cmp_expected(op, a, b):
    ka, kb = a["kind"], b["kind"]
    strs = ("string", "empty")
    if ka in NUM and kb in NUM:
        if _isnan(a) or _isnan(b):
            return None
        x, y = parse_num(a["text"]), parse_num(b["text"])
        if x is None or y is None:
            return None
        c = (x > y) - (x < y)
        cls = "num-num"
    elif ka in strs and kb in strs:
        c = (a["text"] > b["text"]) - (a["text"] < b["text"])
        cls = "str-str"
    elif (ka in NUM and kb in strs) or (ka in strs and kb in NUM):
        # "Mixing number and string results in string compare"
        if op == "<=>" or _numlike(a) or _numlike(b):
            return None
        n = a if ka in NUM else b
        if not _canon_dec(n):
            return None
        c = (a["text"] > b["text"]) - (a["text"] < b["text"])
        cls = "num-str"
    else:
        return None
    if op == "<=>":
        return {"kinds": ("int",), "sign": c, "cls": cls}
    v = {"<": c < 0, "<=": c <= 0, "==": c == 0, "!=": c != 0, ">=": c >= 0, ">": c > 0}[op]
    return {"kinds": ("boolean",), "text": "true" if v else "false", "cls": cls}


def _flatten_numbers(o):
    """numbers inside an array/map operand whose printed text is JSON holding only numbers, else None"""
    try:
        v = json.loads(o["text"])
    except ValueError:
        return None
    out = []

    def walk(x):
        if isinstance(x, bool) or x is None or isinstance(x, str):
            raise ValueError
        if isinstance(x, (int, float)):
            out.append(x)
        elif isinstance(x, list):
            for y in x:
                walk(y)
        elif isinstance(x, dict):
            for y in x.values():
                walk(y)
    try:
        walk(v)
    except ValueError:
        return None
    return out or None


def minmax_model(f, ops):
    """Documented result of min/max over the operand list, or None where the documentation is silent.
    -> {"kinds": (...), "text": str|None, "value": number|None, "cls": str}"""
    ops = [o for o in ops if o["kind"] != "absent"]          # absent-null: the other is returned
    if not ops:
        return {"kinds": ("absent",), "cls": "all-absent"}
    if any(o["kind"] not in ("int", "float", "boolean", "empty", "string", "array", "map") for o in ops):
        return None
    nums, strs, bools, had_coll = [], [], [], False
    for o in ops:
        if o["kind"] in NUM:
            if _isnan(o):
                return None
            v = parse_num(o["text"])
            # the kind is the operand's, not what its printed text looks like (the float -0.0 prints as -0)
            nums.append(float(v) if (v is not None and o["kind"] == "float") else v)
        elif o["kind"] in ("array", "map"):
            fl = _flatten_numbers(o)              # "recurse into arrays and maps"
            if fl is None:
                return None
            nums += fl
            had_coll = True
        elif o["kind"] == "boolean":
            bools.append(o["text"])
        else:
            if _numlike(o):
                return None
            strs.append(o["text"])
    if any(v is None for v in nums):
        return None
    had_empty = "" in strs
    if (nums or bools) and had_empty:
        strs = [s for s in strs if s != ""]       # "Empty-null loses min or max against numeric or boolean"
    cls = "+".join(c for c, present in (("num", nums), ("bool", bools), ("str", strs)) if present)
    if had_empty:
        cls += "+empty"
    if bools and had_coll:
        return None
    if bools and (nums or strs):
        # where booleans collate against numbers and strings is not documented: only selection is judged
        return {"kinds": None, "select": True, "cls": cls}
    if bools:
        if len(set(bools)) == 1:
            return {"kinds": ("boolean",), "text": bools[0], "cls": cls}
        return {"kinds": ("boolean",), "select": True, "cls": cls}
    if nums and (not strs or f == "min"):
        v = min(nums) if f == "min" else max(nums)    # numbers are less than strings
        ints = all(isinstance(x, int) for x in nums)
        floats = all(isinstance(x, float) for x in nums)
        kinds = ("int",) if ints else ("float",) if (floats and not had_coll) else ("int", "float")
        return {"kinds": kinds, "value": v, "cls": cls}
    v = min(strs) if f == "min" else max(strs)
    return {"kinds": ("empty",) if v == "" else ("string",), "text": v, "cls": cls}


def _doc_token(o):
    k = o["kind"]
    if k == "boolean":
        return o["text"]
    if k == "int":
        return "3"           # the tables' representative of a non-boolean number
    return {"empty": "(empty)", "absent": "(absent)", "error": "(error)"}.get(k)


def doc_expect(op, a, b, math2=(), doctab=None):
    """What the documentation says about `a op b`, or None."""
    ka, kb = a["kind"], b["kind"]
    if op in MINMAX:
        return minmax_model(op, [a, b])
    if op in ARITH or op in BITWISE or op == "pow" or op in math2:
        if ka not in S7 or kb not in S7:
            return None
        if _numlike(a) or _numlike(b):
            return None
        isfunc = op in math2 and op != "pow"
        dom = ("int",) if op in BITWISE else NUM
        if ka in WRONGTYPE or kb in WRONGTYPE:
            if isfunc and "absent" in (ka, kb):
                return None
            return {"kinds": ("error",), "cls": "wrong-type"}
        if "error" in (ka, kb):
            if isfunc and "absent" in (ka, kb):
                return None
            return {"kinds": ("error",), "cls": "error-operand"}
        if ka in ("empty", "absent") and kb in ("empty", "absent"):
            if isfunc and "absent" in (ka, kb):
                return {"kinds": ("absent",), "cls": "func-of-absent"}
            return {"kinds": ("empty",) if ka == kb == "empty" else ("absent",), "cls": "null-null"}
        if "absent" in (ka, kb):
            return None                # R-abs-id / R-func-abs judge these (with the value)
        if (ka in NUM and ka not in dom) or (kb in NUM and kb not in dom):
            return None                # float with a bitwise operator: not documented
        if "empty" in (ka, kb):
            x = b if ka == "empty" else a
            if op in EMPTYNUM:
                return None            # R-empty-num judges these (with the value)
            if isfunc:
                return {"kinds": ("empty",), "cls": "func-of-empty"}
            # "similar to +" says the number, "most operators with an empty argument produce empty" says empty
            return {"kinds": ("empty", x["kind"]), "cls": "empty-num"}
        return {"kinds": ("int",) if op in BITWISE else NUM, "cls": "num-num"}
    if op == ".":
        D = ("int", "float", "boolean", "empty", "string", "absent")
        if ka not in D or kb not in D:
            return None
        text = ("" if ka == "absent" else a["text"]) + ("" if kb == "absent" else b["text"])
        if ka == kb == "absent":
            return {"kinds": ("absent",), "cls": "null-null"}
        if text == "":
            return {"kinds": ("empty",), "text": "", "cls": "null-null"}
        kinds = ["string"]
        if ka in ("absent", "empty"):
            kinds.append(kb)
        if kb in ("absent", "empty"):
            kinds.append(ka)
        if parse_num(text) is not None:
            kinds += ["int", "float"]      # whether a number-looking concatenation is re-inferred is not documented
        return {"kinds": tuple(kinds), "text": text, "cls": "concat"}
    if op in COMPARE:
        return _cmp_expected(op, a, b)
    if op in ("&&", "||"):
        # prose under the tables: `false && X` is false and `true || X` is true whatever X is
        if ka == "boolean" and a["text"] == ("false" if op == "&&" else "true"):
            return {"kinds": ("boolean",), "text": a["text"], "cls": "short-circuit"}
        tab = (doctab or {}).get(op)
        ta, tb = _doc_token(a), _doc_token(b)
        if tab and ta and tb and (ta, tb) in tab:
            v = tab[(ta, tb)]
            if v in ("true", "false"):
                return {"kinds": ("boolean",), "text": v, "cls": "doc-table"}
            if v in DOC_TOKEN:
                return {"kinds": (DOC_TOKEN[v][0],), "cls": "doc-table"}
        return None
    if op in LOGICAL:
        if ka == kb == "boolean":
            x, y = a["text"] == "true", b["text"] == "true"
            v = {"&&": x and y, "||": x or y, "^^": x != y}[op]
            return {"kinds": ("boolean",), "text": "true" if v else "false", "cls": "bool-bool"}
        if op == "^^" and ka in S7 and kb in S7 and not _numlike(a) and not _numlike(b):
            if ka in ("int", "float", "string") or kb in ("int", "float", "string"):
                return {"kinds": ("error",), "cls": "wrong-type"}
            if "error" in (ka, kb):
                return {"kinds": ("error",), "cls": "error-operand"}
        return None
    if op in COALESCE:
        if ka in ("error", "null"):
            return None
        take_b = ka == "absent" or (op == "???" and ka == "empty")
        x = b if take_b else a
        return {"kinds": (x["kind"],), "text": x["text"], "cls": "coalesce-right" if take_b else "coalesce-left"}
    if op in REGEX:
        if ka in ("string", "empty") and kb in ("string", "empty") and re.fullmatch(r"[A-Za-z0-9 ]*", b["text"]):
            v = b["text"] in a["text"]
            if op == "!=~":
                v = not v
            return {"kinds": ("boolean",), "text": "true" if v else "false", "cls": "str-str"}
        return None
    return None


def judge_expect(exp, k, txt, operands):
    """-> None if (k, txt) satisfies the expectation, else a short description of what was expected."""
    if exp.get("select"):
        for o in operands:
            if o["kind"] == k and (same_value(txt, o["text"]) or k in ("array", "map")):
                return None
        if exp.get("kinds") and k not in exp["kinds"]:
            return "one of its arguments (" + "/".join(exp["kinds"]) + ")"
        return "one of its arguments"
    if exp.get("kinds") is not None and k not in exp["kinds"]:
        return "/".join(exp["kinds"])
    if exp.get("text") is not None and k not in ("error", "absent"):
        if txt != exp["text"] and not (k in NUM and same_value(txt, exp["text"])):
            return f"{'/'.join(exp['kinds'])} {exp['text']!r}"
    if exp.get("value") is not None:
        v = parse_num(txt)
        if v is None or float(v) != float(exp["value"]):
            return f"{'/'.join(exp['kinds'])} {exp['value']!r}"
    if exp.get("sign") is not None:
        v = parse_num(txt)
        if v is None or ((v > 0) - (v < 0)) != exp["sign"]:
            return f"an int of sign {exp['sign']}"
    return None


def matrix_case(case):
    return _run_io(_matrix_case, case)


def _matrix_case(case):
    op, form, pool, labelmap = case["op"], case["form"], case["pool"], case["labelmap"]
    src = (case.get("io") or {}).get("name")
    res = case_result(_h("m", op, case["tier"], src), nontrivial=False, evals=0)
    byid = {o["id"]: o for o in pool}
    cells = []
    skipped_div0 = 0
    for a in pool:
        for b in pool:
            if op in DIVLIKE and b["kind"] in ("int", "float") and parse_num(b["text"]) == 0:
                skipped_div0 += 1      # division by numeric zero is C07's subject
                continue
            cells.append((f"{a['id']}_{b['id']}", bexpr(op, a["expr"], b["expr"], form)))
    res["skipped"] += skipped_div0
    got = eval_cells(cells, res)
    exprs = dict(cells)
    K = {}     # (ida, idb) -> (kind, text)
    for cid, (lab, txt) in got.items():
        ia, ib = (int(x) for x in cid.split("_"))
        K[(ia, ib)] = (labelmap.get(lab, lab if lab in ("FATAL", "CRASH", "SLOW") else "?" + lab), txt)
    res["evals"] = len(K)
    nt = []

    def viol(rule, a, b, what, expected, gotv, **extra):
        sig = {"rule": rule, "op": op, "a": a["kind"], "b": b["kind"]}
        sig.update(extra)
        e = exprs[f"{a['id']}_{b['id']}"]
        add_violation(res, sig, f"{rule}: {e} {what}" + (f" [operands from {src}: {_stdin()!r}]" if src else ""),
                      {"argv": replay_argv(e), "stdin": _stdin(), "env": ENV, "expected": expected, "got": gotv,
                       "expr": e})

    unjudged = 0
    only_symmetry = 0
    for (ia, ib), (k, txt) in K.items():
        a, b = byid[ia], byid[ib]
        ka, kb = a["kind"], b["kind"]
        if ka in NULLISH or kb in NULLISH or ka != kb:
            nt.append(_h("m", op, a["expr"], b["expr"], src))
        if k == "SLOW":
            res["inconc"] += 1
            continue
        if k == "CRASH":
            viol("no-crash", a, b, "crashes the process", "a value", txt[-600:])
            continue
        hit = []

        def rule(name):
            bump(res, name)
            hit.append(name)
        # R-abs-abs
        if ka == "absent" and kb == "absent" and (op in ARITH or op in BITWISE or op == "." or op in MINMAX
                                                   or op in case["math2"]):
            rule("R-abs-abs")
            if k != "absent":
                viol("R-abs-abs", a, b, f"is {k} ({txt!r}), not absent", "absent", [k, txt], got=k)
        elif ka == "absent" and kb == "absent" and (op == "^^" or op in COMPARE or op in REGEX):
            # "arithmetic/bitwise/boolean operators with both operands being absent evaluate to absent"; the comparison and
            # regex-match operators are class=boolean in the function help
            rule("R-abs-abs-bool")
            if k != "absent":
                viol("R-abs-abs-bool", a, b, f"is {k}, though the null-data reference says boolean operators with "
                     "both operands absent are absent", "absent", [k, txt], got=k)
        # R-abs-id
        dom = abs_id_domain(op)
        for side, x, other in (("left", b, a), ("right", a, b)):   # side = where the absent operand is
            if other["kind"] == "absent" and x["kind"] in dom:
                rule("R-abs-id")
                if op == ".":
                    ok = (txt == x["text"]) and k in ("string", x["kind"])
                else:
                    ok = (k == x["kind"]) and same_value(txt, x["text"])
                if not ok:
                    cls = "kind" if (op != "." and k != x["kind"]) else "value"
                    # got: the wrong kind, or for a value of the right kind whether it is zero or something else
                    if cls == "kind":
                        g = k
                    else:
                        v = parse_num(txt)
                        g = "0" if (v is not None and v == 0) else "other-value"
                    viol("R-abs-id", a, b, f"is {k} {txt!r}; the present operand is {x['kind']} {x['text']!r}",
                         [x["kind"], x["text"]], [k, txt], side=side, cls=cls, got=g)
        # R-empty-num
        if op in EMPTYNUM or op in MINMAX:
            numdom = ("int", "float") if op in EMPTYNUM else ("int", "float", "boolean")
            for side, x, other in (("left", b, a), ("right", a, b)):   # side = where the empty operand is
                if other["kind"] == "empty" and x["kind"] in numdom:
                    rule("R-empty-num")
                    if op in ("-", ".-") and side == "left":
                        if parse_num(x["text"]) == -(2 ** 63):
                            continue
                        ok = k == x["kind"] and neg_value(txt, x["text"])
                        exp = [x["kind"], "-(" + x["text"] + ")"]
                    else:
                        ok = k == x["kind"] and same_value(txt, x["text"])
                        exp = [x["kind"], x["text"]]
                    if not ok:
                        viol("R-empty-num", a, b, f"is {k} {txt!r}; empty with a number must yield the number", exp,
                             [k, txt], side=side, x=x["kind"], got=k)
        # R-error
        if op not in COALESCE and op not in ("&&", "||"):
            if (ka == "error" and kb in SCALARS) or (kb == "error" and ka in SCALARS):
                rule("R-error")
                if k != "error":
                    viol("R-error", a, b, f"is {k} {txt!r}; an error combined with a scalar must be an error", "error",
                         [k, txt], got=k)
        # R-type: the documented type rule for this cell, where there is one
        if not (op in MINMAX and hit):         # min/max cells already judged above with the same expectation
            exp = doc_expect(op, a, b, case["math2"], case.get("doctab"))
            if exp is not None:
                rule("R-type")
                bad = judge_expect(exp, k, txt, [a, b])
                if bad:
                    viol("R-type", a, b, f"is {k} {txt!r}; the documentation says {bad} ({exp['cls']})", bad, [k, txt],
                         cls=exp["cls"], got=k, nulls="+".join(sorted({ka, kb} & {"absent", "empty"})))
        independent = bool(hit)
        # R-comm
        if op in COMMUTATIVE and ia < ib and (ib, ia) in K:
            k2, txt2 = K[(ib, ia)]
            if k2 not in ("SLOW", "CRASH"):
                rule("R-comm")
                if k != k2:
                    pair = "/".join(sorted([ka, kb]))
                    viol("R-comm", a, b, f"is {k} but with the operands swapped it is {k2}", "same kind both ways",
                         {"a_op_b": [k, txt], "b_op_a": [k2, txt2]}, pair=pair)
                elif k in ("int", "float", "boolean", "string", "empty") and not same_value(txt, txt2):
                    viol("R-comm-value", a, b, f"is {txt!r} but with the operands swapped it is {txt2!r}",
                         "same value both ways", {"a_op_b": txt, "b_op_a": txt2}, pair="/".join(sorted([ka, kb])))
        elif op in COMMUTATIVE and ia > ib and (ib, ia) in K:
            hit.append("R-comm")
        if not independent:
            if hit:
                only_symmetry += 1
            else:
                unjudged += 1
        # a FATAL cell that no rule above expected to be a value is recorded only
        if k == "FATAL":
            bump(res, "fatal_cells")
            if not independent:
                viol("no-fatal", a, b, f"aborts the process: {txt[-200:]!r}; evaluating an operator on any operand kinds "
                     "yields a value (possibly an error value), it does not end the run", "a value", txt[-400:])
    res["unjudged"] = {"op": op, "no_rule": unjudged, "only_symmetry": only_symmetry, "cells": len(K)}
    bump(res, "cells_unjudged", unjudged + only_symmetry)
    res["nontrivial_keys"] = nt
    res["nontrivial"] = bool(nt)
    # compact kind matrix over the canonical operands (evidence: drift detection; also used for R-twin)
    canon = [o for o in pool if o["canon"]]
    mat = {}
    for a in canon:
        mat[a["kind"]] = "".join(ABBR.get(K.get((a["id"], b["id"]), ("?",))[0], "?") for b in canon)
    res["matrix"] = {"op": op, "rows": mat}
    full = {}
    for (ia, ib), (k, _) in K.items():
        full[f"{ia}_{ib}"] = k
    res["kinds_full"] = full
    if op == "+":
        res["sample"] = {"monitor": "m", "op": op, "cells": len(K), "kind_matrix_canonical": mat}
    return res


# ------------------------------------------------------------------------------------------
# (u) unary operators, class=math functions, variadic min/max

UNARY_OPS = ["-", "+", "~", "!"]
SIDE_EFFECT = re.compile(r"^(urand|system|exec|os$|hostname|version|systime|sysntime|uptime|upntime)")


DOC_FUNCS = "/repo/docs/src/reference-dsl-builtin-functions.md"


def doc_function_classes():
    """{name: (class, args)} as the function reference documents them (the specification), and the same as the binary's
    help prints them; the judged sets are taken from the documentation so that a function the binary re-labels stays judged."""
    doc, live = {}, {}
    try:
        text = open(DOC_FUNCS).read().replace("&lt;", "<").replace("&gt;", ">").replace("&amp;", "&")
    except OSError:
        text = ""
    for src, out in ((text, doc), (R.mlr(["help", "usage-functions-by-class"], env=ENV).out, live)):
        for line in src.split("\n"):
            m = re.match(r"^(\S+)\s+\(class=(\S+) #args=([^)]+)\)", line)
            if m:
                out[m.group(1)] = (m.group(2), m.group(3))
    return doc, live


def math_functions(doc=None):
    """{name: arity or 'variadic'} for class=math, from the function reference (falls back to the binary's help)."""
    if doc is None:
        doc, live = doc_function_classes()
        doc = doc or live
    return {f: a for f, (c, a) in doc.items() if c == "math" and not SIDE_EFFECT.match(f)}


def unary_case(case):
    pool, labelmap = case["pool"], case["labelmap"]
    fname, kindf = case["f"], case["fkind"]    # fkind: "op" | "math"
    res = case_result(_h("u", fname, kindf, case["tier"]), nontrivial=True, evals=0)
    cells = [(str(o["id"]), f"{fname}({o['expr']})") for o in pool]
    got = eval_cells(cells, res)
    exprs = dict(cells)
    nt = []
    row = {}
    for o in pool:
        lab, txt = got[str(o["id"])]
        k = labelmap.get(lab, lab if lab in ("FATAL", "CRASH", "SLOW") else "?" + lab)
        res["evals"] += 1
        if o["canon"]:
            row[o["kind"]] = ABBR.get(k, "?")
        if o["kind"] in NULLISH:
            nt.append(_h("u", fname, o["expr"]))
        e = exprs[str(o["id"])]

        def viol(rule, what, expected):
            add_violation(res, {"rule": rule, "f": fname, "a": o["kind"], "got": k}, f"{rule}: {e} {what}",
                          {"argv": replay_argv(e), "stdin": INPUT, "env": ENV, "expected": expected, "got": [k, txt],
                           "expr": e})
        if k == "SLOW":
            res["inconc"] += 1
            continue
        if k == "CRASH":
            viol("no-crash", "crashes the process", "a value")
            continue
        if o["kind"] == "absent":
            if kindf == "math":
                bump(res, "R-math-abs")
                if k != "absent":
                    viol("R-math-abs", f"is {k} {txt!r}; a math-library function of absent must be absent", "absent")
            elif fname in ("-", "+", "~"):
                bump(res, "R-abs-abs")
                if k != "absent":
                    viol("R-abs-abs", f"is {k} {txt!r}; the operator applied to absent must be absent", "absent")
            elif fname == "!":
                bump(res, "R-abs-abs-bool")
                if k != "absent":
                    viol("R-abs-abs-bool", f"is {k}; the null-data reference says boolean operators on absent give absent",
                         "absent")
        if o["kind"] == "error":
            bump(res, "R-error")
            if k != "error":
                viol("R-error", f"is {k} {txt!r}; a function of an error must be an error", "error")
        if o["kind"] == "empty" and kindf == "math":
            bump(res, "R-math-empty")
            if k != "empty":
                viol("R-math-empty", f"is {k} {txt!r}; the null-data reference says math functions of empty are empty",
                     "empty")
        # R-type (unary): numbers give numbers, non-numeric non-null scalars are a type error (data-types reference:
        # "strings, numbers, and booleans don't mix", error = "input to a built-in function is of the wrong type")
        ok_ = None
        if o["kind"] in ("int", "float", "boolean", "string") and not _numlike(o):
            v = parse_num(o["text"]) if o["kind"] in NUM else None
            g = parse_num(txt) if k in NUM else None
            if fname == "!":
                want = ("boolean " + ("false" if o["text"] == "true" else "true")) if o["kind"] == "boolean" else "error"
                ok_ = (k == "boolean" and txt == want[8:]) if o["kind"] == "boolean" else k == "error"
            elif o["kind"] in WRONGTYPE:
                want, ok_ = "error", k == "error"
            elif kindf == "math":
                want, ok_ = "int/float", k in NUM
            elif fname == "~":
                if o["kind"] == "int":
                    want, ok_ = f"int {~v}", (k == "int" and g == ~v)
            elif v is not None and v == v and not (fname == "-" and v == -(2 ** 63)):
                w = -v if fname == "-" else v
                want, ok_ = f"{o['kind']} {w}", (k == o["kind"] and g is not None and float(g) == float(w))
        if ok_ is not None:
            bump(res, "R-type")
            if not ok_:
                add_violation(res, {"rule": "R-type", "f": fname, "a": o["kind"], "got": k, "form": "unary"},
                              f"R-type: {e} is {k} {txt!r}; the documentation says {want}",
                              {"argv": replay_argv(e), "stdin": INPUT, "env": ENV, "expected": want, "got": [k, txt], "expr": e})
        elif o["kind"] not in ("absent", "error", "empty") or (o["kind"] == "empty" and kindf != "math"):
            bump(res, "cells_unjudged")
    res["nontrivial_keys"] = nt
    res["urow"] = {"f": fname, "row": "".join(row.get(k, "?") for k in KINDS)}
    return res


def mathn_case(case):
    """class=math functions of arity 2 and 3 with every argument absent -> absent."""
    fname, n, pool, labelmap = case["f"], case["arity"], case["pool"], case["labelmap"]
    res = case_result(_h("un", fname, case["tier"]), nontrivial=True, evals=0)
    absents = [o for o in pool if o["kind"] == "absent"]
    cells = []
    rng = random.Random(case["seed"])
    combos = set()
    combos.add(tuple([absents[0]["id"]] * n))
    for _ in range(8):
        combos.add(tuple(rng.choice(absents)["id"] for _ in range(n)))
    byid = {o["id"]: o for o in pool}
    for c in sorted(combos):
        cells.append(("_".join(map(str, c)), f"{fname}({', '.join(byid[i]['expr'] for i in c)})"))
    got = eval_cells(cells, res)
    nt = []
    for cid, e in cells:
        lab, txt = got[cid]
        k = labelmap.get(lab, lab)
        res["evals"] += 1
        nt.append(_h("un", fname, e))
        bump(res, "R-math-abs")
        if k == "SLOW":
            res["inconc"] += 1
        elif k != "absent":
            add_violation(res, {"rule": "R-math-abs", "f": fname, "a": "absent", "got": k, "arity": n},
                          f"R-math-abs: {e} is {k} {txt!r}; with every argument absent it must be absent",
                          {"argv": replay_argv(e), "stdin": INPUT, "env": ENV, "expected": "absent", "got": [k, txt]})
    res["nontrivial_keys"] = nt
    return res


def judged_functions(doc=None):
    """{name: (class, args)} of the named class=arithmetic and class=math functions (from the function reference)."""
    if doc is None:
        doc, live = doc_function_classes()
        doc = doc or live
    judged, others = {}, {}
    for f, (c, a) in doc.items():
        if not re.fullmatch(r"[a-z_][a-z_0-9]*", f) or SIDE_EFFECT.match(f):
            continue
        (judged if c in ("arithmetic", "math") else others)[f] = (c, a)
    return judged, others


def _arities(args):
    if args.strip() == "variadic":
        return [1, 2, 3]
    return sorted({int(a) for a in args.split(",") if a.strip().isdigit() and 0 < int(a) <= 4})


FUNCABS_VALUES = [("5", "6", "7", "8"), ("0", "0", "0", "0"), ("-3", "2", "1", "4")]
FUNCABS_SOURCES = ["$nosuch", "@nosuch"]


def funcabs_exempt(f, n, sub):
    """Documented exceptions to 'functions of absent variables evaluate to absent': min/max return the other
    argument; pow is 'the same as **', an operator (one absent operand returns the other operand)."""
    if f in ("min", "max"):
        return len(sub) < n
    if f == "pow":
        return len(sub) < n
    return False


def _val_class(txt, present):
    """how a wrong (non-absent) result of a function of an absent argument relates to the present arguments"""
    v = parse_num(txt)
    if v is None:
        return "not-a-number"
    if any(same_value(txt, p) for p in present):
        return "other-argument"
    return "zero" if v == 0 else "other-value"


def _text_kind(txt):
    v = parse_num(txt)
    if v is None:
        return "empty" if txt == "" else ("error" if txt == "(error)" else "string")
    return "int" if isinstance(v, int) else "float"


def funcabs_case(case):
    """R-func-abs: a class=arithmetic/math function with absent in ANY non-empty subset of its argument
    positions (the others being ordinary ints) is absent."""
    import itertools
    f, args, labelmap = case["f"], case["args"], case["labelmap"]
    res = case_result(_h("fa", f, case["tier"]), nontrivial=True, evals=0)
    cells = []
    meta = {}
    for n in _arities(args):
        for k in range(1, n + 1):
            for sub in itertools.combinations(range(n), k):
                for vi, vals in enumerate(FUNCABS_VALUES):
                    for si, src in enumerate(FUNCABS_SOURCES):
                        a = [(src if i in sub else vals[i]) for i in range(n)]
                        cid = f"{n}.{''.join(map(str, sub))}.{vi}.{si}"
                        cells.append((cid, f"{f}({', '.join(a)})"))
                        meta[cid] = (n, sub, [vals[i] for i in range(n) if i not in sub])
    got = eval_cells(cells, res)
    nt = []
    for cid, e in cells:
        lab, txt = got[cid]
        k = labelmap.get(lab, lab)
        n, sub, present = meta[cid]
        res["evals"] += 1
        nt.append(_h("fa", e))
        if k == "SLOW":
            res["inconc"] += 1
            continue
        if funcabs_exempt(f, n, sub):
            bump(res, "func_abs_exempt_recorded")
            continue
        bump(res, "R-func-abs")
        if k != "absent":
            pos = "all" if len(sub) == n else "+".join(str(i + 1) for i in sub)
            add_violation(res, {"rule": "R-func-abs", "f": f, "arity": n, "absent_at": pos, "got": k,
                                "val": _val_class(txt, present)},
                          f"R-func-abs: {e} is {k} {txt!r}; a function of an absent argument must be absent "
                          "(reference-main-null-data.md)",
                          {"argv": replay_argv(e), "stdin": INPUT, "env": ENV, "expected": "absent", "got": [k, txt]})
    res["nontrivial_keys"] = nt
    return res


def funcabs_e2e_case(case):
    """End to end: `$z = f($a,$b,$c)` over records lacking every subset of the fields creates z only where all
    the arguments are present."""
    import itertools
    funcs = case["funcs"]          # list of (name, arity)
    res = case_result(_h("fe", case["vals"], case["tier"]), nontrivial=True, evals=0)
    names = ["a", "b", "c", "d"]
    vals = dict(zip(names, case["vals"]))
    recs = []
    for k in range(0, 5):
        for present in itertools.combinations(names, k):
            recs.append([("id", "".join(present) or "none")] + [(nm, vals[nm]) for nm in present])
    stdin = "".join(",".join(f"{k}={v}" for k, v in r) + "\n" for r in recs)
    prog = "\n".join(f"$z_{f}_{n} = {f}({', '.join('$' + nm for nm in names[:n])});" for f, n in funcs)
    # DKVP output: JSON output prints -Inf/NaN bare (log(0), ...), which is not JSON
    argv = ["--idkvp", "--odkvp", "put", "-f", "prog.mlr"]
    r = R.mlr(argv, stdin=stdin, env=ENV, files={"prog.mlr": prog})
    bump(res, "processes")
    if r.verdict == "slow":
        res["inconc"] += 1
        return res
    if not r.ok:
        add_violation(res, {"rule": "R-func-abs", "what": "e2e-run-failed"}, f"e2e program fails rc={r.rc}: {r.err[-300:]!r}",
                      {"argv": argv, "stdin": stdin, "files": {"prog.mlr": prog}, "env": ENV})
        return res
    out = [dict(p.split("=", 1) for p in line.split(",") if "=" in p) for line in r.out.split("\n") if line]
    if len(out) != len(recs):
        add_violation(res, {"rule": "R-func-abs", "what": "e2e-record-count"}, f"e2e: {len(recs)} records in, {len(out)} out",
                      {"argv": argv, "stdin": stdin, "files": {"prog.mlr": prog}, "env": ENV, "got": r.out[:1000]})
        return res
    nt = []
    for rec in out:
        present = set(str(rec.get("id", ""))) if rec.get("id") != "none" else set()
        for f, n in funcs:
            key = f"z_{f}_{n}"
            need = set(names[:n])
            missing = need - present
            res["evals"] += 1
            one = f"$z = {f}({', '.join('$' + nm for nm in names[:n])})"
            line = ",".join(f"{nm}={vals[nm]}" for nm in names if nm in present) or "id=none"
            detail = {"argv": ["put", one], "stdin": line + "\n", "env": ENV}
            if not missing:
                bump(res, "func-abs-control")
                if key not in rec:
                    add_violation(res, {"rule": "assign-control", "f": f, "what": "e2e"},
                                  f"assign-control: `{one}` with every field present did not create z", detail)
                continue
            nt.append(_h("fe", f, n, tuple(sorted(missing)), case["vals"]))
            sub = tuple(i for i, nm in enumerate(names[:n]) if nm in missing)
            if funcabs_exempt(f, n, sub):
                bump(res, "func_abs_exempt_recorded")
                continue
            bump(res, "R-func-abs")
            if key in rec:
                pos = "all" if len(sub) == n else "+".join(str(i + 1) for i in sub)
                add_violation(res, {"rule": "R-func-abs", "f": f, "arity": n, "absent_at": pos, "what": "e2e",
                                    "got": _text_kind(rec[key]),
                                    "val": _val_class(rec[key], [vals[nm] for nm in names[:n] if nm in present])},
                              f"R-func-abs: `{one}` on a record lacking {sorted(missing)} created z={rec[key]!r}; the "
                              "assignment must be skipped", dict(detail, expected="no field z", got=rec[key]))
    res["nontrivial_keys"] = nt
    if case.get("sample"):
        res["sample"] = {"monitor": "u/func-abs-e2e", "program_head": prog.split("\n")[:3], "records": len(recs)}
    return res


def variadic_case(case):
    """min/max at arity 0, 1 and 3: arity 1 is the identity on scalars; arity 3 equals the nested binary fold."""
    f, pool, labelmap = case["f"], case["pool"], case["labelmap"]
    res = case_result(_h("v", f, case["rows"], case["tier"]), nontrivial=True, evals=0)
    canon = [o for o in pool if o["canon"]]
    byid = {o["id"]: o for o in pool}
    cells = []
    if case["rows"] == "small":
        cells.append(("z", f"{f}()"))
        for o in pool:
            cells.append((f"one_{o['id']}", f"{f}({o['expr']})"))
    elif case["rows"] == "partition":
        part = [o for o in pool if o["kind"] in ("int", "float", "boolean", "string") and not _isnan(o)]
        for a in part:
            for b in part:
                cells.append((f"pmin_{a['id']}_{b['id']}", f"min({a['expr']}, {b['expr']})"))
                cells.append((f"pmax_{a['id']}_{b['id']}", f"max({a['expr']}, {b['expr']})"))
    else:
        for a in case["rows"]:
            for b in canon:
                for c in canon:
                    A = byid[a]
                    cells.append((f"t_{a}_{b['id']}_{c['id']}", f"{f}({A['expr']}, {b['expr']}, {c['expr']})"))
                    cells.append((f"n_{a}_{b['id']}_{c['id']}", f"{f}({f}({A['expr']}, {b['expr']}), {c['expr']})"))
    got = eval_cells(cells, res)
    exprs = dict(cells)
    nt = []

    def kd(cid):
        lab, txt = got[cid]
        return labelmap.get(lab, lab), txt
    for cid, e in cells:
        k, txt = kd(cid)
        if cid == "z":
            res["evals"] += 1
            bump(res, "arity0_recorded")
            res["arity0"] = {f: k}
            continue
        if cid.startswith("one_"):
            o = byid[int(cid[4:])]
            res["evals"] += 1
            if o["kind"] in ("int", "float", "boolean", "empty", "string", "absent"):
                bump(res, "R-variadic-1")
                nt.append(_h("v1", f, o["expr"]))
                if not (k == o["kind"] and same_value(txt, o["text"])):
                    add_violation(res, {"rule": "R-variadic-1", "f": f, "a": o["kind"], "got": k},
                                  f"R-variadic-1: {e} is {k} {txt!r}, not its only argument {o['kind']} {o['text']!r}",
                                  {"argv": replay_argv(e), "stdin": INPUT, "env": ENV,
                                   "expected": [o["kind"], o["text"]], "got": [k, txt]})
            continue
        if cid.startswith("pmin_"):
            # the minimum and the maximum of a pair of ordinary (non-null) scalars are the two members of the pair
            ia, ib = (int(x) for x in cid[5:].split("_"))
            A, B = byid[ia], byid[ib]
            k2, txt2 = kd("pmax_" + cid[5:])
            res["evals"] += 1
            nt.append(_h("vp", A["expr"], B["expr"]))
            bump(res, "R-minmax-partition")
            if "SLOW" in (k, k2):
                res["inconc"] += 1
                continue

            def same(k_, t_, o):
                if k_ in NUM and o["kind"] in NUM:
                    if k_ == o["kind"]:
                        return same_value(t_, o["text"])
                    # int and float mixed: the result may be the float conversion of the int argument
                    x, y = parse_num(t_), parse_num(o["text"])
                    return A["kind"] != B["kind"] and x is not None and y is not None and float(x) == float(y)
                return k_ == o["kind"] and t_ == o["text"]
            ok = (same(k, txt, A) and same(k2, txt2, B)) or (same(k, txt, B) and same(k2, txt2, A))
            if not ok:
                add_violation(res, {"rule": "R-minmax-partition", "a": A["kind"], "b": B["kind"], "got": f"{k}/{k2}"},
                              f"R-minmax-partition: {e} is {k} {txt!r} and {exprs['pmax_' + cid[5:]]} is {k2} {txt2!r}: "
                              f"not the two arguments {A['kind']} {A['text']!r}, {B['kind']} {B['text']!r}",
                              {"argv": replay_argv(e), "stdin": INPUT, "env": ENV,
                               "expected": [[A["kind"], A["text"]], [B["kind"], B["text"]]], "got": [[k, txt], [k2, txt2]]})
            continue
        if cid.startswith("pmax_"):
            continue
        if cid.startswith("t_"):
            res["evals"] += 1
            k2, txt2 = kd("n_" + cid[2:])
            ids = [int(x) for x in cid[2:].split("_")]
            kinds = [byid[i]["kind"] for i in ids]
            nt.append(_h("v3", f, cid))
            if k not in ("SLOW", "CRASH"):
                exp = minmax_model(f, [byid[i] for i in ids])
                if exp is None:
                    bump(res, "cells_unjudged")
                else:
                    bump(res, "R-minmax")
                    bad = judge_expect(exp, k, txt, [byid[i] for i in ids])
                    if bad:
                        add_violation(res, {"rule": "R-minmax", "op": f, "cls": exp["cls"], "got": k, "arity": 3,
                                            "kinds": "/".join(kinds)},
                                      f"R-minmax: {e} is {k} {txt!r}; the documentation says {bad} ({exp['cls']})",
                                      {"argv": replay_argv(e), "stdin": INPUT, "env": ENV, "expected": bad, "got": [k, txt]})
            bump(res, "R-variadic-fold")
            if "SLOW" in (k, k2):
                res["inconc"] += 1
                continue
            if k != k2 or (k in ("int", "float", "boolean", "string", "empty") and not same_value(txt, txt2)):
                add_violation(res, {"rule": "R-variadic-fold", "f": f, "kinds": "/".join(kinds)},
                              f"R-variadic-fold: {e} is {k} {txt!r} but {exprs['n_' + cid[2:]]} is {k2} {txt2!r}",
                              {"argv": replay_argv(e), "stdin": INPUT, "env": ENV, "expected": [k2, txt2],
                               "got": [k, txt], "nested": exprs["n_" + cid[2:]]})
    res["nontrivial_keys"] = nt
    return res


# ------------------------------------------------------------------------------------------
# (a) assignment with an absent right-hand side is skipped and never creates a key

ABSENT_SOURCES = [
    # (expression, soft?)  soft = not pinned by the docs as absent; dropped if typeof disagrees
    ("$nosuch", False), ("@nosuch", False), ("nosuchlocal", False), ('{}["x"]', False), ('$*["nosuch"]', False),
    ("fabs()", False), ("$nosuch + @nosuch", False), ("log10($nosuch)", False), ("min($nosuch, $nosuch)", False),
    ("$[[99]]", False), ("$[[[99]]]", False), ("$nosuch . $nosuch", False), ("-$nosuch", False),
    ("asserting_absent($nosuch)", False), ("$nosuch ?? @nosuch", False), ("@nosuch[1][2]", True),
    ("fid($nosuch)", True), ('[1,2][7]', True), ("$nosuch .+ $nosuch", False), ("$nosuch & $nosuch", False),
]
CONTROLS = [("int", "3"), ("empty", '""'), ("string", '"abc"'), ("null", "null"), ("float", "2.5")]

# the compound assignment operators of the Miller 6 grammar (fixed list: one that stops parsing is a violation)
OPASSIGN = ["+=", "-=", "*=", "/=", "//=", "%=", "**=", ".=", "|=", "&=", "^=", "<<=", ">>=", ">>>=",
            "??=", "???=", "&&=", "||=", "^^="]


def assign_forms():
    """name -> (statements template with {T} and {R}, has-expression or None, value expression, old value or None,
    control mode: 'full' (value must equal the control), 'text', 'has' (only existence), None)."""
    F = {
        "field-new": ("${T} = {R};", 'haskey($*, "{T}")', "${T}", None, "full"),
        "field-existing": ("${T} = 7; ${T} = {R};", None, "${T}", "7", "full"),
        "field-braced": ("${{new {T}}} = {R};", 'haskey($*, "new {T}")', "${{new {T}}}", None, "full"),
        "field-unset-then-assign": ("${T} = 7; unset ${T}; ${T} = {R};", 'haskey($*, "{T}")', "${T}", None, "full"),
        "field-indexed": ('${T}["a"]["b"] = {R};', 'haskey($*, "{T}")', "${T}", None, None),
        "srec-map-index": ('$*["{T}"] = {R};', 'haskey($*, "{T}")', '$*["{T}"]', None, "full"),
        "srec-mapsum": ('$* = mapsum($*, {{"{T}": {R}}});', 'haskey($*, "{T}")', "${T}", None, "full"),
        "oosvar-new": ("@{T} = {R};", 'haskey(@*, "{T}")', "@{T}", None, "full"),
        "oosvar-existing": ("@{T} = 7; @{T} = {R};", None, "@{T}", "7", "full"),
        "oosvar-unset-then-assign": ("@{T} = 7; unset @{T}; @{T} = {R};", 'haskey(@*, "{T}")', "@{T}", None, "full"),
        "oosvar-indexed-new": ("@{T}[1][2] = {R};", 'haskey(@*, "{T}")', "@{T}", None, None),
        "oosvar-indexed-existing-map": ('@{T} = {{"a": {{"z": 1}}}}; @{T}["a"]["b"] = {R};', 'haskey(@{T}["a"], "b")',
                                        '@{T}["a"]["b"]', None, "full"),
        "oosvar-all-index": ('@*["{T}"] = {R};', 'haskey(@*, "{T}")', "@{T}", None, "full"),
        "local-existing": ("var {T} = 5; {T} = {R};", None, "{T}", "5", "full"),
        "local-existing-inner-scope": ("var {T} = 5; if (true) {{ {T} = {R}; }}", None, "{T}", "5", "full"),
        "local-var-new": ("var {T} = {R};", 'haskey({{"k": {T}}}, "k")', "{T}", None, "full"),
        "local-untyped-new": ("{T} = {R};", 'haskey({{"k": {T}}}, "k")', "{T}", None, "full"),
        "local-map-autocreate": ('var {T} = {{}}; {T}[1]["k"] = {R};', "haskey({T}, 1)", "{T}[1]", None, None),
        "local-map-existing-elem": ('var {T} = {{"a": {{"b": 1}}}}; {T}["a"]["b"] = {R};', None, '{T}["a"]["b"]', "1", "full"),
        "local-map-new-elem": ('var {T} = {{"a": {{"b": 1}}}}; {T}["a"]["c"] = {R};', 'haskey({T}["a"], "c")',
                               '{T}["a"]["c"]', None, "full"),
        "local-array-elem": ("var {T} = [1,2,3]; {T}[2] = {R};", None, "{T}[2]", "2", "full"),
        "map-literal-value": ('var {T} = {{"k": {R}}};', 'haskey({T}, "k")', '{T}["k"]', None, "full"),
        "positional-name": ("${T} = 2; $[[NF]] = {R};", 'haskey($*, "{T}")', "$[[NF]]", "{T}", "neg-has"),
        "positional-value": ("${T} = 2; $[[[NF]]] = {R};", None, "$[[[NF]]]", "2", "full"),
        "function-return": ("${T} = fid({R});", 'haskey($*, "{T}")', "${T}", None, "full"),
        # indirect (computed-name) targets, typed locals, bound variables, whole-record / whole-oosvar targets, ENV
        "field-indirect-new": ('$["{T}"] = {R};', 'haskey($*, "{T}")', "${T}", None, "full"),
        "field-indirect-existing": ('$["{T}"] = 7; $["{T}"] = {R};', None, "${T}", "7", "full"),
        "field-indirect-computed": ('$["{T}" . "x"] = {R};', 'haskey($*, "{T}x")', "${T}x", None, "full"),
        "oosvar-indirect-new": ('@["{T}"] = {R};', 'haskey(@*, "{T}")', "@{T}", None, "full"),
        "oosvar-indirect-existing": ('@["{T}"] = 7; @["{T}"] = {R};', None, "@{T}", "7", "full"),
        "oosvar-indirect-computed": ('@["{T}" . "x"] = {R};', 'haskey(@*, "{T}x")', "@{T}x", None, "full"),
        "env-existing": ('ENV["VF{T}"] = "old"; ENV["VF{T}"] = {R};', None, 'ENV["VF{T}"]', "old", "own"),
        "local-typed-num-existing": ("num {T} = 5; {T} = {R};", None, "{T}", "5", "own"),
        "local-typed-str-existing": ('str {T} = "old"; {T} = {R};', None, "{T}", "old", "own"),
        "local-typed-map-existing": ('map {T} = {{"a": 1}}; {T} = {R};', None, '{T}["a"]', "1", "own"),
        "local-typed-num-new": ("num {T} = {R};", 'haskey({{"k": {T}}}, "k")', "{T}", None, "own"),
        "for-bound-value-variable": ('var {T} = 0; for (k{T}, v{T} in {{"a": 5}}) {{ v{T} = {R}; {T} = v{T}; }}', None, "{T}",
                                     "5", "full"),
        "for-bound-single-variable": ("var {T} = 0; for (e{T} in [5]) {{ e{T} = {R}; {T} = e{T}; }}", None, "{T}", "5", "full"),
        "func-body-local": ("", None, "fkeep({R})", "5", "full"),
        "func-body-typed-local": ("", None, "fkeepn({R})", "5", "own"),
        "srec-full-assign": ("var sv{T} = $*; $* = {R}; var ob{T} = $*; $* = sv{T};", None, 'ob{T}["i"]', "3", "own"),
        "srec-full-assign-map-with-absent-value": ('var sv{T} = $*; $* = {{"i": 3, "{T}": {R}}}; var ob{T} = $*; $* = sv{T};',
                                                   'haskey(ob{T}, "{T}")', 'ob{T}["{T}"]', None, "full"),
        "oosvar-full-assign": ("@keep{T} = 7; @* = {R};", None, "@keep{T}", "7", "own"),
        "oosvar-full-mapsum": ('@* = mapsum(@*, {{"{T}": {R}}});', 'haskey(@*, "{T}")', "@{T}", None, "full"),
    }
    for op in OPASSIGN:
        F["field-" + op] = ("${T} " + op + " {R};", 'haskey($*, "{T}")', "${T}", None, "has")
        F["oosvar-" + op] = ("@{T}[1] " + op + " {R};", 'haskey(@*, "{T}")', "@{T}", None, "has")
    return F


# controls of the forms whose target does not accept the generic CONTROLS: (kind, expression template, expected text)
FORM_CONTROLS = {
    "env-existing": [("string", '"abc"', "abc"), ("string", '"x y"', "x y")],      # environment values are strings
    "local-typed-num-existing": [("int", "3", "3"), ("float", "2.5", "2.5")],
    "local-typed-str-existing": [("string", '"abc"', "abc"), ("empty", '""', "")],
    "local-typed-map-existing": [("int", '{{"a": 9}}', "9")],
    "local-typed-num-new": [("int", "3", "3"), ("float", "2.5", "2.5")],
    "func-body-typed-local": [("int", "3", "3"), ("float", "2.5", "2.5")],
    "srec-full-assign": [("int", '{{"i": 99}}', "99")],
    "oosvar-full-assign": [("int", 'mapsum(@*, {{"keep{T}": 99}})', "99")],
}

ABSENT_KEY_FORMS = {
    # absent-valued *keys* also skip the assignment (null-data reference): (statements, observed expression, its text
    # when the key is absent, its text when the key is the string "kc" (control: the observation is not vacuous))
    "local-map-absent-key": ("var {T} = {{}}; {T}[{R}] = 1;", "length({T})", "0", "1"),
    "oosvar-absent-key": ("@{T}[{R}][1] = 1;", 'haskey(@*, "{T}")', "false", "true"),
    "srec-absent-key": ("var n{T} = length($*); $*[{R}] = 1;", "length($*) - n{T}", "0", "1"),
    "oosvar-absent-second-key": ("@{T}[1][{R}] = 1;", 'haskey(@*, "{T}")', "false", "true"),
    "local-map-absent-second-key": ('var {T} = {{}}; {T}["a"][{R}] = 1;', "length({T})", "0", "1"),
    "oosvar-absent-third-key": ("@{T}[1][2][{R}] = 1;", 'haskey(@*, "{T}")', "false", "true"),
    "field-indexed-absent-key": ("${T}[{R}] = 1;", 'haskey($*, "{T}")', "false", "true"),
    "field-indirect-absent-name": ("var n{T} = length($*); $[{R}] = 1;", "length($*) - n{T}", "0", "1"),
    "oosvar-indirect-absent-name": ("var n{T} = length(@*); @[{R}] = 1;", "length(@*) - n{T}", "0", "1"),
    "map-literal-absent-key": ('var {T} = {{{R}: 1, "k": 2}};', "length({T})", "1", "2"),
    "map-literal-absent-key-only": ("var {T} = {{{R}: 1}};", "length({T})", "0", "1"),
    "map-literal-absent-key-mapsum-srec": ("var n{T} = length($*); $* = mapsum($*, {{{R}: 1}});", "length($*) - n{T}", "0", "1"),
    "map-literal-absent-key-mapsum-oosvar": ("var n{T} = length(@*); @* = mapsum(@*, {{{R}: 1}});", "length(@*) - n{T}", "0", "1"),
    "map-literal-absent-key-nested": ('var {T} = {{"o": {{{R}: 1}}}};', 'length({T}["o"])', "0", "1"),
    "map-literal-absent-key-emit": ('@{T} = {{{R}: 1, "k": 2}};', "length(@{T})", "1", "2"),
}


def _block_ok(text):
    return "$" not in text and "NF" not in text


def assign_case(case):
    name, labelmap = case["form"], case["labelmap"]
    block = case.get("block")          # None (main block) | "begin" | "end"
    res = case_result(_h("a", name, block, case["tier"]), nontrivial=True, evals=0)
    units = []
    meta = {}
    sources = [s_ for s_ in case["sources"] if not block or _block_ok(s_)]
    if name in ABSENT_KEY_FORMS:
        tmpl, obs, exp, cexp = ABSENT_KEY_FORMS[name]
        for n, src in enumerate(sources + ['"kc"']):
            T = f"t{n}"
            uid = f"k{n}"
            isctl = n == len(sources)
            stm = tmpl.format(T=T, R="(" + src + ")")
            units.append((uid, stm, [(uid + ".o", obs.format(T=T))]))
            meta[uid] = ("abskey-ctl" if isctl else "abskey", src, stm, cexp if isctl else exp)
    else:
        tmpl, has, val, old, ctl = assign_forms()[name]
        rhs = [("absent", s_, None, None) for s_ in sources]
        if name in FORM_CONTROLS:
            rhs += [("ctl", e, k, x) for k, e, x in FORM_CONTROLS[name]]
        elif name.endswith(("&&=", "||=", "^^=")):
            rhs += [("ctl", "true", "boolean", None)]
        elif ctl == "has":
            # op-assignment: `absent op ""` and `absent op null` are legitimately absent; a number always stores
            rhs += [("ctl", "3", "int", None), ("ctl", "2.5", "float", None)]
        else:
            rhs += [("ctl", e, k, None) for k, e in CONTROLS]
        for n, (what, src, ck, cx) in enumerate(rhs):
            T = f"t{n}"
            uid = f"u{n}"
            Rx = "(" + (src.format(T=T) if cx is not None else src) + ")"
            stm = tmpl.format(T=T, R=Rx)
            obs = [(uid + ".v", val.format(T=T, R=Rx))]
            if has:
                obs.append((uid + ".h", has.format(T=T, R=Rx)))
            units.append((uid, stm, obs))
            meta[uid] = (what, src, stm, (ck, cx))
    got = eval_units(units, res, wrap=block)
    nt = []

    def kd(cid):
        lab, txt = got[cid]
        return labelmap.get(lab, lab), txt
    for uid, stm, obs in units:
        what, src, _, extra = meta[uid]
        res["evals"] += 1
        body = stm + " " + " ".join(f"print typeof({e}); print {e};" for _, e in obs)
        prog = PRELUDE + body if not block else PRELUDE_FUNCS + block + " {" + PRELUDE_LOCALS + body + "}"
        detail = {"argv": ["--ijson", "--ojson", "put", "-q", prog], "stdin": INPUT, "env": ENV, "statement": stm}
        sigx = {"block": block} if block else {}
        first = kd(obs[0][0])
        if first[0] == "SLOW":
            res["inconc"] += 1
            continue
        if what in ("abskey", "abskey-ctl"):
            k, txt = first
            if what == "abskey":
                nt.append(_h("a", name, block, src))
                bump(res, "R-assign-skip")
            else:
                bump(res, "assign-control")
            if k in ("FATAL", "CRASH"):
                if k == "CRASH":
                    add_violation(res, dict(sigx, rule="no-crash", form=name), f"no-crash: {stm} crashes", dict(detail, got=txt))
                elif what == "abskey-ctl":
                    add_violation(res, dict(sigx, rule="assign-control", form=name, what="fatal"),
                                  f"assign-control: `{stm}` (present key) aborts: {txt[-200:]!r}", dict(detail, got=txt))
                else:
                    add_violation(res, dict(sigx, rule="R-assign-skip", form=name, what="absent-key-fatal"),
                                  f"R-assign-skip: `{stm}` (absent key) aborts instead of being skipped: {txt[-200:]!r}",
                                  dict(detail, got=txt))
                continue
            if txt != extra:
                if what == "abskey-ctl":
                    add_violation(res, dict(sigx, rule="assign-control", form=name, what="present-key"),
                                  f"assign-control: after `{stm}` (present key) `{obs[0][1]}` is {txt!r}, expected {extra!r}",
                                  dict(detail, expected=extra, got=txt))
                else:
                    add_violation(res, dict(sigx, rule="R-assign-skip", form=name, what="absent-key"),
                                  f"R-assign-skip: after `{stm}` (absent key) `{obs[0][1]}` is {txt!r}, expected {extra!r}",
                                  dict(detail, expected=extra, got=txt))
            continue
        ck, cx = extra
        k, txt = first
        hk = kd(obs[1][0]) if len(obs) > 1 else None
        if k == "FATAL":
            if what == "absent":
                nt.append(_h("a", name, block, src))
                bump(res, "R-assign-skip")
                add_violation(res, dict(sigx, rule="R-assign-skip", form=name, what="absent-rhs-fatal"),
                              f"R-assign-skip: `{stm}` aborts instead of being skipped: {txt[-200:]!r}", dict(detail, got=txt))
            else:
                add_violation(res, dict(sigx, rule="assign-control", form=name, ctl=ck, what="fatal"),
                              f"assign-control: `{stm}` aborts: {txt[-200:]!r}", dict(detail, got=txt))
            continue
        if k == "CRASH":
            add_violation(res, dict(sigx, rule="no-crash", form=name), f"no-crash: {stm} crashes", dict(detail, got=txt))
            continue
        tmpl, has, val, old, ctl = assign_forms()[name]
        if what == "absent":
            nt.append(_h("a", name, block, src))
            bump(res, "R-assign-skip")
            bad = None
            if old is None:
                if k != "absent":
                    bad = f"`{obs[0][1]}` is {k} {txt!r}, expected absent (nothing stored)"
            else:
                want = old.format(T=uid.replace("u", "t"))
                if txt != want or k in ("absent", "error"):
                    bad = f"`{obs[0][1]}` is {k} {txt!r}, expected the previous value {want!r}"
            if bad is None and hk is not None:
                want_has = "true" if ctl == "neg-has" else "false"
                if hk[1] != want_has:
                    bad = f"`{obs[1][1]}` is {hk[1]!r}, expected {want_has} (a key was created or lost)"
            if bad:
                add_violation(res, dict(sigx, rule="R-assign-skip", form=name, what="absent-rhs", got=k),
                              f"R-assign-skip: after `{stm}` {bad}", dict(detail, got=[k, txt, hk]))
        else:
            # control: a present right-hand side IS stored (keeps the skip observations from being vacuous)
            bump(res, "assign-control")
            bad = None
            if cx is not None:
                if k != ck or txt != cx:
                    bad = f"`{obs[0][1]}` is {k} {txt!r}, expected {ck} {cx!r}"
                elif hk is not None and hk[1] != "true":
                    bad = f"`{obs[1][1]}` is {hk[1]!r}, expected true"
            elif ctl == "full":
                cexp = eval_text_of(src)
                if k != ck or txt != cexp:
                    bad = f"`{obs[0][1]}` is {k} {txt!r}, expected {ck} {cexp!r}"
                elif hk is not None and hk[1] != "true":
                    bad = f"`{obs[1][1]}` is {hk[1]!r}, expected true"
            elif ctl == "has":
                if hk is not None and hk[1] != "true" and k != "error":
                    bad = f"`{obs[1][1]}` is {hk[1]!r}, expected true"
            elif ctl == "neg-has":
                if ck == "string" and (hk[1] != "false" or txt != eval_text_of(src)):
                    bad = f"field was not renamed: name is {txt!r}, old key present: {hk[1]!r}"
            if bad:
                add_violation(res, dict(sigx, rule="assign-control", form=name, ctl=ck),
                              f"assign-control: after `{stm}` {bad}", dict(detail, got=[k, txt, hk]))
    res["nontrivial_keys"] = nt
    if name == "oosvar-new" and not block:
        res["sample"] = {"monitor": "a", "form": name, "statements": [u[1] for u in units[:3]]}
    return res


ABSKEY_BASES = {
    # base -> (setup statements, lvalue prefix, observed expression, text when nothing was stored, text when stored)
    "field": ("", "${T}", 'haskey($*, "{T}")', "false", "true"),
    "oosvar": ("", "@{T}", 'haskey(@*, "{T}")', "false", "true"),
    "local": ("var {T} = {{}};", "{T}", "length({T})", "0", "1"),
    "map-element": ('var {T} = {{"m": {{}}}};', '{T}["m"]', 'length({T}["m"])', "0", "1"),
}
ABSKEY_OPS = {"=": "1", "+=": "1", ".=": '"x"'}
ABSKEY_PRESENT = ['"a"', "2", '"c"']


def abskey_case(case):
    """Indexed assignment (plain and compound) with an absent-valued key at every index depth 1..3 and every position,
    on field, oosvar, local and map-element bases: the assignment is skipped and nothing is auto-created
    ('absent-valued keys or values result in a skipped assignment'); with a present key in the same position it stores."""
    base, op, labelmap, block = case["base"], case["op"], case["labelmap"], case.get("block")
    res = case_result(_h("ak", base, op, block, case["tier"]), nontrivial=True, evals=0)
    setup, prefix, obs, exp0, exp1 = ABSKEY_BASES[base]
    sources = [s_ for s_ in case["sources"] if not block or _block_ok(s_)]
    units, meta = [], {}
    for d in (1, 2, 3):
        for pos in range(d):
            for n, src in enumerate(sources + ['"kc"']):
                T = f"t{d}{pos}x{n}"
                idx = "".join(f"[({src})]" if i == pos else f"[{ABSKEY_PRESENT[i]}]" for i in range(d))
                stm = (setup.format(T=T) + " " + prefix.format(T=T) + idx + f" {op} {ABSKEY_OPS[op]};").strip()
                uid = f"k{d}{pos}x{n}"
                units.append((uid, stm, [(uid + ".o", obs.format(T=T))]))
                meta[uid] = (d, pos, src, n == len(sources))
    got = eval_units(units, res, wrap=block)
    nt = []
    for uid, stm, ob in units:
        d, pos, src, isctl = meta[uid]
        lab, txt = got[ob[0][0]]
        k = labelmap.get(lab, lab)
        res["evals"] += 1
        body = stm + f" print {ob[0][1]};"
        prog = PRELUDE + body if not block else PRELUDE_FUNCS + block + " {" + PRELUDE_LOCALS + body + "}"
        detail = {"argv": ["--ijson", "--ojson", "put", "-q", prog], "stdin": INPUT, "env": ENV, "statement": stm}
        sig = {"form": "indexed-absent-key", "base": base, "depth": d, "pos": pos + 1, "op": op}
        if block:
            sig["block"] = block
        if k == "SLOW":
            res["inconc"] += 1
            continue
        if not isctl:
            nt.append(_h("ak", base, op, block, d, pos, src))
            bump(res, "R-assign-skip")
        else:
            bump(res, "assign-control")
        if k == "CRASH":
            add_violation(res, dict(sig, rule="no-crash"), f"no-crash: {stm} crashes", dict(detail, got=txt))
        elif k == "FATAL":
            if isctl:
                add_violation(res, dict(sig, rule="assign-control", what="fatal"),
                              f"assign-control: `{stm}` (present keys) aborts: {txt[-200:]!r}", dict(detail, got=txt))
            else:
                add_violation(res, dict(sig, rule="R-assign-skip", what="absent-key-fatal"),
                              f"R-assign-skip: `{stm}` (absent key at index {pos + 1} of {d}) aborts instead of being skipped: "
                              f"{txt[-200:]!r}", dict(detail, got=txt))
        elif txt != (exp1 if isctl else exp0):
            if isctl:
                add_violation(res, dict(sig, rule="assign-control", what="present-key"),
                              f"assign-control: after `{stm}` (present keys) `{ob[0][1]}` is {txt!r}, expected {exp1!r}",
                              dict(detail, expected=exp1, got=txt))
            else:
                add_violation(res, dict(sig, rule="R-assign-skip", what="absent-key"),
                              f"R-assign-skip: after `{stm}` (absent key at index {pos + 1} of {d}) `{ob[0][1]}` is {txt!r}, "
                              f"expected {exp0!r}: something was stored or auto-created", dict(detail, expected=exp0, got=txt))
    res["nontrivial_keys"] = nt
    return res


def eval_text_of(src):
    return {"3": "3", '""': "", '"abc"': "abc", "null": "null", "2.5": "2.5", "true": "true"}[src]


# ------------------------------------------------------------------------------------------
# (s) accumulation idioms end to end: absent is the identity, records lacking the field are ignored

ACC_PROGRAM = """
@sum[$a] += $x;
@tot += $x;
@cnt[$a] += 1;
@s2[$a][$b] += $x;
@prod[$a] *= $p;
@cat[$a] .= $s;
@mn[$a] = min(@mn[$a], $m);
@mx[$a] = max(@mx[$a], $m);
@or[$a] |= $w;
@and[$a] &= $w;
@xor[$a] ^= $w;
@diff[$a] -= $x;
@last[$a] = $x;
@dsum[$a] = @dsum[$a] .+ $x;
end { dump }
"""
ACC_NAMES = ["sum", "tot", "cnt", "s2", "prod", "cat", "mn", "mx", "or", "and", "xor", "diff", "last"]
MISSING = object()


def _acc_records(rng):
    n = rng.choice([0, 1, 2, 3, 5, 8, 13, 25, 40])
    pa = rng.choice([0.0, 0.2, 0.5])
    px = rng.choice([0.1, 0.4, 0.8, 1.0])
    pe = rng.choice([0.0, 0.2])
    recs = []
    prod = {}
    for _ in range(n):
        r = {}
        if rng.random() >= pa:
            r["a"] = rng.choice(["pan", "eks", "wye"])
        if rng.random() >= 0.3:
            r["b"] = rng.choice(["u", "v"])

        def num():
            if rng.random() < 0.3:
                return rng.randint(-40, 40) + rng.choice([0.25, 0.5, 0.75])
            return rng.randint(-50, 50)
        if rng.random() >= px:
            r["x"] = "" if rng.random() < pe else num()
        if rng.random() >= px:
            if rng.random() < pe:
                r["p"] = ""
            else:
                g = r.get("a")
                v = rng.choice([1, 2, 3, -1, -2])
                if abs(prod.get(g, 1) * v) >= 2 ** 50:
                    v = rng.choice([1, -1])
                prod[g] = prod.get(g, 1) * v
                r["p"] = v
        if rng.random() >= px:
            r["s"] = rng.choice(["ab", "", "c d", "Z", "x=y"])
        if rng.random() >= px:
            r["m"] = num()
        if rng.random() >= px:
            r["w"] = rng.randint(0, 255)
        r["id"] = len(recs) + 1
        recs.append(r)
    return recs


def _acc_model(recs):
    """Fold with absent as the identity; an assignment whose right-hand side or key is absent is skipped.
    Empty with a number yields the number for + - * (null-data reference)."""
    st = {}

    def slot(name, keys, create):
        # returns (container, key) for @name[keys...]; with create=False never builds anything
        if any(k is MISSING for k in keys):
            return None
        return [name] + list(keys)

    def get(path):
        cur = st
        for k in path:
            if not isinstance(cur, dict) or k not in cur:
                return MISSING
            cur = cur[k]
        return cur

    def put(path, v):
        cur = st
        for k in path[:-1]:
            if k not in cur or not isinstance(cur[k], dict):
                cur[k] = {}
            cur = cur[k]
        cur[path[-1]] = v

    def arith(op):
        def f(s, x):
            # s: MISSING | number ; x: MISSING | "" | number
            if x is MISSING:
                return s
            if x == "":
                return s            # absent op empty = absent (skipped); number op empty = number
            if s is MISSING:
                return x
            return op(s, x)
        return f

    def dot(s, x):
        if x is MISSING:
            return s
        return ("" if s is MISSING else s) + x

    def plain(s, x):
        return s if x is MISSING else x
    for r in recs:
        a = r.get("a", MISSING)
        b = r.get("b", MISSING)
        x, p, s_, m, w = (r.get(k, MISSING) for k in ("x", "p", "s", "m", "w"))
        steps = [
            (["sum", a], arith(lambda u, v: u + v), x),
            (["tot"], arith(lambda u, v: u + v), x),
            (["cnt", a], arith(lambda u, v: u + v), 1),
            (["s2", a, b], arith(lambda u, v: u + v), x),
            (["prod", a], arith(lambda u, v: u * v), p),
            (["cat", a], dot, s_),
            (["mn", a], arith(min), m),
            (["mx", a], arith(max), m),
            (["or", a], arith(lambda u, v: u | v), w),
            (["and", a], arith(lambda u, v: u & v), w),
            (["xor", a], arith(lambda u, v: u ^ v), w),
            (["diff", a], arith(lambda u, v: u - v), x),
            (["last", a], plain, x),
            (["dsum", a], arith(lambda u, v: u + v), x),
        ]
        for path, f, val in steps:
            if any(k is MISSING for k in path):
                continue
            new = f(get(path), val)
            if new is MISSING:
                continue
            put(path, new)
    return st


def _ordered_equal(exp, got, path=""):
    """None if equal (same keys in the same order, numbers by value, strings by text) else a description."""
    if isinstance(exp, dict):
        if not isinstance(got, dict):
            return f"{path}: expected a map, got {got!r}"
        if list(exp.keys()) != list(got.keys()):
            return f"{path}: keys {list(got.keys())} != expected {list(exp.keys())}"
        for k in exp:
            d = _ordered_equal(exp[k], got[k], f"{path}[{k}]")
            if d:
                return d
        return None
    if isinstance(exp, str):
        return None if (isinstance(got, str) and got == exp) else f"{path}: {got!r} != expected {exp!r}"
    if isinstance(got, bool) or not isinstance(got, (int, float)):
        return f"{path}: {got!r} != expected {exp!r}"
    return None if got == exp else f"{path}: {got!r} != expected {exp!r}"


def acc_case(case):
    rng = random.Random(case["seed"])
    recs = _acc_records(rng)
    res = case_result(_h("s", case["seed"]), nontrivial=False)
    text = "".join(json.dumps({k: v for k, v in r.items()}) + "\n" for r in recs)
    argv = ["--ijson", "--ojson", "put", "-q", ACC_PROGRAM]
    r = R.mlr(argv, stdin=text, env=ENV)
    detail = {"argv": argv, "stdin": text, "env": ENV}
    lacking = sum(1 for q in recs if "x" not in q)
    res["nontrivial"] = bool(recs) and (lacking > 0 or any(q.get("x") == "" for q in recs))
    if r.verdict == "slow":
        res["inconc"] += 1
        return res
    if r.crashed() or not r.ok:
        add_violation(res, {"rule": "accumulate", "what": "run-failed"}, f"accumulation program fails rc={r.rc}",
                      dict(detail, stderr=r.err[-1500:]))
        return res
    try:
        got = json.loads(r.out, object_pairs_hook=dict) if r.out.strip() else {}
    except ValueError:
        add_violation(res, {"rule": "accumulate", "what": "dump-unparseable"}, "dump output is not JSON",
                      dict(detail, got=r.out[:2000]))
        return res
    exp = _acc_model(recs)
    # judged per accumulator so that a known deviation of one operator does not mask the others
    for name in list(exp.keys()) + [k for k in got if k not in exp]:
        bump(res, "accumulators_checked")
        if name not in exp:
            add_violation(res, {"rule": "accumulate", "acc": name, "what": "created"},
                          f"accumulate: @{name} exists although every update had an absent operand/key: {got[name]!r}",
                          dict(detail, expected="(no such variable)", got=got[name]))
            continue
        if name not in got:
            add_violation(res, {"rule": "accumulate", "acc": name, "what": "missing"},
                          f"accumulate: @{name} is missing from the dump", dict(detail, expected=exp[name]))
            continue
        d = _ordered_equal(exp[name], got[name], "@" + name)
        if d:
            add_violation(res, {"rule": "accumulate", "acc": name, "what": "value"}, f"accumulate: {d}",
                          dict(detail, expected=exp[name], got=got[name]))
    if case.get("sample"):
        res["sample"] = {"monitor": "s", "records": recs[:4], "n_records": len(recs), "expected_dump": exp}
    return res


# ------------------------------------------------------------------------------------------
# (p) is_* / asserting_* predicates classify every value consistently

def _pred_expected(pred, o):
    """Truth value the function help documents for predicate `pred` on operand o, or None if the help
    does not settle it (then the cell is recorded, not judged)."""
    k = o["kind"]
    txt = o.get("text", "")
    T = {
        "is_absent": k == "absent",
        "is_present": k != "absent",
        "is_array": k == "array", "is_not_array": k != "array",
        "is_map": k == "map", "is_not_map": k != "map",
        "is_empty_map": k == "map" and txt.strip() == "{}",
        "is_nonempty_map": k == "map" and txt.strip() != "{}",
        "is_bool": k == "boolean", "is_boolean": k == "boolean",
        "is_bytes": k == "bytes",
        "is_empty": k == "empty",
        "is_not_empty": k not in ("absent", "empty"),
        "is_error": k == "error",
        "is_float": k == "float", "is_int": k == "int", "is_numeric": k in ("int", "float"),
        "is_nan": k == "float" and txt == "NaN",
        "is_null": k in ("empty", "absent", "null"),
        "is_not_null": k not in ("empty", "absent", "null"),
        "is_string": k in ("string", "empty"),
    }
    return T.get(pred)


PRIMARY = ["is_int", "is_float", "is_boolean", "is_string", "is_bytes", "is_array", "is_map", "is_error", "is_absent"]
PAIRS = [("is_array", "is_not_array"), ("is_map", "is_not_map"), ("is_null", "is_not_null"), ("is_absent", "is_present")]


def pred_case(case):
    return _run_io(_pred_case, case)


def _pred_case(case):
    pool, labelmap, preds = case["pool"], case["labelmap"], case["preds"]
    src = (case.get("io") or {}).get("name")
    res = case_result(_h("p", case["tier"], src), nontrivial=True, evals=0)
    cells = []
    for o in pool:
        for p in preds:
            cells.append((f"{p}.{o['id']}", f"{p}({o['expr']})"))
    got = eval_cells(cells, res)
    nt = []
    table = {}
    for o in pool:
        row = {}
        for p in preds:
            lab, txt = got[f"{p}.{o['id']}"]
            res["evals"] += 1
            e = f"{p}({o['expr']})"
            detail = {"argv": replay_argv(e), "stdin": _stdin(), "env": ENV}
            if lab in ("SLOW",):
                res["inconc"] += 1
                continue
            if labelmap.get(lab) != "boolean" or txt not in ("true", "false"):
                add_violation(res, {"rule": "R-pred", "pred": p, "a": o["kind"], "what": "not-boolean"},
                              f"R-pred: {e} is {lab} {txt!r}, not a boolean", dict(detail, got=[lab, txt]))
                continue
            v = txt == "true"
            row[p] = v
            exp = _pred_expected(p, o)
            nt.append(_h("p", p, o["expr"], src))
            if exp is None:
                bump(res, "pred_cells_unjudged")
                continue
            bump(res, "R-pred")
            if v != exp:
                add_violation(res, {"rule": "R-pred", "pred": p, "a": o["kind"], "what": "truth"},
                              f"R-pred: {e} is {txt}, its help says {str(exp).lower()} for a value of kind {o['kind']}",
                              dict(detail, expected=exp, got=v))
        table[o["id"]] = row
        # relations between predicates, independent of what the generator thinks the kind is
        prim = [p for p in PRIMARY if row.get(p)]
        if all(p in row for p in PRIMARY):
            bump(res, "R-pred-partition")
            want = 0 if o["kind"] in ("null", "funct") else 1
            if len(prim) != want:
                add_violation(res, {"rule": "R-pred", "what": "partition", "a": o["kind"]},
                              f"R-pred: for {o['expr']} the primary kind predicates that hold are {prim} (expected exactly {want})",
                              {"argv": replay_argv(o["expr"]), "stdin": _stdin(), "env": ENV, "got": prim})
        for a, b in PAIRS:
            if a in row and b in row and row[a] == row[b]:
                add_violation(res, {"rule": "R-pred", "what": "complement", "pred": a, "a": o["kind"]},
                              f"R-pred: {a} and {b} agree ({row[a]}) on {o['expr']}",
                              {"argv": replay_argv(f"{a}({o['expr']}) . {b}({o['expr']})"), "stdin": _stdin(), "env": ENV})
        if all(p in row for p in ("is_numeric", "is_int", "is_float")) and row["is_numeric"] != (row["is_int"] or row["is_float"]):
            add_violation(res, {"rule": "R-pred", "what": "numeric", "a": o["kind"]},
                          f"R-pred: is_numeric != is_int or is_float on {o['expr']}",
                          {"argv": replay_argv(f"is_numeric({o['expr']})"), "stdin": _stdin(), "env": ENV})
        if all(p in row for p in ("is_null", "is_empty", "is_absent")) and o["kind"] != "null" and \
                row["is_null"] != (row["is_empty"] or row["is_absent"]):
            add_violation(res, {"rule": "R-pred", "what": "null", "a": o["kind"]},
                          f"R-pred: is_null != is_empty or is_absent on {o['expr']}",
                          {"argv": replay_argv(f"is_null({o['expr']})"), "stdin": _stdin(), "env": ENV})
    res["nontrivial_keys"] = nt
    res["ptable"] = table
    return res


def assert_case(case):
    """asserting_x(v) passes (returning v) iff is_x(v); one process per expected abort, one for all passes."""
    pool, labelmap = case["pool"], case["labelmap"]
    table = case["ptable"]          # {operand id: {pred: bool}} as observed by pred_case
    a = case["assert"]              # e.g. asserting_null
    p = "is_" + a[len("asserting_"):]
    res = case_result(_h("pa", a, case["tier"]), nontrivial=True, evals=0)
    nt = []
    passing = [o for o in pool if table.get(str(o["id"]), table.get(o["id"], {})).get(p) is True]
    failing = [o for o in pool if table.get(str(o["id"]), table.get(o["id"], {})).get(p) is False]
    got = eval_cells([(str(o["id"]), f"{a}({o['expr']})") for o in passing], res)
    for o in passing:
        lab, txt = got[str(o["id"])]
        res["evals"] += 1
        nt.append(_h("pa", a, o["expr"]))
        bump(res, "R-pred-assert")
        e = f"{a}({o['expr']})"
        if lab == "SLOW":
            res["inconc"] += 1
        elif lab in ("FATAL", "CRASH"):
            add_violation(res, {"rule": "R-pred", "what": "assert-aborts", "pred": a, "a": o["kind"]},
                          f"R-pred: {e} aborts although {p} is true", {"argv": replay_argv(e), "stdin": INPUT, "env": ENV,
                                                                      "got": txt[-400:]})
        elif labelmap.get(lab) != o["kind"] or (o["kind"] not in ("map", "array") and txt != o["text"]):
            add_violation(res, {"rule": "R-pred", "what": "assert-changes-value", "pred": a, "a": o["kind"]},
                          f"R-pred: {e} returns {lab} {txt!r}, not its argument", {"argv": replay_argv(e), "stdin": INPUT,
                                                                                 "env": ENV, "got": [lab, txt]})
    for o in failing:
        e = f"{a}({o['expr']})"
        r = R.mlr(["--ijson", "--ojson", "put", "-q", PRELUDE + f'print "reached:" . typeof({e});'], stdin=INPUT, env=ENV)
        bump(res, "processes")
        res["evals"] += 1
        nt.append(_h("pa", a, o["expr"]))
        bump(res, "R-pred-assert")
        if r.verdict == "slow":
            res["inconc"] += 1
        elif r.crashed():
            add_violation(res, {"rule": "no-crash", "pred": a, "a": o["kind"]}, f"no-crash: {e} crashes",
                          {"argv": replay_argv(e), "stdin": INPUT, "env": ENV, "got": r.err[-800:]})
        elif r.rc == 0 or "reached:" in r.out:
            add_violation(res, {"rule": "R-pred", "what": "assert-passes", "pred": a, "a": o["kind"]},
                          f"R-pred: {e} does not abort although {p} is false",
                          {"argv": replay_argv(e), "stdin": INPUT, "env": ENV, "got": r.out[:300]})
    res["nontrivial_keys"] = nt
    return res


# ------------------------------------------------------------------------------------------
# (d) the tables recorded in the null-data reference (output of upstream Miller pasted into the docs)

DOC_TOKEN = {"(empty)": ("empty", "$e"), "(absent)": ("absent", "$nosuch"), "(error)": ("error", "err")}


def parse_doc_tables(text):
    """-> {op: (col tokens, [(row token, [cell tokens])])} from the type-arithmetic-info-extended block."""
    m = re.search(r"<b>mlr help type-arithmetic-info-extended</b>\s*</pre>\s*<pre[^>]*>(.*?)</pre>", text, re.S)
    if not m:
        return None, None
    block = m.group(1).replace("&amp;", "&").replace("&lt;", "<").replace("&gt;", ">")
    tables = {}
    cur = None
    for line in block.split("\n"):
        if not line.strip():
            cur = None
            continue
        if "|" not in line and "+" in line:
            continue
        left, _, right = line.partition(" | ") if not line.startswith("(||)") else (line[:4], "", line.split("|", 3)[3])
        mm = re.match(r"^\((\S+)\)\s*$", left.strip())
        if cur is None and mm:
            cur = mm.group(1)
            tables[cur] = (right.split(), [])
            continue
        if cur is not None and not left.startswith("---"):
            tables[cur][1].append((left.strip(), right.split()))
    return tables, block


def _doc_operand(tok):
    if tok in DOC_TOKEN:
        return DOC_TOKEN[tok]
    if tok in ("true", "false"):
        return ("boolean", tok)
    if re.fullmatch(r"-?[0-9]+", tok):
        return ("int", tok)
    if re.fullmatch(r"-?[0-9]+\.[0-9]+", tok):
        return ("float", tok)
    return None


def doc_case(case):
    labelmap = case["labelmap"]
    res = case_result(_h("d", case["tier"]), nontrivial=True, evals=0)
    try:
        text = open(DOC_NULL).read()
    except OSError:
        text = ""
    tables, block = parse_doc_tables(text)
    if not tables or not all(t in tables for t in ("+", "&&", "||")):
        res["evals"] += 1
        add_violation(res, {"rule": "R-doc-table", "what": "tables-not-found"},
                      f"R-doc-table: the + && || tables cannot be read from {DOC_NULL}: nothing to compare with",
                      {"argv": ["help", "type-arithmetic-info-extended"], "stdin": ""})
        return res
    cells = []
    exp = {}
    for op, (cols, rows) in tables.items():
        if op not in ("+", "&&", "||"):
            continue
        for rtok, vals in rows:
            if len(vals) != len(cols):
                res["skipped"] += 1
                continue
            for ctok, v in zip(cols, vals):
                A, B = _doc_operand(rtok), _doc_operand(ctok)
                if A is None or B is None:
                    res["skipped"] += 1
                    continue
                cid = f"{len(cells)}"
                cells.append((cid, f"({A[1]}) {op} ({B[1]})"))
                exp[cid] = (op, rtok, ctok, v)
    got = eval_cells(cells, res)
    exprs = dict(cells)
    nt = []
    for cid, (op, rtok, ctok, v) in exp.items():
        lab, txt = got[cid]
        k = labelmap.get(lab, lab)
        res["evals"] += 1
        nt.append(_h("d", op, rtok, ctok))
        bump(res, "R-doc-table")
        want = _doc_operand(v)
        if want is not None and want[0] in ("int", "float"):
            # the table shows text only: the float 5 prints as "5"
            ok = k in ("int", "float") and same_value(txt, v)
        else:
            ok = want is not None and k == want[0] and (want[0] in ("empty", "absent", "error") or txt == v)
        if not ok:
            add_violation(res, {"rule": "R-doc-table", "op": op, "a": rtok, "b": ctok},
                          f"R-doc-table: {exprs[cid]} is {k} {txt!r}; reference-main-null-data.md tabulates {v}",
                          {"argv": replay_argv(exprs[cid]), "stdin": INPUT, "env": ENV, "expected": v, "got": [k, txt]})
    # the binary's own rendering of the table must be the documented one
    r = R.mlr(["help", "type-arithmetic-info-extended"], env=ENV)
    res["evals"] += 1
    bump(res, "R-doc-table")
    norm = lambda s: "\n".join(l.rstrip() for l in s.strip().split("\n"))
    if r.verdict == "slow":
        res["inconc"] += 1
    elif not r.ok or norm(r.out) != norm(block):
        add_violation(res, {"rule": "R-doc-table", "op": "help-output"},
                      f"R-doc-table: `mlr help type-arithmetic-info-extended` (rc={r.rc}) differs from the block recorded in the docs",
                      {"argv": ["help", "type-arithmetic-info-extended"], "stdin": "", "expected": block, "got": r.out})
    res["nontrivial_keys"] = nt
    res["sample"] = {"monitor": "d", "tables": {op: len(rows) * len(cols) for op, (cols, rows) in tables.items()}}
    return res


# ------------------------------------------------------------------------------------------

def _strip(pool):
    return [{k: o[k] for k in ("id", "kind", "expr", "canon", "text")} for o in pool]


def run(chk):
    only = getattr(chk, "only", None)
    tier = chk.tier
    pool_all = operand_pool(tier)
    labelmap, pool, problems = calibrate(pool_all)
    for p in problems:
        chk.add_violation({"rule": "calibration", "what": p[:60]}, "calibration: " + p, {"argv": replay_argv("$nosuch"), "stdin": INPUT})
    pool = _strip(pool)
    kinds_present = sorted({o["kind"] for o in pool})
    chk.extra["operand_kinds"] = kinds_present
    chk.extra["operands"] = len(pool)
    chk.extra["operands_dropped"] = [o["expr"] for o in pool_all if o.get("dropped")]
    chk.extra["typeof_labels"] = labelmap
    chk.exhaustive = True
    chk.rule = ("every cell (operator or function, operand, operand) of the finite matrix is enumerated: "
                f"{len(pool)} operands covering the 12 kinds {KINDS} (quick: one canonical operand per kind + second sources of "
                "absent/empty/null/false; thorough: boundary values inside each kind) x all binary operators, unary operators, "
                "class=math functions, variadic min/max at arity 0-3 (judged against a model of the documented collation, plus the "
                "pair-partition law), assignment forms (direct, indirect $[...]/@[...], ENV, typed locals, bound variables, $* and @*, "
                "in the main, begin and end blocks) x absent sources, indexed assignments with an absent key at every depth 1-3 and "
                "position on field/oosvar/local/map-element bases (= += .=), map literals with absent keys, is_*/asserting_* x operands, "
                "the same matrix and predicates over operands read from DKVP and CSV files, plus seeded random accumulation workloads. Non-trivial = at least one operand is absent, empty, error or JSON null, "
                "or the operand kinds differ (assignment cells: the right-hand side or key is absent; accumulation: some record lacks "
                "the field or has it empty). Distinct = by (monitor, operator, operand expressions).")
    fl = R.mlr(["help", "list-functions"], env=ENV)
    known = set(fl.out.split())
    docf, livef = doc_function_classes()
    if not docf:
        chk.add_violation({"rule": "calibration", "what": "function-reference-unreadable"},
                          f"calibration: no function signatures can be read from {DOC_FUNCS}", {"argv": ["help", "list-functions"], "stdin": ""})
        docf = livef
    for f in sorted(set(docf) | set(livef)):
        if docf.get(f) != livef.get(f):
            chk.add_violation({"rule": "function-class", "f": f, "doc": list(docf.get(f) or ()), "help": list(livef.get(f) or ())},
                              f"function-class: {f} is documented as {docf.get(f)} but `mlr help usage-functions-by-class` says "
                              f"{livef.get(f)} (the judged function sets follow the documentation)",
                              {"argv": ["help", "function", f], "stdin": ""})
    chk.stats["function-class"] = len(set(docf) | set(livef))
    for op in INFIX + UNARY_OPS:
        if op not in known:
            chk.add_violation({"rule": "operator-missing", "op": op},
                              f"operator-missing: the documented operator {op} is not in `mlr help list-functions`",
                              {"argv": ["help", "list-functions"], "stdin": ""})
    mf = math_functions(docf)
    math1 = sorted(f for f, n in mf.items() if n == "1")
    math2 = sorted(f for f, n in mf.items() if n == "2")
    math3 = sorted(f for f, n in mf.items() if n == "3")
    chk.extra["math_functions"] = {"arity1": math1, "arity2": math2, "arity3": math3}
    infix = list(INFIX)
    modelled = set(INFIX) | set(UNARY_OPS) | {"?:"}
    chk.extra["operators_unmodelled"] = sorted(f for f in known if not re.match(r"^[a-z_0-9]+$", f) and f not in modelled)

    if not only or "m" in only:
        cases = []
        doctab = {}
        try:
            tables, _ = parse_doc_tables(open(DOC_NULL).read())
        except OSError:
            tables = None
        for top, (cols, rows) in (tables or {}).items():
            doctab[top] = {(rt, ct): v for rt, vals in rows if len(vals) == len(cols) for ct, v in zip(cols, vals)}
        if not all(t in doctab and len(doctab[t]) == 36 for t in ("+", "&&", "||")):
            chk.add_violation({"rule": "R-doc-table", "what": "tables-not-found"},
                              "R-doc-table: the + && || tables of reference-main-null-data.md cannot be parsed",
                              {"argv": ["help", "type-arithmetic-info-extended"], "stdin": ""})
        for op in infix:
            cases.append({"op": op, "form": "infix", "pool": pool, "labelmap": labelmap, "tier": tier, "math2": math2,
                          "doctab": doctab})
        for op in MINMAX + ["pow"] + [f for f in math2 if f != "pow"]:
            if True:
                cases.append({"op": op, "form": "func", "pool": pool, "labelmap": labelmap, "tier": tier, "math2": math2})
        results = chk.pmap(matrix_case, cases, label="m matrix")
        mats = {r["matrix"]["op"]: r["matrix"]["rows"] for r in results if r.get("matrix")}
        full = {r["matrix"]["op"]: r.get("kinds_full", {}) for r in results if r.get("matrix")}
        chk.extra["binary_operators_checked"] = sorted(mats)
        chk.extra["kind_matrices_observed_not_judged"] = {"columns": "".join(ABBR[k] for k in KINDS), "legend": ABBR, "ops": mats}
        unj = {r["unjudged"]["op"]: r["unjudged"] for r in results if r.get("unjudged")}
        chk.extra["matrix_cells_total"] = sum(u["cells"] for u in unj.values())
        chk.extra["matrix_cells_without_documented_expectation"] = sum(u["no_rule"] for u in unj.values())
        chk.extra["matrix_cells_judged_by_symmetry_only"] = sum(u["only_symmetry"] for u in unj.values())
        chk.extra["matrix_unjudged_per_op"] = {o: [u["no_rule"], u["only_symmetry"], u["cells"]] for o, u in sorted(unj.items())}
        byid = {o["id"]: o for o in pool}
        for x, y in TWINS:
            if x in full and y in full:
                ncmp = 0
                for cid, k in full[x].items():
                    if cid not in full[y]:
                        continue
                    ncmp += 1
                    k2 = full[y][cid]
                    ia, ib = (int(t) for t in cid.split("_"))
                    a, b = byid[ia], byid[ib]
                    if a["kind"] in ("int", "float") and b["kind"] in ("int", "float"):
                        continue        # number with number: overflow handling is where the twins differ (C07)
                    if k != k2 and "SLOW" not in (k, k2):
                        e1 = bexpr(x, a["expr"], b["expr"], "func" if x.isalnum() else "infix")
                        e2 = bexpr(y, a["expr"], b["expr"], "infix")
                        chk.add_violation({"rule": "R-twin", "op": x, "twin": y, "a": a["kind"], "b": b["kind"]},
                                          f"R-twin: {e1} is {k} but {e2} is {k2}; `{x}` is documented as `{y}` "
                                          "differing only in overflow handling / spelling",
                                          {"argv": replay_argv(e1), "stdin": INPUT, "env": ENV, "expected": k2, "got": k})
                chk.stats["R-twin"] = chk.stats.get("R-twin", 0) + ncmp
                chk.evaluations += ncmp

    if not only or "u" in only:
        cases = [{"f": f, "fkind": "op", "pool": pool, "labelmap": labelmap, "tier": tier} for f in UNARY_OPS]
        cases += [{"f": f, "fkind": "math", "pool": pool, "labelmap": labelmap, "tier": tier} for f in math1]
        results = chk.pmap(unary_case, cases, label="u unary")
        chk.extra["unary_rows"] = {"columns": "".join(ABBR[k] for k in KINDS),
                                   "rows": {r["urow"]["f"]: r["urow"]["row"] for r in results if r.get("urow")}}
        cases = [{"f": f, "arity": n, "pool": pool, "labelmap": labelmap, "tier": tier, "seed": f"{chk.seed}/un/{f}"}
                 for n, fs in ((2, math2), (3, math3)) for f in fs]
        chk.pmap(mathn_case, cases, label="u math arity 2-3")
        judged, others = judged_functions(docf)
        chk.extra["func_abs_functions_judged"] = sorted(judged)
        chk.pmap(funcabs_case, [{"f": f, "args": a, "labelmap": labelmap, "tier": tier} for f, (c, a) in sorted(judged.items())],
                 label="u functions of absent arguments")
        funcs = [(f, n) for f, (c, a) in sorted(judged.items()) for n in _arities(a)]
        chk.pmap(funcabs_e2e_case, [{"funcs": funcs, "vals": v, "tier": tier, "sample": i == 0}
                                    for i, v in enumerate(FUNCABS_VALUES)], label="u $z = f(...) on records lacking fields")
        # the other function classes: recorded for drift only (many of them document/return an error for absent)
        ocells = [(f"{f}.{n}", f"{f}({', '.join(['$nosuch'] * n)})") for f, (c, a) in sorted(others.items())
                  if not f.startswith("asserting_") for n in _arities(a) if n <= 3]
        ogot = eval_cells(ocells)
        chk.extra["other_classes_all_absent_kinds"] = {cid: labelmap.get(v[0], v[0]) for cid, v in sorted(ogot.items())}
        cases = []
        canon_ids = [o["id"] for o in pool if o["canon"]]
        cases.append({"f": "min", "rows": "partition", "pool": pool, "labelmap": labelmap, "tier": tier})
        for f in MINMAX:
            cases.append({"f": f, "rows": "small", "pool": pool, "labelmap": labelmap, "tier": tier})
            for i in range(0, len(canon_ids), 3):
                cases.append({"f": f, "rows": tuple(canon_ids[i:i + 3]), "pool": pool, "labelmap": labelmap, "tier": tier})
        results = chk.pmap(variadic_case, cases, label="u variadic min/max")
        a0 = {}
        for r in results:
            a0.update(r.get("arity0", {}))
        chk.extra["variadic_arity0_kind"] = a0

    if not only or "a" in only:
        got = eval_cells([(str(i), "(" + s + ")") for i, (s, _) in enumerate(ABSENT_SOURCES)])
        sources = []
        for i, (s, soft) in enumerate(ABSENT_SOURCES):
            k = labelmap.get(got[str(i)][0])
            if k == "absent":
                sources.append(s)
            elif not soft:
                chk.add_violation({"rule": "calibration", "what": "absent-source", "src": s},
                                  f"calibration: {s} is documented to be absent but typeof says {got[str(i)][0]}",
                                  {"argv": replay_argv(s), "stdin": INPUT})
        if chk.quick():
            sources = sources[:12]
        forms = assign_forms()
        chk.extra["assignment_forms"] = len(forms) + len(ABSENT_KEY_FORMS)
        chk.extra["absent_sources"] = sources
        cases = [{"form": n, "labelmap": labelmap, "sources": sources, "tier": tier}
                 for n in list(forms) + list(ABSENT_KEY_FORMS)]
        # the same statements inside begin and end blocks (forms and sources that do not touch the record)
        nblock = 0
        for blk in ("begin", "end"):
            for n in list(forms) + list(ABSENT_KEY_FORMS):
                t = forms[n][0] + forms[n][2] + (forms[n][1] or "") if n in forms else "".join(ABSENT_KEY_FORMS[n][:2])
                if _block_ok(t):
                    cases.append({"form": n, "labelmap": labelmap, "sources": sources, "tier": tier, "block": blk})
                    nblock += 1
        chk.extra["assignment_forms_in_begin_end_blocks"] = nblock
        chk.pmap(assign_case, cases, label="a assignment")
        ksrc = sources if not chk.quick() else sources[:6]
        kcases = [{"base": b, "op": o, "labelmap": labelmap, "sources": ksrc, "tier": tier} for b in ABSKEY_BASES for o in ABSKEY_OPS]
        kcases += [{"base": b, "op": o, "labelmap": labelmap, "sources": ksrc, "tier": tier, "block": blk}
                   for blk in ("begin", "end") for b in ABSKEY_BASES if b != "field"
                   for o in (["="] if chk.quick() else list(ABSKEY_OPS))]
        chk.extra["indexed_absent_key_cells"] = "bases %s x depth 1-3 x every key position x ops %s x %d absent sources" % (
            sorted(ABSKEY_BASES), sorted(ABSKEY_OPS), len(ksrc))
        chk.pmap(abskey_case, kcases, label="a indexed assignment with an absent key")

    if not only or "s" in only:
        n = chk.pick(150, 2500)
        chk.pmap(acc_case, [{"seed": f"{chk.seed}/s/{i}", "sample": i == 7} for i in range(n)], chunksize=4,
                 label="s accumulation")

    if not only or "p" in only:
        preds = sorted(f for f in known if f.startswith("is_"))
        chk.extra["predicates"] = preds
        chk.extra["predicates_unmodelled"] = [p for p in preds if _pred_expected(p, {"kind": "int", "text": "1"}) is None]
        results = chk.pmap(pred_case, [{"pool": pool, "labelmap": labelmap, "preds": preds, "tier": tier}], label="p predicates")
        ptable = results[0].get("ptable", {}) if results else {}
        asserts = sorted(f for f in known if f.startswith("asserting_") and "is_" + f[len("asserting_"):] in preds)
        chk.pmap(assert_case, [{"pool": pool, "labelmap": labelmap, "ptable": ptable, "assert": a, "tier": tier}
                               for a in asserts], label="p asserting_*")

    if not only or "d" in only:
        chk.pmap(doc_case, [{"labelmap": labelmap, "tier": tier}], label="d doc tables")

    if not only or "f" in only:
        # the same rules with operands read from DKVP / CSV files instead of being built in the DSL
        fops = ["+", "-", "*", "/", "//", "**", ".+", "&", "|", "<<", ".", "<", "<=", "==", "!=", ">", "<=>", "&&", "||", "^^",
                "??", "???", "=~", "min", "max"]
        if not chk.quick():
            fops = infix + MINMAX + ["pow"]
        preds = sorted(f for f in known if f.startswith("is_"))
        fcases, pcases = [], []
        for io in from_data_sources():
            fpool, probs = calibrate_from_data(io, labelmap)
            for o, k, txt in probs:
                chk.add_violation({"rule": "from-data-kind", "source": io["name"], "field": o["expr"], "expected": o["kind"], "got": k},
                                  f"from-data-kind: {o['expr']} read from {io['name']} {io['stdin']!r} is {k} {txt!r}; the "
                                  f"documentation says {o['kind']} {o['text']!r}",
                                  {"argv": io["flags"] + ["put", "-q", f"print typeof({o['expr']}); print {o['expr']};"],
                                   "stdin": io["stdin"], "env": ENV, "expected": [o["kind"], o["text"]], "got": [k, txt]})
            chk.stats["from-data-kind"] = chk.stats.get("from-data-kind", 0) + len(fpool) + len(probs)
            chk.evaluations += len(fpool) + len(probs)
            fpool = _strip(fpool)
            for op in fops:
                fcases.append({"op": op, "form": "func" if op.isalnum() else "infix", "pool": fpool, "labelmap": labelmap,
                               "tier": tier, "math2": math2, "io": io, "doctab": None})
            pcases.append({"pool": fpool, "labelmap": labelmap, "preds": preds, "tier": tier, "io": io})
        chk.extra["from_data_operands"] = [f"{f}={v!r} ({k})" for f, v, k in FROM_DATA_FIELDS] + ["(field not in the record) (absent)"]
        chk.extra["from_data_operators"] = fops
        chk.pmap(matrix_case, fcases, label="f matrix over operands read from DKVP/CSV")
        chk.pmap(pred_case, pcases, label="f predicates over operands read from DKVP/CSV")

    chk.extra["cells_per_rule"] = {k: v for k, v in chk.stats.items() if k.startswith(("R-", "assign-", "accum"))}
    chk.assumptions = [
        "operand kinds are manufactured in the DSL and calibrated with typeof at run time: $nosuch/@nosuch/unset local/"
        "missing map key/function without return are absent (reference-main-null-data.md, reference-dsl-variables.md), "
        "\"\" and JSON \"\" are empty, JSON null and the null keyword are JSON null, 1/\"x\" is an error, a function literal is a funct",
        "R-abs-id is read over the operator's own domain (int/float for arithmetic, int for bitwise, scalars for dot where the "
        "result is compared as text, int/float/boolean/string/empty for min/max): `absent + \"abc\"` being an error is the type rule",
        "&& and || short-circuit by documentation, so they are not in the commutativity rule nor in R-error; they are checked "
        "against the table recorded in reference-main-null-data.md; ?? and ??? are the coalescing operators and are not in R-error",
        "scalars for R-error are the kinds listed under Scalars in reference-main-data-types.md (string incl. empty, int, float, boolean, bytes)",
        "empty - x is -x (worked example in the null-data reference); x - empty is x",
        "division-like operators with a numeric zero right operand are skipped here (C07's subject)",
        "R-type is the documented type rule, written from the documentation only (see the comment above doc_expect): the (+) table "
        "of the null-data reference extended to the other arithmetic/bitwise operators by its sentence 'Other arithmetic, boolean, "
        "and bitwise operators besides && and || are similar to +' (boolean or string operand -> error, error operand -> error, "
        "empty/absent pairs, number x number -> number); number with empty for / // % ** ./ and the bitwise operators may be the "
        "number ('similar to +') or empty ('most operators with an empty argument produce empty'), nothing else; dot concatenates "
        "the printed texts; comparison operators follow their help ('Mixing number and string results in string compare'); "
        "?? / ??? follow their help; && / || follow the recorded tables and the short-circuit prose; min/max follow "
        "reference-dsl-operators.md, the help and the numbers-before-strings note of the stats1 min/max accumulators",
        "cells the documentation leaves open (bytes, funct, JSON null, collections in arithmetic, float with bitwise operators, "
        "booleans against numbers/strings in min/max and comparisons, number-looking string literals) are NOT judged and nothing "
        "about them is taken from the binary: they are counted in matrix_cells_without_documented_expectation / "
        "matrix_cells_judged_by_symmetry_only; the observed kind matrices are kept in the evidence for the reader only",
        "an operator cell that aborts the process (instead of yielding a value, possibly an error value) is a violation",
        "from-data operands (monitor f): kinds per reference-main-arithmetic.md 'Input scanning' and reference-main-data-types.md "
        "(0xff int, 1e3 float, -, true, infinity and a single space are strings, x= is empty, a field the record lacks is absent)",
        "R-math-empty applies the null-data reference's sentence on functions of empty (example: log) to the class=math unary functions",
        "R-func-abs ('Functions of absent variables evaluate to absent', null-data reference) is judged for the named class=arithmetic "
        "and class=math functions at every arity and every non-empty subset of absent positions, and end to end as `$z = f(...)` on "
        "records lacking fields; documented exceptions: min/max return the other argument, pow is 'the same as **' (an operator). The "
        "other function classes are only recorded (other_classes_all_absent_kinds): most of them return an error for absent",
        "R-twin: .+ .- .* are documented as + - * with integer-preserving overflow and pow as 'same as **', so their kind matrices must coincide",
        "accumulation model: ints and dyadic floats only (sums exact), products kept below 2^50, min/max workloads contain no empty values "
        "(max(empty, number) is judged in the matrix)",
        "assignment forms and compound-assignment operators are a fixed list taken from the documentation and the Miller 6 grammar "
        "(no min= / max=, which Miller 6 does not have); a listed form that stops parsing is a violation, not a skip",
    ]
