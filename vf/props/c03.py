"""C03 - fields a chain does not assign pass through byte-for-byte (DESIGN.md section 3, C03).

The oracle is text equality between what went in and what came out.
  a  bystander fields holding number spellings / hostile strings travel through chains of
     readers-not-writers (sort keys, comparisons, type tests, statistics that carry the record,
     restructuring of *other* fields, join, fill-empty, tee/split files ...); output records are mapped to input
     records by unique id; each carried bystander must have exactly its input text, and all surviving input fields
     must keep their relative order. Input formats dkvp/csv/tsv/xtab/nidx/json x non-JSON output formats x
     {default,-S,-A,-O,--ofmt}; 8-23 fields per record (30 % cross the 12-field key index), --records-per-batch 1/2,
     600-record streams. A chain of readers that exits non-zero (outside the few verbs documented to reject data),
     crashes or hangs is a violation.
  f  mechanism sweep: every spelling x every builtin function of arity 1-3 and every operator (from `mlr help ...`
     at run time) read as  put 'var y = is_error(f($x))'  - the value is read into a local that is never stored, so
     DKVP output must be byte-identical to DKVP input.
  c  functions only read their arguments: JSON records with an array field, a map field (unsorted, nested,
     non-canonical number tokens, 11/12/13/51 elements, dotted and integer keys) and two scalars; every builtin
     function / operator applied to them with the result stored in a NEW field; every pre-existing field must come out
     token for token (JSON output) / text for text (flattened DKVP output), including element and key order.
  w  chains of 2-3 verbs from a small documented set (vf/model/c03_wide.py) on records of 10-25 fields where the
     first changes names / order / width and the later ones reach fields by name (stale, new and untouched names):
     field names, their order and the text of every unassigned field are judged against the documented result.
  j  the documented exception: --ojson / --oyaml re-render exactly the numerals that are not legal JSON numbers,
     to a number of the same value, and nothing else (fixed small set x reading chains, DKVP and JSON input).
"""
import csv
import hashlib
import io
import json
import random
import re
import shutil

from .. import run as R
from ..harness import add_violation, bump, case_result

BINARIES = ("mlr-verif",)
LEVEL = "exploration"
ENV = {"MLR_NO_SHELL": "1"}
FLAGS = ["", "-S", "-A", "-O"]


def _h(*xs):
    return hashlib.sha1(repr(xs).encode()).hexdigest()[:16]


# ------------------------------------------------------------------------------------------
# spellings (bytes-safe: str with surrogateescape for invalid UTF-8)

def _b(bs):
    return bs.decode("utf-8", "surrogateescape")


NUMERIC_SPELLINGS = [
    "0xFF", "0xff", "0XFF", "-0xff", "+0xff", "0b101", "-0b101", "0B11", "0o17", "-0o17", "0O17", "+5", "-5", "007", "-007", "+007",
    "08", "09", "00", "0", "-0", "+0", "-0.0", "+0.0", "0.0", "1e5", "1E5", "1e+5", "1e-5", "1e05", "1.500", "1.0", "100.", "5.",
    "-5.", ".5", "-.5", "+.5", "0.5", "0.50", "1_000", "123456789012345678901234567890", "9223372036854775807",
    "9223372036854775808", "-9223372036854775808", "-9223372036854775809", "18446744073709551616",
    "0x7FFFFFFFFFFFFFFF", "0x8000000000000000", "0xFFFFFFFFFFFFFFFF", "0x10000000000000000", "1E-400", "1e400", "-1e400",
    "Inf", "+Inf", "-Inf", "inf", "infinity", "NaN", "nan", "-NaN", "true", "false", "0x1p3", "0x1.8p1", "1.2.3", "1e", "1e+",
    "0x", "0b", "0o", "0b102", "0o8", "--5", "5-", "1d5", "1f", "1e5.5", "e5", ".", "+", "-", "1.", "6.02E23",
    "3.14159265358979323846264338327950288", "0.30000000000000004", "1.7976931348623157e308", "4.9e-324",
    "2.2250738585072014e-308", "1e-320", "0.1", "0.10", "1.10", "10", "010", "0010.50", "1e0", "1E+00", "0e0", "0x0", "0x00ff",
    "1,5".replace(",", ";"), "１２３", "٣", "1 000", "1/2", "50%", "$5", "5$", "1:30", "2021-01-02",
    "12:34:56", "1e5e5", "0x1g", "+-5", "0x-5", "0.", "00.5", "-.", "1__0", "_1", "1_",
]
SPACED_SPELLINGS = [" 7", "7 ", " 7 ", "1 000", "  ", " ", "a b", " 0x1F", "1.5 "]
STRING_SPELLINGS = [
    "", "-", "#", "a=b", "=", "x;y", "a|b", "it's", "\\", "\\t", "\\n", "\\1", "\\.", "a\\b", _b(b"\xff\xfe"), _b(b"ab\xc3"),
    _b(b"\xed\xa0\x80"), "é", "日本語", "é", "\U0001F600", "​", "﻿", "\x01", "\x7f", "\x1b[31m",
    "NULL", "null", "None", "N/A", "%d", "%s", "%08.3lf", "$x", "${x}", ".*", "[", "(", ")", "{", "}", "*", "?", "^$", "a.b", "a:b",
    "<b>", "&amp;", "True", "FALSE", "yes", "abc", "ABC", "Abc", "x" * 300, "0" * 70, "\t", "a\tb", "\"", "\"q\"", "a\"b", "''",
    "a,b", ",", "\r", "a\rb",
]


def spelling_ok(s, fmt, role):
    """Can this spelling be carried as a value by the format (role: 'in' or 'out')? Exclusions are only those
    inherent in the format's syntax (no escape mechanism / separator characters / alignment by spaces)."""
    if "\n" in s:
        return False
    if fmt == "dkvp":
        return "," not in s and "\r" not in s
    if fmt == "csv":
        if role == "in":
            # the generator writes unquoted cells; quoting-needing content is C01's subject
            return not any(c in s for c in ',"\r') and s == s.strip(" ") and s != ""
        return "\r" not in s
    if fmt == "tsv":
        return not any(c in s for c in "\t\r\\") and s != ""
    if fmt in ("xtab", "nidx", "pprint"):
        return s != "" and not any(c in s for c in " \t\r") and s != "-" and not s.startswith("#")
    if fmt == "json":
        # input only: JSON text carries valid UTF-8; control characters travel as escapes, which is C01's subject
        return role == "in" and _json_ok(s)
    return False


def all_spellings(tier, rng):
    S = NUMERIC_SPELLINGS + SPACED_SPELLINGS + STRING_SPELLINGS
    if tier == "thorough":
        alpha = "0123456789+-.eExXbBoO_aAfFnN"
        for a in alpha:
            S.append(a)
            for b in alpha:
                S.append(a + b)
        for _ in range(1500):
            S.append("".join(rng.choice(alpha) for _ in range(rng.choice([3, 3, 4, 5, 7]))))
    seen = set()
    out = []
    for s in S:
        if s not in seen:
            seen.add(s)
            out.append(s)
    return out


_INT_RE = re.compile(r"[+-]?(0[xX][0-9a-fA-F]+|0[bB][01]+|0[oO][0-7]+|[0-9]+)$")
_FLT_RE = re.compile(r"[+-]?([0-9]+\.?[0-9]*|\.[0-9]+)([eE][+-]?[0-9]+)?$")


def numeric_value(s):
    """Python value of a spelling under the documented number grammar (approximation used only to count
    non-trivial cases and to check the JSON re-rendering), or None."""
    if _INT_RE.match(s):
        sign = -1 if s.startswith("-") else 1
        u = s.lstrip("+-")
        try:
            if u[:2].lower() == "0x":
                return sign * int(u[2:], 16)
            if u[:2].lower() == "0b":
                return sign * int(u[2:], 2)
            if u[:2].lower() == "0o":
                return sign * int(u[2:], 8)
            return sign * int(u, 10)
        except ValueError:
            return None
    if _FLT_RE.match(s):
        try:
            return float(s)
        except ValueError:
            return None
    return None


def noncanonical_number(s):
    v = numeric_value(s)
    if v is None:
        return False
    if isinstance(v, int):
        return s != str(v)
    return s not in (repr(v), str(v), "%g" % v)


JSON_NUM = re.compile(r"-?(0|[1-9][0-9]*)(\.[0-9]+)?([eE][+-]?[0-9]+)?$")

# ------------------------------------------------------------------------------------------
# writers for inputs, parsers for outputs (values are under the generator's control)

IFLAG = {"dkvp": ["--idkvp"], "csv": ["--icsv"], "tsv": ["--itsv"], "xtab": ["--ixtab"], "nidx": ["--inidx", "--ifs", "space"],
         "json": ["--ijson"]}
OFLAG = {"dkvp": ["--odkvp"], "csv": ["--ocsv"], "tsv": ["--otsv"], "xtab": ["--oxtab"], "nidx": ["--onidx", "--ofs", "space"],
         "pprint": ["--opprint"]}


def write_input(fmt, recs):
    """recs: list of list of (key, value) with identical key lists."""
    if fmt == "dkvp":
        return "".join(",".join(f"{k}={v}" for k, v in r) + "\n" for r in recs)
    if fmt == "csv":
        return ",".join(k for k, _ in recs[0]) + "\n" + "".join(",".join(v for _, v in r) + "\n" for r in recs)
    if fmt == "tsv":
        return "\t".join(k for k, _ in recs[0]) + "\n" + "".join("\t".join(v for _, v in r) + "\n" for r in recs)
    if fmt == "xtab":
        return "\n".join("".join(f"{k} {v}\n" for k, v in r) for r in recs)
    if fmt == "nidx":
        return "".join(" ".join(v for _, v in r) + "\n" for r in recs)
    raise ValueError(fmt)


def parse_output(fmt, text):
    """-> list of records as lists of (key, value); None if the text cannot be parsed."""
    recs = []
    if fmt == "dkvp":
        for line in text.split("\n"):
            if line == "":
                continue
            rec = []
            for n, pair in enumerate(line.split(",")):
                if "=" in pair:
                    k, v = pair.split("=", 1)
                else:
                    k, v = str(n + 1), pair
                rec.append((k, v))
            recs.append(rec)
        return recs
    if fmt in ("csv", "tsv"):
        blocks = []
        if fmt == "csv":
            # schema change = blank line + new header (csvlite style) or a new header block
            rows = list(csv.reader(io.StringIO(text, newline=""), strict=False))
        else:
            rows = [line.split("\t") for line in text.split("\n")]
            if rows and rows[-1] == [""]:
                rows.pop()
        hdr = None
        for row in rows:
            if row == [] or row == [""]:
                hdr = None
                continue
            if hdr is None:
                hdr = row
                continue
            if len(row) < len(hdr):
                return None
            # file-formats.md: "If there are too many keys, but these match the header up to the number of header fields,
            # the extra fields are emitted" - data rows may be longer than the header; the extras have no names
            recs.append(list(zip(hdr, row)) + [(f"#{i+1}", v) for i, v in enumerate(row) if i >= len(hdr)])
        return recs
    if fmt == "xtab":
        cur = []
        for line in text.split("\n"):
            if line == "":
                if cur:
                    recs.append(cur)
                cur = []
                continue
            m = re.match(r"(\S+) +(.*)$", line)
            if not m:
                return None
            cur.append((m.group(1), m.group(2)))
        if cur:
            recs.append(cur)
        return recs
    if fmt == "nidx":
        for line in text.split("\n"):
            if line == "":
                continue
            recs.append([(str(i + 1), v) for i, v in enumerate(line.split(" "))])
        return recs
    if fmt == "pprint":
        hdr = None
        for line in text.split("\n"):
            if line == "":
                hdr = None
                continue
            cells = [c for c in line.split(" ") if c != ""]
            if hdr is None:
                hdr = cells
                continue
            if len(cells) != len(hdr):
                return None
            recs.append(list(zip(hdr, cells)))
        return recs
    raise ValueError(fmt)


# ------------------------------------------------------------------------------------------
# (a) chains of readers-not-writers

def D(name):
    return "${" + name + "}"


def catalogue(rng, N, i):
    """Verbs/statements that read bystander fields N['x'], N['y'] but assign none of the bystanders, and that emit
    the original record. N maps roles to field names; i makes new field names unique per chain position."""
    x, y, g, k, t, o, idf = N["x"], N["y"], N["g"], N["k"], N["t"], N["o"], N["id"]
    n = f"new{i}"
    C = [
        (["sort", "-f", x], "sort-f"), (["sort", "-r", x], "sort-r"), (["sort", "-nf", x], "sort-nf"),
        (["sort", "-nr", x], "sort-nr"), (["sort", "-c", x], "sort-c"), (["sort", "-cr", x], "sort-cr"),
        (["sort", "-t", x], "sort-t"), (["sort", "-tr", x], "sort-tr"), (["sort", "-f", g, "-nr", x, "-f", y], "sort-multi"),
        (["filter", f"{D(x)} < 3 || true"], "filter-lt"), (["filter", f"is_numeric({D(x)}) || true"], "filter-is_numeric"),
        (["filter", "-x", f"{D(x)} == {D(y)} && false"], "filter-eq"),
        (["filter", f'{D(x)} =~ "^[0-9]+$" || true'], "filter-regex"),
        (["filter", f'typeof({D(x)}) != "nosuchtype"'], "filter-typeof"),
        (["filter", f"is_present(asserting_present({D(x)}))"], "filter-asserting"),
        (["filter", f"{D(x)} <= {D(y)} || {D(x)} >= {D(y)} || true"], "filter-cmp2"),
        (["filter", f'is_string({D(x)}) || is_int({D(x)}) || is_float({D(x)}) || is_empty({D(x)}) || true'], "filter-is_star"),
        (["put", f"{D(n)} = {D(x)} + 1"], "put-plus"), (["put", f'{D(n)} = {D(x)} . "s"'], "put-dot"),
        (["put", f"{D(n)} = {D(x)} * 1.0"], "put-times"), (["put", f"{D(n)} = strlen({D(x)})"], "put-strlen"),
        (["put", f"{D(n)} = typeof({D(x)})"], "put-typeof"), (["put", f"{D(n)} = abs({D(x)})"], "put-abs"),
        (["put", f"{D(n)} = min({D(x)}, {D(y)})"], "put-min"), (["put", f"{D(n)} = {D(x)} < {D(y)}"], "put-lt"),
        (["put", f'{D(n)} = fmtnum({D(x)}, "%d")'], "put-fmtnum"), (["put", f'{D(n)} = fmtifnum({D(x)}, "%.2f")'], "put-fmtifnum"),
        (["put", f"{D(n)} = sec2gmt({D(x)})"], "put-sec2gmt"), (["put", f"{D(n)} = {D(x)} // 2"], "put-intdiv"),
        (["put", f"{D(n)} = {D(x)} & 1"], "put-bitand"), (["put", f"{D(n)} = -{D(x)}"], "put-neg"),
        (["put", f"{D(n)} = int({D(x)})"], "put-int"), (["put", f"{D(n)} = float({D(x)})"], "put-float"),
        (["put", f"{D(n)} = string({D(x)})"], "put-string"), (["put", f"{D(n)} = hexfmt({D(x)})"], "put-hexfmt"),
        (["put", f"{D(n)} = {D(x)} ?? \"d\""], "put-coalesce"), (["put", f"{D(n)} = {D(x)} ??? \"d\""], "put-coalesce3"),
        (["put", f"{D(n)} = is_nan({D(x)}) ? 1 : 2"], "put-ternary"),
        (["put", f"{D(n)} = round({D(x)}) . ceil({D(y)})"], "put-round"),
        (["put", f"{D(n)} = toupper({D(x)})"], "put-toupper"), (["put", f'{D(n)} = sub({D(x)}, "0", "Z")'], "put-sub"),
        (["put", f'{D(n)} = splitax({D(x)}, ".")[1]'], "put-splitax"),
        (["put", "-q", "emit mapsum($*, {})"], "emit-mapsum"), (["put", "-q", "emit (mapsum($*, {}))"], "emit-mapsum-paren"),
        (["put", "-q", f'emit mapexcept($*, "{o}")'], "emit-mapexcept"),
        (["put", 'for (k,v in $*) { @s[k] = v . "" }'], "put-forloop"),
        (["put", f'map m = $*; m["{x}"] = 1; {D(n)} = length(m)'], "put-mapcopy"),
        (["put", f"@acc[{D(x)}] = NR; {D(n)} = @acc[{D(x)}]"], "put-mapkey"),
        (["put", f"if ({D(x)} > {D(y)}) {{ {D(n)} = 1 }} else {{ {D(n)} = 2 }}"], "put-if"),
        (["put", f"{D(n)} = $[[2]] . $[[[2]]]"], "put-positional"), (["put", f'{D(n)} = $*["{x}"]'], "put-srec-index"),
        (["put", f"unset {D(o)}"], "put-unset-other"), (["put", f"{D(o)} = {D(x)}"], "put-assign-other"),
        (["put", f"var a = is_error({D(x)} + {D(y)}); var b = is_error({D(x)} . {D(y)})"], "put-locals"),
        (["put", 'tee > "tee.out", $*'], "put-tee"), (["put", f"print > stderr, {D(x)}"], "put-print"),
        (["put", f'@first[{D(g)}] = is_absent(@first[{D(g)}]) ? {D(x)} : @first[{D(g)}]; {D(n)} = @first[{D(g)}]'], "put-oosvar"),
        (["put", f"func f(v) {{ return v . v }} {D(n)} = f({D(x)})"], "put-udf"),
        (["put", "-S", f"{D(n)} = {D(x)} . {D(y)}"], "put-S"), (["put", "-q", f"@r[NR] = $*; end {{ emit @r, \"NR\" }}"], "emit-retained"),
        (["count-similar", "-g", x, "-o", n], "count-similar"), (["count-similar", "-g", f"{x},{y}", "-o", n], "count-similar-2"),
        (["cat", "-N", n, "-g", x], "cat-n-g"), (["cat", "-g", x], "cat-g"),
        (["head", "-n", "2", "-g", x], "head-g"), (["tail", "-n", "2", "-g", x], "tail-g"),
        (["top", "-n", "3", "-f", x, "-a"], "top-a"), (["top", "-n", "2", "-f", x, "-g", g, "-a", "--min"], "top-a-min"),
        (["step", "-a", "delta,shift,shift_lag,shift_lead,ratio,counter,rsum,rprod,from-first", "-f", x], "step"),
        (["step", "-a", "ewma", "-d", "0.1,0.9", "-f", x], "step-ewma"), (["step", "-a", "slwin_1_1", "-f", x, "-g", g], "step-slwin"),
        (["merge-fields", "-k", "-a", "sum,count,min,max,mean,antimode,first,last", "-f", f"{x},{y}", "-o", n], "merge-fields-k"),
        (["fraction", "-f", x], "fraction"), (["fraction", "-f", x, "-p", "-c"], "fraction-pc"),
        (["rank", "-f", x], "rank"), (["rank", "-f", x, "-g", g], "rank-g"),
        (["group-by", x], "group-by"), (["group-like"], "group-like"), (["tac"], "tac"), (["regularize"], "regularize"),
        (["unsparsify"], "unsparsify"), (["unsparsify", "--fill-with", "X"], "unsparsify-fill"),
        # without -a fill-down also fills empty values, i.e. assigns; with -a it only reads (the records all have the key)
        (["fill-down", "-a", "-f", x], "fill-down-a-x"), (["fill-down", "-f", o], "fill-down-o"), (["fill-down", "-a", "-f", o], "fill-down-a-o"),
        (["fill-down", "-a", "--all"], "fill-down-a-all"),
        (["sec2gmt", t], "sec2gmt"), (["sec2gmt", "-3", t], "sec2gmt-3"), (["sec2gmtdate", t], "sec2gmtdate"),
        (["rename", f"{o},O{i}"], "rename"), (["rename", "-r", f"^{o}$,OO{i}"], "rename-r"),
        (["reorder", "-f", o], "reorder"), (["reorder", "-e", "-f", o], "reorder-e"),
        (["nest", "--ivar", ";", "-f", o], "nest-implode"),
        (["nest", "--explode", "--values", "--across-records", "-f", o, "--nested-fs", ";"], "nest-explode-records"),
        (["nest", "--explode", "--values", "--across-fields", "-f", o, "--nested-fs", ";"], "nest-explode-fields"),
        (["having-fields", "--at-least", x], "having-fields"), (["having-fields", "--any-matching", "^" + re.escape(x) + "$"], "having-fields-any"),
        (["having-fields", "--none-matching", "^nosuchfield"], "having-fields-none"),
        # readers of every value / carriers that the first catalogue lacked (audit C03-6)
        (["fill-empty"], "fill-empty"), (["fill-empty", "-v", "X", "-S"], "fill-empty-v"), (["uniq", "-a"], "uniq-a"), (["uniq", "-a", "-c"], "uniq-a-c"),
        (["sparsify"], "sparsify"), (["remove-empty-columns"], "remove-empty-columns"),
        (["reshape", "-i", o, "-o", f"rk{i},rv{i}"], "reshape-w2l"), (["sort-within-records"], "sort-within-records"),
        (["sort-within-records", "-r"], "sort-within-records-r"), (["template", "--fill-with", "T", "-f", ",".join(N["all"])], "template-all"),
        (["gap", "-n", "2"], "gap"), (["split", "-n", "3", "-v"], "split-v"), (["join", "--ur", "-j", idf, "-f", "left.in"], "join"),
        (["join", "--ur", "--ul", "--lp", "L_", "-j", idf, "-f", "left.in"], "join-ul"),
        (["cut", "-x", "-f", o], "cut-x"), (["cut", "-x", "-r", "-f", "^zzz"], "cut-x-r"),
        (["grep", "-v", "NOSUCHSTRINGXYZ"], "grep-v"), (["grep", "-i", "-v", "nosuchstringxyz"], "grep-i"),
        (["decimate", "-n", "2"], "decimate"), (["repeat", "-n", "2"], "repeat"), (["tee", "tee2.out"], "tee"),
        (["case", "-u", "-f", o], "case"), (["sub", "-f", o, "p", "b"], "sub"), (["gsub", "-f", o, "[pqr]", "X"], "gsub"),
        (["ssub", "-f", o, ";", "!"], "ssub"), (["json-stringify", "-f", o], "json-stringify"),
        (["shuffle"], "shuffle"), (["bootstrap"], "bootstrap"), (["sample", "-k", "2", "-g", x], "sample"),
        (["head", "-n", "4"], "head"), (["tail", "-n", "4"], "tail"), (["cat"], "cat"), (["cat", "-n"], "cat-n"),
        (["sec2gmt", "-1", t], "sec2gmt-1"), (["label", idf], "label-same"),
        (["skip-trivial-records"], "skip-trivial-records"), (["count-similar", "-g", g], "count-similar-g"),
    ]
    return [(a, tag) for a, tag in C if tag]


def value_class(v):
    try:
        v.encode("utf-8")
    except UnicodeEncodeError:
        return "invalid-utf8"
    if numeric_value(v) is not None:
        return "number"
    if v != v.strip(" ") or v == "":
        return "space-or-empty"
    return "string"


B_NAMES = ["ba", "bb", "bc", "bd", "be", "bf"]
W_NAMES = [f"w{i}" for i in range(1, 13)]
AFLAGS = FLAGS + ["--ofmt"]
# verbs/statements that the documentation lets fail on data they cannot use (non-numeric input to a statistic, a float as
# a map key); any other non-zero exit of a chain of readers is reported
# (put-if: "conditional expression did not evaluate to boolean" when the comparison of two hostile values is an error/absent;
# join --ul + asserting_present: unpaired left records lack the field by construction)
MAY_REJECT = {"fraction", "fraction-pc", "merge-fields-k", "put-mapkey", "put-if"}
ONCE_ONLY = ("put-unset-other", "cut-x", "rename", "rename-r", "nest-explode-fields", "emit-mapexcept", "reshape-w2l", "nest-implode",
             "nest-explode-records")
HETEROGENEOUS = ("nest-explode-fields", "sparsify", "join", "join-ul")
_INFNANISH = re.compile(r"[+-]?(inf|infinity|nan)$", re.I)


def ofmt_verbatim(v):
    """Under --ofmt (documented: applied to floats): True if the value is certainly not a float, so it must stay verbatim;
    None if this monitor declines (floats, and spellings whose type is C06's subject)."""
    if not re.search(r"[0-9]", v) and not _INFNANISH.match(v.strip()):
        return True
    if _INT_RE.match(v):
        u = v.lstrip("+-")
        val = numeric_value(v)
        if val is None:
            return None
        if u[:2].lower() in ("0x", "0b", "0o"):
            return True if abs(val) < 2 ** 64 else None
        if len(u) > 1 and u[0] == "0" and re.search(r"[89]", u):
            return None
        return True if -2 ** 63 <= val < 2 ** 63 else None
    return None


def chain_case(case):
    rng = random.Random(case["seed"])
    tier = case["tier"]
    ifmt = case.get("ifmt") or rng.choice(["dkvp", "dkvp", "csv", "tsv", "xtab", "nidx", "json"])
    ofmt = case.get("ofmt") or rng.choice(["dkvp", "dkvp", "csv", "tsv", "xtab", "nidx", "pprint"])
    flag = case.get("flag") if case.get("flag") is not None else rng.choice(AFLAGS)
    pool = [s for s in case["spellings"] if spelling_ok(s, ifmt, "in") and spelling_ok(s, ofmt, "out")]
    res = case_result(_h("a", case["seed"], ifmt, ofmt, flag), nontrivial=False)
    nb = rng.randint(3, 6)
    nrec = case.get("nrec") or rng.choice([1, 2, 3, 5, 8, 13])
    wide = rng.random() < 0.3          # 8 + nb - 3 fields otherwise (8..11): the wide profile crosses the 12-field key index
    nwide = rng.choice([1, 2, 3, 12]) if wide else 0
    bnames = B_NAMES[:nb] + W_NAMES[:nwide]
    layout = ["id", bnames[0], "g", bnames[1], "k", bnames[2], "t", "o"] + bnames[3:]
    batch = rng.choice([None, None, None, "1", "2"]) if nrec < 100 else rng.choice([None, "500", "7"])
    recs = []
    for r in range(nrec):
        rec = []
        for f in layout:
            if f == "id":
                v = f"r{r+1}"
            elif f == "g":
                v = rng.choice(["ga", "gb"])
            elif f == "k":
                v = str(rng.randint(-9, 99))
            elif f == "t":
                v = str(rng.randint(0, 2000000000))
            elif f == "o":
                v = rng.choice(["p;q", "r", "s;t;u", "q"])
            elif "" in pool and rng.random() < 0.12:
                v = ""          # empty is where fill-down / unsparsify / null-handling verbs are tempted to assign
            else:
                v = rng.choice(pool)
            rec.append((f, v))
        recs.append(rec)
    # under NIDX input the keys are the positions
    if ifmt == "nidx":
        names = {f: str(i + 1) for i, f in enumerate(layout)}
    else:
        names = {f: f for f in layout}
    xs = rng.sample(bnames[:nb], 2)
    N = {"x": names[xs[0]], "y": names[xs[1]], "g": names["g"], "k": names["k"], "t": names["t"], "o": names["o"],
         "id": names["id"], "all": [names[f] for f in layout]}
    nverbs = rng.choice([1, 1, 2, 3, 4]) if tier == "thorough" else rng.choice([1, 2, 3])
    chain = []
    tags = []
    rect_out = ofmt in ("csv", "tsv", "pprint", "nidx")
    for i in range(nverbs):
        a, tag = rng.choice(catalogue(rng, N, i))
        if tag in ONCE_ONLY and any(tg in tags for tg in ONCE_ONLY):
            a, tag = (["cat"], "cat")      # the 'other' field can be removed/renamed only once
        if tag in HETEROGENEOUS and rect_out:
            a, tag = (["cat"], "cat")      # makes records heterogeneous; rectangular outputs are C01/C02's subject
        if tag == "gap" and ofmt not in ("dkvp", "nidx"):
            a, tag = (["cat"], "cat")
        if tag in ("join", "join-ul") and (ifmt == "nidx" or any(tg.startswith("join") for tg in tags)):
            a, tag = (["cat"], "cat")      # NIDX: left and right fields share the positional names
        if tag in ("template-all",) and any(tg in tags for tg in ("sort-within-records", "sort-within-records-r")):
            a, tag = (["cat"], "cat")
        chain += (["then"] if chain else []) + a
        tags.append(tag)
    files = {}
    if any(tg.startswith("join") for tg in tags):
        # left file: every second id pairs; one left record has no partner.  Its non-key field has a name of its own.
        left = [[(N["id"], f"r{r+1}"), ("lj", f"L{r+1}")] for r in range(0, nrec + 2, 2)]
        files["left.in"] = _write_any(ifmt, left)
    stdin = _write_any(ifmt, [[(k, v) for k, v in r] for r in recs])
    fl = [] if not flag else (["--ofmt", "%.6lf"] if flag == "--ofmt" else [flag])
    argv = ["--seed", "7"] + fl + (["--records-per-batch", batch] if batch else []) + IFLAG[ifmt] + OFLAG[ofmt] + chain
    writes_files = any(tg in ("put-tee", "tee", "split-v") for tg in tags)
    r = R.mlr(argv, stdin=stdin, env=ENV, files=files or None, keep_cwd=writes_files)
    side = {}
    if writes_files and r.cwd:
        side = {k: v.decode("utf-8", "surrogateescape") for k, v in R.read_files(r.cwd).items()
                if k in ("tee.out", "tee2.out") or k.startswith("split_")}
        shutil.rmtree(r.cwd, ignore_errors=True)
    detail = {"argv": argv, "stdin": stdin, "env": ENV}
    if files:
        detail["files"] = files
    bump(res, "runs")
    bump(res, "fmt:" + ifmt + ">" + ofmt)
    bump(res, "flag:" + (flag or "default"))
    if batch:
        bump(res, "runs_with_records_per_batch")
    if len(layout) >= 12:
        bump(res, "runs_with_12_or_more_fields")
    sig_base = {"monitor": "chain", "verbs": "+".join(sorted(set(tags))), "flag": flag or "default", "ifmt": ifmt, "ofmt": ofmt}
    if r.verdict in ("slow",):
        res["inconc"] += 1
        return res
    if r.verdict != "exited" or r.crashed():
        kind = "crash" if r.crashed() else "hang"
        add_violation(res, dict(sig_base, kind=kind), f"`mlr {' '.join(argv)}` on {nrec} small records: {kind} (verdict {r.verdict}, rc={r.rc}, "
                      f"signal={r.signal}): {r.err.strip()[:200]}", dict(detail, got=r.err[:2000]))
        return res
    if r.rc != 0:
        if ofmt in ("csv", "tsv") and "schema change" in r.err:
            # a statement whose right-hand side is absent for some records skips the assignment there; the rectangular writer
            # refuses the resulting key change (file-formats.md: "schema change") - C01/C02's subject
            res["skipped"] += 1
            bump(res, "rejected:schema-change")
            return res
        if set(tags) & MAY_REJECT or ("join-ul" in tags and "filter-asserting" in tags):
            # the chain rejected the data (non-numeric value for a statistics verb, ...): outside the domain
            res["skipped"] += 1
            bump(res, "rejected:" + "+".join(sorted(set(tags) & MAY_REJECT))[:60])
            return res
        add_violation(res, dict(sig_base, kind="chain-fails"), f"`mlr {' '.join(argv)}`: a chain of readers exits {r.rc}: {r.err.strip()[:200]}",
                      dict(detail, got=r.err[:2000]))
        return res
    out = parse_output(ofmt, r.out)
    if out is None:
        add_violation(res, dict(sig_base, kind="unparseable-output"), f"output of {' '.join(chain)} is not well-formed {ofmt}",
                      dict(detail, got=r.out[:3000]))
        return res
    byid = {rec[0][1]: rec for rec in recs}
    st = {"checked": 0, "nontriv": False}
    may_drop_empty = any(tg in ("sparsify", "remove-empty-columns") for tg in tags)
    fills = [tg for tg in tags if tg in ("fill-empty", "fill-empty-v")]
    reordering = any(tg.startswith("sort-within-records") for tg in tags)
    if "sparsify" in tags and any(tg in tags for tg in ("unsparsify", "unsparsify-fill", "regularize")):
        reordering = True      # unsparsify / regularize impose the first-seen key order on records that sparsify made different
    positional = (ifmt == "nidx")

    def judge(out, where):
        for orec in out:
            od = {}
            for kk, vv in orec:
                od.setdefault(kk, vv)
            if ofmt == "nidx":
                idv = next((v for _, v in orec if v in byid), None)
            else:
                idv = od.get(N["id"])
            if idv is None or idv not in byid:
                # a record without a recognisable id (end-block emits, unpaired left records) carries nothing to compare
                bump(res, "output_records_without_id")
                continue
            irec = byid[idv]
            ibys = []
            for f, v in irec:
                if f not in bnames:
                    continue
                exp = v
                if v == "" and fills:
                    exp = "N/A" if fills[0] == "fill-empty" else "X"     # fill-empty assigns exactly the empty values
                ibys.append((names[f], exp, v))
            if ofmt == "nidx":
                vals = [v for _, v in orec]
                pos = 0
                ok = True
                for kk, v, v0 in ibys:
                    if v0 == "" and may_drop_empty:
                        continue
                    try:
                        pos = vals.index(v, pos) + 1
                    except ValueError:
                        ok = False
                        break
                st["checked"] += len(ibys)
                if not ok and not reordering and flag != "--ofmt":
                    add_violation(res, dict(sig_base, kind="text", where=where), f"bystander value {v!r} of record {idv} is missing/changed/out of order "
                                  f"in NIDX output after {' '.join(chain)}", dict(detail, expected=[v for _, v, _ in ibys], got=vals))
                continue
            okeys = [kk for kk, _ in orec]
            unjudged = set()
            for kk, v, v0 in ibys:
                if v0 == "" and may_drop_empty:
                    # dropped by sparsify / remove-empty-columns, possibly re-created (at the end, filled) by unsparsify
                    unjudged.add(kk)
                    continue
                if v0 == "" and fills and where == "file" and od.get(kk) == "":
                    continue        # the file was written before fill-empty ran
                st["checked"] += 1
                if noncanonical_number(v):
                    st["nontriv"] = True
                if kk not in od:
                    add_violation(res, dict(sig_base, kind="lost", where=where), f"bystander field {kk} of record {idv} is missing after {' '.join(chain)}",
                                  dict(detail, expected=v, got=orec))
                elif od[kk] != v:
                    if flag == "--ofmt" and not ofmt_verbatim(v):
                        bump(res, "ofmt_values_not_judged")
                        continue
                    cls = value_class(v)
                    add_violation(res, dict(sig_base, kind="text", cls=cls, where=where),
                                  f"bystander {kk}={v!r} of record {idv} came out as {od[kk]!r} after {' '.join(chain)}"
                                  f" ({ifmt}->{ofmt} {flag or 'default'}, {where})", dict(detail, expected=v, got=od[kk]))
            if reordering:
                continue
            # "in its original position": every surviving input field except `o` (the one field the catalogue renames,
            # moves, splits or removes) keeps its place relative to the others
            inorder = [names[f] for f in layout if f != "o" and names[f] not in unjudged]
            want_order = [kk for kk in inorder if kk in od]
            got_order = [kk for kk in okeys if kk in set(inorder)]
            seen = set()
            got_order = [kk for kk in got_order if not (kk in seen or seen.add(kk))]
            if want_order != got_order:
                add_violation(res, dict(sig_base, kind="order", where=where), f"fields of record {idv} changed relative order after {' '.join(chain)}",
                              dict(detail, expected=want_order, got=got_order))

    judge(out, "stdout")
    for fname, text in sorted(side.items()):
        fo = parse_output(ofmt, text)
        if fo is None:
            add_violation(res, dict(sig_base, kind="unparseable-output", where="file"), f"file {fname} written by {' '.join(chain)} is not "
                          f"well-formed {ofmt}", dict(detail, got=text[:3000]))
            continue
        bump(res, "side_files_compared")
        judge(fo, "file")
    checked, nontriv = st["checked"], st["nontriv"]
    bump(res, "bystander_values_checked", checked)
    bump(res, "verbs_used", 0)
    res["stats"]["tags"] = list(set(tags))
    res["nontrivial"] = nontriv and checked > 0
    if checked == 0:
        bump(res, "runs_with_no_carried_record")
    if case.get("sample"):
        res["sample"] = {"monitor": "a", "argv": argv, "stdin": stdin[:400], "bystander_values_checked": checked}
    return res


def _json_ok(s):
    return value_class(s) != "invalid-utf8" and not re.search(r"[\x00-\x1f\x7f]", s)


def _write_any(fmt, recs):
    if fmt == "json":
        return "".join("{" + ", ".join(json.dumps(k) + ": " + (v if JSON_NUM.match(v) else json.dumps(v, ensure_ascii=False))
                                       for k, v in r) + "}\n" for r in recs)
    return write_input(fmt, recs)


# ------------------------------------------------------------------------------------------
# (f) mechanism sweep: reading through every builtin must not change the retained text

EXCLUDE_FUNCS = {"system", "exec", "os", "hostname", "version", "systime", "systimeint", "sysntime", "uptime", "upntime",
                 "urand", "urand32", "urandint", "urandrange", "urandelement"}
HOF_FORMS = {
    "apply": ["apply([$x, $y], func(e) {return e . \"\"})", "apply({\"a\": $x}, func(k,v) {return {k: v}})"],
    "select": ["select([$x, $y], func(e) {return e == $x})", "select($*, func(k,v) {return v == $x})"],
    "reduce": ["reduce([$x, $y], func(acc,e) {return acc . e})"],
    "fold": ["fold([$x, $y], func(acc,e) {return acc . e}, \"\")", "fold([1], func(acc,e) {return acc}, $x)"],
    "sort": ["sort([$x, $y])", "sort([$x, $y], \"nr\")", "sort([$x, $y], func(a,b) {return a <=> b})", "sort($*)"],
    "any": ["any([$x, $y], func(e) {return e == 1})"],
    "every": ["every([$x, $y], func(e) {return e == 1})"],
    "sort_by_key": ["sort_by_key($*)"],
    "sort_by_value": ["sort_by_value($*)"],
}
SAFE_FORMS = {
    # functions whose other arguments can make them burn CPU/memory (C18's subject): fixed benign companions
    # leftpad/rightpad with an empty pad string never terminate (seen while building this sweep; C18's subject)
    "leftpad": ["leftpad($x, 5, \"*\")"], "rightpad": ["rightpad($x, 5, \"*\")"],
    # a format taken from data makes strptime panic (known C18 finding): literal formats only
    "strptime": ["strptime($x, \"%Y-%m-%dT%H:%M:%SZ\")", "strptime($x, \"%s\")"],
    "strpntime": ["strpntime($x, \"%Y-%m-%dT%H:%M:%SZ\")"],
    "strptime_local": ["strptime_local($x, \"%Y-%m-%d %H:%M:%S\", \"Asia/Istanbul\")"],
    "strpntime_local": ["strpntime_local($x, \"%Y-%m-%d %H:%M:%S\", \"Asia/Istanbul\")"],
    "format_values": [], "strrepeat": [], "unformat": ["unformat(\"{}:{}\", $x)", "unformat($x, $y)"],
    "unformatx": ["unformatx(\"{}:{}\", $x)"],
    "percentile": ["percentile([$x, $y], 50)", "percentile([1,2,3], $x)"],
    "percentiles": ["percentiles([$x, $y], [25, 75])", "percentiles([1,2,3], [$x])"],
    "sec2gmt": ["sec2gmt($x)", "sec2gmt($x, 3)", "sec2gmt(1, $x)"], "sec2gmtdate": ["sec2gmtdate($x)"],
    "substr": ["substr($x, 0, 1)", "substr(\"hello\", $x, $y)"], "substr0": ["substr0($x, 0, 1)", "substr0(\"hello\", $x, $y)"],
    "substr1": ["substr1($x, 1, 2)", "substr1(\"hello\", $x, $y)"],
    "format": ["format(\"{}:{}\", $x, $y)", "format($x, $y)"], "strfntime": ["strfntime($x, \"%Y\")", "strfntime(1, $x)"],
    "strftime": ["strftime($x, \"%Y-%m-%dT%H:%M:%3SZ\")", "strftime(1, $x)"],
    "strftime_local": ["strftime_local($x, \"%Y\", \"Asia/Istanbul\")", "strftime_local(1, $x, \"Asia/Istanbul\")"],
    "strfntime_local": ["strfntime_local($x, \"%Y\", \"Asia/Istanbul\")"],
    "truncate": ["truncate($x, 2)", "truncate(\"hello\", $x)"],
    "fmtnum": ["fmtnum($x, \"%d\")", "fmtnum($x, \"%.3lf\")", "fmtnum($x, \"%08x\")", "fmtnum(17, $x)"],
    "fmtifnum": ["fmtifnum($x, \"%.3f\")", "fmtifnum(17, $x)"],
    "splitax": ["splitax($x, \".\")", "splitax(\"a.b\", $x)"], "splitnv": ["splitnv($x, \".\")"], "splitnvx": ["splitnvx($x, \".\")"],
    "splitkv": ["splitkv($x, \"=\", \".\")"], "splitkvx": ["splitkvx($x, \"=\", \".\")"], "splita": ["splita($x, \".\")"],
    "gsub": ["gsub($x, \"0\", \"Z\")", "gsub(\"a0\", \"0\", $x)"], "sub": ["sub($x, \"0\", \"Z\")", "sub(\"a0\", \"0\", $x)"],
    "ssub": ["ssub($x, \"0\", \"Z\")", "ssub(\"a0\", $x, $y)"], "gssub": ["gssub($x, \"0\", \"Z\")", "gssub(\"a0\", $x, $y)"],
    "regextract": ["regextract($x, \"[0-9]+\")"], "regextract_or_else": ["regextract_or_else($x, \"[0-9]+\", $y)"],
    "matchx": [], "strmatch": ["strmatch($x, \"[0-9]\")"], "strmatchx": ["strmatchx($x, \"([0-9])\")"],
    "any": HOF_FORMS["any"], "every": HOF_FORMS["every"],
    "index": ["index($x, \"0\")", "index(\"a0\", $x)"], "contains": ["contains($x, \"0\")", "contains(\"a0\", $x)"],
    "latin1_to_utf8": ["latin1_to_utf8($x)"], "utf8_to_latin1": ["utf8_to_latin1($x)"],
    "exec": [], "system": [],
}


# gmt2sec("-007"), gmt2sec("-") ... panic in pbnjay-strptime (slice bounds, strptime.go:273; seen while building this
# sweep, C18's subject): the time-parsing functions are not fed spellings that start with '-'
TIME_PARSERS = {"gmt2sec", "gmt2nsec", "localtime2sec", "localtime2nsec", "localtime2gmt", "gmt2localtime",
                "strptime", "strpntime", "strptime_local", "strpntime_local"}


def function_table():
    """{name: set of arities or 'variadic'} from the binary's own help."""
    r = R.mlr(["help", "usage-functions-by-class"], env=ENV)
    out = {}
    for line in r.out.split("\n"):
        m = re.match(r"^(\S+)\s+\(class=(\S+) #args=([^)]+)\)", line)
        if m and (re.match(r"^[a-z_][a-z_0-9]*$", m.group(1)) or m.group(1) in OPERATOR_FORMS):
            out[m.group(1)] = (m.group(2), m.group(3))
    if out:
        # indexing / slicing / positional names are syntax, not table entries
        out.setdefault("[]", ("indexing", "2"))
        out.setdefault("[[]]", ("indexing", "1"))
    return out


def forms_for(name, args):
    if name in EXCLUDE_FUNCS:
        return []
    if name in OPERATOR_FORMS:
        out = []
        for f in OPERATOR_FORMS[name]:
            g = _subst(f, X="$x", Y="$y")
            if g not in out:
                out.append(g)
        return out
    if name in HOF_FORMS:
        return HOF_FORMS[name]
    if name in SAFE_FORMS:
        return SAFE_FORMS[name]
    if name.startswith("asserting_"):
        p = "is_" + name[len("asserting_"):]
        return [f"IF:{p}($x):{name}($x)"]
    forms = []
    ar = set()
    for a in args.split(","):
        a = a.strip()
        if a == "variadic":
            ar |= {1, 2, 3}
        elif a.isdigit():
            ar.add(int(a))
    if 1 in ar:
        forms.append(f"{name}($x)")
    if 2 in ar:
        forms += [f"{name}($x, $y)", f"{name}($x, 1)", f"{name}(1, $x)"]
    if 3 in ar:
        forms += [f"{name}($x, $y, $x)", f"{name}($x, 1, 2)", f"{name}(\"a\", $x, 1)"]
    if 4 in ar:
        forms += [f"{name}($x, $y, $x, $y)", f"{name}($x, 1, 2, 3)"]
    if 5 in ar:
        forms += [f"{name}($x, $y, $x, $y, $x)"]
    return forms


def _sweep_program(form):
    if form.startswith("IF:"):
        _, cond, call = form.split(":", 2)
        return f"if ({cond}) {{ var y = is_error({call}) }}"
    return f"var y = is_error({form})"


def _sweep_run(res, flag, prog, lines):
    stdin = "".join(lines)
    argv = ([flag] if flag else []) + ["put", prog]
    r = R.mlr(argv, stdin=stdin, env=ENV, cpu_s=8, watchdog=40.0)
    bump(res, "processes")
    return r, argv, stdin


def sweep_case(case):
    name, form, flag, sp = case["f"], case["form"], case["flag"], case["spellings"]
    res = case_result(_h("f", form, flag, case["tier"]), nontrivial=False, evals=0)
    prog = _sweep_program(form)
    lines = []
    if name in TIME_PARSERS:
        n0 = len(sp)
        sp = [s for s in sp if not s.startswith("-")]
        res["skipped"] += n0 - len(sp)
    for i, s in enumerate(sp):
        y = sp[(i * 7 + 3) % len(sp)]
        lines.append(f"id={i},x={s},y={y},z=end\n")
    nt = []
    todo = [list(range(len(lines)))]
    tried_single = 0
    failed_single = 0
    hangs = crashes = 0
    while todo:
        idxs = todo.pop()
        r, argv, stdin = _sweep_run(res, flag, prog, [lines[i] for i in idxs])
        if r.verdict == "slow":
            res["inconc"] += 1
            continue
        if r.verdict in ("cpu", "output-cap", "deadlock"):
            # a function that does not come back from one small value: bisect to the row, then report it
            if len(idxs) > 1 and hangs < 2:
                mid = len(idxs) // 2
                todo.append(idxs[:mid])
                todo.append(idxs[mid:])
                continue
            hangs += 1
            if len(idxs) == 1:
                add_violation(res, {"monitor": "sweep", "f": name, "kind": "hang", "verdict": r.verdict, "flag": flag or "default"},
                              f"`{prog}` on the one record {stdin.strip()!r} does not finish ({r.verdict})",
                              {"argv": argv, "stdin": stdin, "env": ENV, "got": r.err[-1500:]})
            else:
                res["skipped"] += len(idxs)
                bump(res, "rows_skipped_resource", len(idxs))
            continue
        if r.rc != 0 or r.crashed():
            if len(idxs) == 1:
                tried_single += 1
                failed_single += 1
                if r.crashed():
                    bump(res, "rows_crashed")
                    first = next((ln for ln in r.err.splitlines() if "panic" in ln or "fatal error" in ln), r.err.strip()[:160])
                    if crashes < 2:
                        add_violation(res, {"monitor": "sweep", "f": name, "kind": "crash", "flag": flag or "default"},
                                      f"`{prog}` on the one record {stdin.strip()!r} crashes: {first[:160]}",
                                      {"argv": argv, "stdin": stdin, "env": ENV, "got": r.err[:2000]})
                    crashes += 1
                else:
                    res["skipped"] += 1
                    bump(res, "rows_rejected")
                continue
            if len(idxs) == len(lines):
                # does the form reject everything (wrong arity/type for any input)? probe three rows
                probe = [idxs[0], idxs[len(idxs) // 2], idxs[-1]]
                bad = 0
                for i in probe:
                    rr, _, _ = _sweep_run(res, flag, prog, [lines[i]])
                    bad += (rr.rc != 0 or rr.verdict != "exited")
                if bad == 3:
                    res["skipped"] += len(idxs)
                    bump(res, "forms_rejecting_every_row")
                    res["rejected_form"] = form
                    continue
            mid = len(idxs) // 2
            todo.append(idxs[:mid])
            todo.append(idxs[mid:])
            continue
        res["evals"] += len(idxs)
        out = r.out
        if out != stdin and "mlr: " in out:
            # some functions print a diagnostic on STDOUT (fmtnum/fmtifnum with a format lacking '%': fmt.Printf in
            # GetFormatter); it lands in the middle of buffered record text. Reported once per case under its own
            # signature; then removed so that the records themselves are still compared.
            stripped, ndiag = re.subn(r"mlr: [^\n]*\n", "", out)
            if ndiag:
                bump(res, "diagnostic_lines_on_stdout", ndiag)
                if not res.get("diag_reported"):
                    res["diag_reported"] = True
                    m = re.search(r"[^\n]*mlr: [^\n]*\n[^\n]*", out)
                    add_violation(res, {"monitor": "sweep", "f": name, "kind": "diagnostic-on-stdout"},
                                  f"`{prog}` writes a diagnostic to stdout, interleaved with the records: {m.group(0)[:160]!r}",
                                  {"argv": argv, "stdin": stdin[:3000], "env": ENV, "got": m.group(0)})
                out = stripped
        if out == stdin:
            for i in idxs:
                if noncanonical_number(sp[i]):
                    nt.append(_h("f", form, flag, sp[i]))
            bump(res, "rows_identical", len(idxs))
            continue
        olines = out.split("\n")
        ilines = stdin.split("\n")
        reported = 0
        for n, il in enumerate(ilines):
            ol = olines[n] if n < len(olines) else None
            if ol != il and reported < 3:
                reported += 1
                i = idxs[n] if n < len(idxs) else None
                s = sp[i] if i is not None else ""
                add_violation(res, {"monitor": "sweep", "f": name, "kind": "text", "cls": value_class(s), "flag": flag or "default"},
                              f"reading with `{prog}` ({flag or 'default'}) changed the record: in {il!r} out {ol!r}",
                              {"argv": argv, "stdin": il + "\n", "env": ENV, "expected": il, "got": ol})
        if reported == 0:
            add_violation(res, {"monitor": "sweep", "f": name, "kind": "extra-output", "flag": flag or "default"},
                          f"`{prog}` produced extra output", {"argv": argv, "stdin": stdin[:2000], "env": ENV, "got": out[-500:]})
    res["nontrivial_keys"] = nt
    res["nontrivial"] = bool(nt)
    res["stats"]["functions_swept"] = [name] if res["evals"] else []
    if case.get("sample"):
        res["sample"] = {"monitor": "f", "program": prog, "flag": flag, "rows": len(lines), "first_rows": lines[:3]}
    return res


# ------------------------------------------------------------------------------------------
# operators (the function table's names that are not identifiers) - shared by the sweeps f and c.  X, Y, Z are
# replaced by field references.  `./` and `//` etc. by a zero taken from data are C07/C18's subject: a crash is
# still reported by the sweeps, under its own signature.

OPERATOR_FORMS = {
    "+": ["X + Y", "X + 1", "+X"], "-": ["X - Y", "1 - X", "-X"], "*": ["X * Y", "X * 2"], "/": ["X / Y", "X / 2"],
    "//": ["X // Y", "X // 2"], "**": ["X ** 2", "2 ** X", "X ** Y"], "%": ["X % Y", "X % 7"],
    ".+": ["X .+ Y", "X .+ 1"], ".-": ["X .- Y", "1 .- X"], ".*": ["X .* Y", "X .* 2"], "./": ["X ./ 2", "X ./ Y"],
    "<<": ["X << 1", "1 << X"], ">>": ["X >> 1", "X >> Y"], ">>>": ["X >>> 1", "X >>> Y"],
    "&": ["X & Y", "X & 1"], "|": ["X | Y", "X | 1"], "^": ["X ^ Y", "X ^ 1"], "~": ["~X"], "!": ["!X"],
    "&&": ["X && Y", "true && X"], "||": ["X || Y", "false || X"], "^^": ["X ^^ Y", "true ^^ X"],
    "??": ["X ?? Y", "X ?? \"d\"", "@nosuch ?? X"], "???": ["X ??? Y", "X ??? \"d\"", "asserting_null(\"\") ??? X"],
    "<": ["X < Y", "X < 3"], "<=": ["X <= Y", "3 <= X"], ">": ["X > Y", "X > \"a\""], ">=": ["X >= Y", "X >= 3"],
    "==": ["X == Y", "X == X", "X == 1"], "!=": ["X != Y", "X != \"\""], "<=>": ["X <=> Y", "X <=> 1", "\"a\" <=> X"],
    "=~": ["X =~ \"^(.)(.*)$\"", "X =~ Y", "X =~ \"^(.)\" && is_present(\"\\1\")"], "!=~": ["X !=~ \"^[0-9]+$\"", "X !=~ Y"],
    ".": ["X . Y", "X . \"s\"", "\"\" . X"], "?:": ["true ? X : Y", "is_string(X) ? X : Y", "X == Y ? 1 : 2"],
    "[]": ["X[1]", "X[-1]", "X[1:2]", "X[2:2]", "X[\"a\"]", "X[Y]"],
    "[[]]": ["$[[2]]", "$[[[2]]]", "$*[\"x\"]", "mapexcept($*, \"id\")", "$*"],
}


def _subst(form, **kw):
    return re.sub(r"\b([XYZ])\b", lambda m: kw.get(m.group(1), m.group(1)), form)


# ------------------------------------------------------------------------------------------
# (c) functions only read their arguments: JSON carrier, array- and map-valued fields

from ..model import c03_coll as CO   # noqa: E402

C_ARGS1 = [("$a",), ("$m",), ("$s",), ("$t",)]
C_ARGS2 = [("$a", "$a"), ("$a", "$m"), ("$m", "$a"), ("$m", "$m"), ("$a", "$s"), ("$s", "$a"), ("$m", "$t"), ("$t", "$m"),
           ("$a", "1"), ("$m", '"a"'), ("$a", '"."'), ("$m", '"."'), ("$a", "50"), ("$a", "[25, 75]"), ("$m", '["p25", "p75"]')]
C_ARGS3 = [("$a", "$s", "$t"), ("$m", "$t", "$s"), ("$a", "1", "2"), ("$m", '"a"', '"y"'), ("$t", "$a", "$m"), ("$a", "$m", "$a"),
           ('"p"', '":"', "$m"), ('"p"', '":"', "$a"), ("$m", '"="', '";"'), ("$a", '"="', '";"'),
           ("$a", "[25, 75]", '{"interpolate_linearly": true, "output_array_not_map": true}'),
           ("$m", "50", '{"array_is_final_sorted": true}')]
C_SPECIAL = {
    "apply": ["apply($a, func(e) {return e})", "apply($m, func(k,v) {return {k: v}})"],
    "select": ["select($a, func(e) {return is_numeric(e)})", "select($m, func(k,v) {return is_numeric(v)})"],
    "reduce": ["reduce($a, func(acc,e) {return e})", "reduce($m, func(acck,accv,ek,ev) {return {ek: ev}})"],
    "fold": ["fold($a, func(acc,e) {return acc . \"\"}, \"\")", "fold($m, func(acck,accv,ek,ev) {return {ek: ev}}, {\"i\": 0})", "fold([1], func(acc,e) {return acc}, $a)"],
    "sort": ["sort($a)", "sort($a, \"nr\")", "sort($a, \"f\")", "sort($a, \"c\")", "sort($a, \"t\")", "sort($m)", "sort($m, \"nr\")",
             "sort($a, func(a,b) {return b <=> a})", "sort($m, func(ak,av,bk,bv) {return bv <=> av})", "sort($*)"],
    "any": ["any($a, func(e) {return e == 1})", "any($m, func(k,v) {return v == 1})"],
    "every": ["every($a, func(e) {return is_present(e)})", "every($m, func(k,v) {return is_present(v)})"],
    "sort_by_key": ["sort_by_key($m)", "sort_by_key($a)", "sort_by_key($*)"],
    "sort_by_value": ["sort_by_value($m)", "sort_by_value($a)", "sort_by_value($*)"],
    "strrepeat": ["strrepeat($a, 2)", "strrepeat($m, 2)", "strrepeat(\"a\", $a)"],
    "percentile": ["percentile($a, 50)", "percentile($m, 50)", "percentile($a, $s)", "percentile($a, \"p25\")", "percentile($a, $m)",
                   "percentile($a, 25, {\"interpolate_linearly\": true})", "percentile($m, 75, {\"array_is_final_sorted\": true})"],
    "percentiles": ["percentiles($a, [25, 75])", "percentiles($m, [25, 75])", "percentiles($a, [\"p25\", \"median\"])", "percentiles($a, $a)",
                    "percentiles($a, $m)", "percentiles($a, [25, 75], {\"interpolate_linearly\": true, \"output_array_not_map\": true})",
                    "percentiles($m, [50], {\"array_is_final_sorted\": true})"],
    "unformat": ["unformat(\"{}:{}\", $a)", "unformat($a, $m)", "unformat($t, $a)"],
    "matchx": [], "format_values": [], "exec": [], "system": [],
}


def coll_forms(name, args, quick):
    """DSL expressions over the fields a (array), m (map), s (number), t (string) for one function-table entry."""
    if name in EXCLUDE_FUNCS:
        return []
    if name in C_SPECIAL:
        return C_SPECIAL[name]
    if name in OPERATOR_FORMS:
        out = []
        for f in OPERATOR_FORMS[name]:
            for x, y in (("$a", "$m"), ("$m", "$a"), ("$a", "$s"), ("$s", "$t")):
                g = _subst(f, X=x, Y=y)
                if g not in out:
                    out.append(g)
        return out
    if not re.match(r"^[a-z_][a-z_0-9]*$", name):
        return []
    if name in SAFE_FORMS:
        out = []
        for f in SAFE_FORMS[name]:
            for x, y in (("$a", "$m"), ("$m", "$a"), ("$s", "$t")):
                g = f.replace("$x", x).replace("$y", y)
                if g not in out:
                    out.append(g)
        return out
    if name.startswith("asserting_"):
        p = "is_" + name[len("asserting_"):]
        return [f"IF:{p}({v}):{name}({v})" for v in ("$a", "$m", "$s", "$t")]
    ar = set()
    for a in re.split(r"[,-]", args):
        a = a.strip()
        if a == "variadic":
            ar |= {1, 2, 3}
        elif a.isdigit():
            ar.add(int(a))
    forms = []
    if 1 in ar:
        forms += [f"{name}({', '.join(t)})" for t in C_ARGS1]
    if 2 in ar:
        forms += [f"{name}({', '.join(t)})" for t in (C_ARGS2[:9] if quick else C_ARGS2)]
        if quick:
            forms += [f"{name}({', '.join(t)})" for t in C_ARGS2[9:] if name in ("percentile", "percentiles", "median", "flatten", "unflatten",
                                                                                 "joink", "joinv", "haskey", "hasvalue", "mapexcept", "mapselect")]
    if 3 in ar:
        forms += [f"{name}({', '.join(t)})" for t in (C_ARGS3[:6] if quick else C_ARGS3)]
        if quick:
            forms += [f"{name}({', '.join(t)})" for t in C_ARGS3[6:] if name in ("percentile", "percentiles", "median", "flatten", "joinkv")]
    if 4 in ar:
        forms += [f"{name}($a, $m, $s, $t)", f"{name}($m, 1, 2, 3)"]
    if 5 in ar:
        forms += [f"{name}($a, $m, $s, $t, $a)"]
    return forms


def _coll_program(form):
    # the result is stored in a new field (so it is copied out of whatever the function returned), then replaced by its
    # type name so that error / absent / function values cannot make the output unparseable
    if form.startswith("IF:"):
        _, cond, call = form.split(":", 2)
        return f"if ({cond}) {{ $new = {call}; $new = typeof($new) }}"
    return f"$new = {form}; $new = typeof($new)"


def _change_class(want, got):
    """What kind of difference: used in the signature so that known defects can be pinned narrowly."""
    if isinstance(want, list) and isinstance(got, list) and not isinstance(want, CO.Pairs) and not isinstance(got, CO.Pairs):
        if len(want) == len(got) and sorted(map(CO.encode, want)) == sorted(map(CO.encode, got)):
            return "array-reordered"
        return "array-elements-changed"
    if isinstance(want, CO.Pairs) and isinstance(got, list) and not isinstance(got, CO.Pairs):
        return "map-became-array"
    if isinstance(want, CO.Pairs) and isinstance(got, CO.Pairs):
        wk, gk = [k for k, _ in want], [k for k, _ in got]
        if wk != gk:
            if sorted(wk) == sorted(gk):
                return "map-reordered"
            if set(wk) < set(gk):
                return "map-keys-added"
            if set(gk) < set(wk):
                return "map-keys-lost"
            return "map-keys-changed"
    if isinstance(want, (CO.Pairs, list)) != isinstance(got, (CO.Pairs, list)):
        return "kind-changed"
    if isinstance(want, CO.Num) and isinstance(got, CO.Num):
        return "number-text"
    if type(want) is not type(got):
        return "type-changed"
    return "text"


def _input_class(v):
    """Features of a structured input value that known defects depend on (evaluated on the witness field itself)."""
    feats = set()

    def walk(x, top):
        if isinstance(x, CO.Pairs):
            ks = [k for k, _ in x]
            if any("." in k for k in ks):
                feats.add("dotted-key")
            if not top and ks and ks == [str(i + 1) for i in range(len(ks))]:
                feats.add("nested-intkey-map")
            for _, y in x:
                walk(y, False)
        elif isinstance(x, list):
            for y in x:
                walk(y, False)
    walk(v, True)
    return "+".join(sorted(feats)) or "plain"


def _flat_change_class(want, got):
    wk, gk = [k for k, _ in want], [k for k, _ in got]
    if wk == gk:
        return "flat-text"
    if sorted(wk) == sorted(gk):
        return "flat-reordered"
    if set(wk) < set(gk):
        return "flat-keys-added"
    if set(gk) < set(wk):
        return "flat-keys-lost"
    return "flat-keys-changed"


def _locate(want, got):
    """Descend to the innermost differing pair of values -> (path, want_sub, got_sub)."""
    path = ""
    while True:
        if isinstance(want, CO.Pairs) and isinstance(got, CO.Pairs) and [k for k, _ in want] == [k for k, _ in got]:
            for (k, a), (_, b) in zip(want, got):
                if CO.first_difference(a, b) is not None:
                    want, got, path = a, b, (path + "." + k if path else k)
                    break
            else:
                return path, want, got
            continue
        if isinstance(want, list) and isinstance(got, list) and not isinstance(want, CO.Pairs) and not isinstance(got, CO.Pairs) \
                and len(want) == len(got):
            diffs = [i for i, (a, b) in enumerate(zip(want, got)) if CO.first_difference(a, b) is not None]
            if len(diffs) == 1:
                i = diffs[0]
                want, got, path = want[i], got[i], f"{path}[{i+1}]"
                continue
        return path, want, got


def _nums_as_strings(v):
    if isinstance(v, CO.Pairs):
        return CO.Pairs((k, _nums_as_strings(x)) for k, x in v)
    if isinstance(v, list):
        return [_nums_as_strings(x) for x in v]
    if isinstance(v, CO.Num):
        return str(v)
    return v


def _coll_eval(res, forms, flag, mode, recs, lines):
    """Run one process evaluating every form of `forms` (list of (function name, form)) on every record.
    -> (violations as (sig, what, detail), non-trivial keys, status) with status in ok | rejected | inconclusive."""
    prog = "; ".join(_coll_program(f) for _, f in forms)
    name = "+".join(sorted({n for n, _ in forms}))
    oflags = ["--ojson"] if mode == "json" else ["--odkvp", "--flatsep", ":"]
    argv = ([flag] if flag else []) + ["--ijson"] + oflags + ["put", prog]
    viols, nt = [], []
    stdin = "".join(lines)
    r = R.mlr(argv, stdin=stdin, env=ENV, cpu_s=8, watchdog=40.0)
    bump(res, "c_processes")
    detail = {"argv": argv, "stdin": stdin, "env": ENV}
    sig0 = {"monitor": "coll", "f": name, "flag": flag or "default", "mode": mode}
    if r.verdict == "slow":
        return viols, nt, "inconclusive"
    if r.verdict != "exited" or r.crashed():
        kind = "crash" if r.crashed() else "hang"
        first = r.err.strip().splitlines()[0][:160] if r.err.strip() else ""
        viols.append((dict(sig0, kind=kind), f"`{prog}` on {len(lines)} small JSON records: {kind} ({r.verdict}, rc={r.rc}, signal={r.signal}): {first}",
                      dict(detail, got=r.err[:1500])))
        return viols, nt, "ok"
    if r.rc != 0:
        return viols, nt, "rejected"
    out = CO.decode_records(r.out) if mode == "json" else parse_output("dkvp", r.out)
    if flag == "-S" and mode == "json":
        # --infer-none: "leave them as strings" - the JSON writer quotes what the flag made a string; compare the text
        recs = [_nums_as_strings(x) for x in recs]
        if out is not None:
            out = [_nums_as_strings(x) for x in out]
    if out is None or len(out) != len(recs):
        viols.append((dict(sig0, kind="unparseable-output" if out is None else "record-count"),
                      f"`{prog}`: output is not {len(recs)} well-formed records", dict(detail, got=r.out[:3000])))
        return viols, nt, "ok"
    for i, (irec, orec) in enumerate(zip(recs, out)):
        res["evals"] += 1
        if mode == "json":
            got = CO.Pairs((k, v) for k, v in orec if k != "new")
            extra = [k for k, _ in orec if k == "new"]
            d = CO.first_difference(irec, got)
            if d is None and len(extra) <= 1 and (not extra or orec[-1][0] == "new"):
                nt.append(_h("c", prog, flag, mode, CO.encode(irec)))
                continue
            if d is None:
                viols.append((dict(sig0, kind="position"), f"`{prog}`: the new field is not the last one", dict(detail, got=CO.encode(orec))))
                continue
            path, w, g = _locate(irec, got)
            fld = re.split(r"[.\[{]", path)[0] if path else "?"
            ch = _change_class(w, g)
            viols.append((dict(sig0, kind="arg-modified", field=fld, change=ch, input=_input_class(dict(irec).get(fld))),
                          f"`{prog}` changed field {fld}, which it only reads: at {path or '(record keys)'} {ch}: "
                          f"{CO.encode(w)[:120]} came out as {CO.encode(g)[:120]} (record {irec[0][1]}, --ijson --ojson {flag})",
                          dict(detail, stdin=lines[i], expected=CO.encode(irec), got=CO.encode(got))))
        else:
            want = CO.flatten_record(irec, ":")
            got = [(k, v) for k, v in orec if not (k == "new" or k.startswith("new:"))]
            ok = len(want) == len(got) and all(wk == gk and (wv is CO.ANY or wv == gv) for (wk, wv), (gk, gv) in zip(want, got))
            if ok:
                nt.append(_h("c", prog, flag, mode, CO.encode(irec)))
                continue
            j = next((n for n, ((wk, wv), (gk, gv)) in enumerate(zip(want, got)) if wk != gk or (wv is not CO.ANY and wv != gv)),
                     min(len(want), len(got)))
            w = want[j] if j < len(want) else None
            g = got[j] if j < len(got) else None
            fld = (w or g or ("?", ""))[0].split(":")[0]
            ch = _flat_change_class([x for x in want if x[0].split(":")[0] == fld], [x for x in got if x[0].split(":")[0] == fld])
            viols.append((dict(sig0, kind="arg-modified", field=fld, change=ch, input=_input_class(dict(irec).get(fld))),
                          f"`{prog}` changed field {fld}, which it only reads: flattened {w!r} came out as {g!r} (record {irec[0][1]}, "
                          f"--ijson --odkvp {flag})",
                          dict(detail, stdin=lines[i], expected=[list(x) for x in want if x[1] is not CO.ANY], got=got)))
    return viols, nt, "ok"


def coll_case(case):
    rng = random.Random(case["seed"])
    forms, flag, mode = [tuple(f) for f in case["forms"]], case["flag"], case["mode"]
    res = case_result(_h("c", forms, flag, mode, case["tier"]), nontrivial=False, evals=0)
    recs = CO.records(rng, flat_safe=(mode == "flat"))
    lines = [CO.encode(r) + "\n" for r in recs]
    nt = []
    swept = set()

    def one(fs):
        """Judge the forms fs together; on any trouble judge them one by one, then (a rejecting form) record by record."""
        viols, k, st = _coll_eval(res, fs, flag, mode, recs, lines)
        if st == "inconclusive":
            res["inconc"] += 1
            return
        if st == "ok" and not viols:
            nt.extend(k)
            swept.update(n for n, _ in fs)
            return
        if len(fs) > 1:
            n0 = len(res["viol"])
            for f in fs:
                one([f])
            if viols and len(res["viol"]) == n0:
                # only the combination shows it: report the combination
                for sig, what, detail in viols[:3]:
                    add_violation(res, sig, what, detail)
            return
        if st == "ok":
            swept.update(n for n, _ in fs)
            seen = set()
            for sig, what, detail in viols:
                ks = json.dumps(sig, sort_keys=True)
                if ks not in seen:          # one witness per (function, field, kind of change)
                    seen.add(ks)
                    add_violation(res, sig, what, detail)
            return
        # a single form that exits non-zero: the function rejects some argument kinds fatally (documented for asserting_*,
        # strict type checks).  Which records?  Probe first/last; if both are rejected the form rejects this argument kind.
        ok_rows = 0
        probe = [0, len(recs) - 1] if not case.get("exhaustive_rows") else list(range(len(recs)))
        for i in probe:
            v1, k1, st1 = _coll_eval(res, fs, flag, mode, [recs[i]], [lines[i]])
            if st1 == "ok":
                ok_rows += 1
                nt.extend(k1)
                for sig, what, detail in v1:
                    add_violation(res, sig, what, detail)
        res["skipped"] += len(recs) - ok_rows
        if ok_rows == 0:
            bump(res, "c_forms_rejecting")
            res.setdefault("rejected_forms", []).append(fs[0][1])
        else:
            swept.update(n for n, _ in fs)

    one(forms)
    res["nontrivial_keys"] = nt[:60]
    res["nontrivial"] = bool(nt)
    res["stats"]["c_functions_swept"] = sorted(swept)
    if case.get("sample"):
        res["sample"] = {"monitor": "c", "program": "; ".join(_coll_program(f) for _, f in forms), "flag": flag, "mode": mode,
                         "first_record": lines[0][:300]}
    return res


# ------------------------------------------------------------------------------------------
# (w) chains that change names / order / width of records around the 12-field key-index threshold, then reach by name

from ..model import c03_wide as WI   # noqa: E402

_W_ID = re.compile(r"^Q[A-J]+Q$")


def _w_id(i):
    return "Q" + "".join(chr(65 + int(d)) for d in str(i)) + "Q"


W_WIDTHS = [10, 11, 11, 12, 12, 12, 13, 13, 14, 16, 25]


def wide_case(case):
    rng = random.Random(case["seed"])
    ifmt = rng.choice(["dkvp", "dkvp", "dkvp", "json", "csv"])
    ofmt = rng.choice(["dkvp", "dkvp", "json"])
    flag = rng.choice(FLAGS)
    batch = rng.choice([None, None, "1", "2"])
    res = case_result(_h("w", case["seed"]), nontrivial=False, evals=0)
    pool = [s for s in case["spellings"] if spelling_ok(s, "dkvp", "in") and spelling_ok(s, "csv", "in") and ";" not in s
            and "=" not in s and not _W_ID.match(s)]
    if "json" in (ifmt, ofmt):
        # JSON text cannot carry bytes that are not UTF-8, and control characters travel as escapes (C01's subject)
        pool = [s for s in pool if value_class(s) != "invalid-utf8" and not re.search(r"[\x00-\x1f\x7f]", s)]
    try_n = 0
    while True:
        try_n += 1
        nrec = rng.choice([3, 5, 8])
        uniform = rng.choice(W_WIDTHS) if ifmt == "csv" or rng.random() < 0.3 else None
        recs = []
        for i in range(nrec):
            w = uniform or rng.choice(W_WIDTHS)
            fields = [(f"f{j+1}", rng.choice(pool)) for j in range(w - 3)]
            fields.insert(rng.randint(0, len(fields)), ("o", rng.choice(["p;q", "r", "s;t;u", "q;1e5"])))
            fields.insert(rng.randint(0, len(fields)), ("t", str(rng.randint(0, 2000000000))))
            fields.insert(rng.randint(0, min(3, len(fields))) if rng.random() < 0.7 else rng.randint(0, len(fields)), ("id", _w_id(i)))
            if ifmt == "csv" and recs:
                # one header: same names in the same order as the first record
                fields = [(k, dict(fields)[k]) for k, _ in recs[0]]
            recs.append(fields)
        built = WI.build_chain(rng, recs, lambda v: bool(_W_ID.match(v)), rng.choice([2, 2, 3]))
        if built is not None or try_n >= 5:
            break
    if built is None:
        res["skipped"] += 1
        return res
    chain, tags, model = built
    if ifmt == "json":
        stdin = "".join("{" + ", ".join(json.dumps(k) + ": " + (v if JSON_NUM.match(v) else json.dumps(v, ensure_ascii=False))
                                        for k, v in r) + "}\n" for r in recs)
    else:
        stdin = write_input(ifmt, recs)
    oflags = ["--ojsonl", "--no-auto-unflatten", "--no-auto-flatten"] if ofmt == "json" else ["--odkvp"]
    iflags = ["--ijson"] if ifmt == "json" else IFLAG[ifmt]
    argv = ([flag] if flag else []) + (["--records-per-batch", batch] if batch else []) + iflags + oflags + chain
    r = R.mlr(argv, stdin=stdin, env=ENV)
    detail = {"argv": argv, "stdin": stdin, "env": ENV}
    sig0 = {"monitor": "wide", "verbs": "+".join(tags), "ifmt": ifmt, "ofmt": ofmt}
    widths = sorted({len(x) for x in recs})
    if r.verdict == "slow":
        res["inconc"] += 1
        return res
    res["evals"] = 1
    if not r.ok:
        kind = "crash" if r.crashed() else ("hang" if r.verdict != "exited" else "chain-fails")
        add_violation(res, dict(sig0, kind=kind), f"`mlr {' '.join(argv)}` on {len(recs)} records of widths {widths}: {kind} "
                      f"(verdict {r.verdict}, rc={r.rc}): {r.err.strip()[:200]}", dict(detail, got=r.err[:2000]))
        return res
    if ofmt == "json":
        dec = CO.decode_records(r.out)
        out = None if dec is None else [[(k, v) for k, v in rec] for rec in dec]
    else:
        out = parse_output("dkvp", r.out)
    if out is None:
        add_violation(res, dict(sig0, kind="unparseable-output"), f"output of {' '.join(chain)} is not well-formed {ofmt}", dict(detail, got=r.out[:3000]))
        return res
    byid = {}
    for orec in out:
        idv = next((str(v) for _, v in orec if isinstance(v, str) and _W_ID.match(v)), None)
        byid.setdefault(idv, []).append(orec)
    checked = 0
    nontriv = False
    for i, (irec, mrec) in enumerate(zip(recs, model)):
        idv = _w_id(i)
        got = byid.pop(idv, [])
        if mrec is None:
            if got:
                add_violation(res, dict(sig0, kind="record-not-dropped"), f"record {idv} should have been filtered out by {' '.join(chain)}",
                              dict(detail, got=got))
            continue
        if len(got) != 1:
            add_violation(res, dict(sig0, kind="record-lost" if not got else "record-duplicated", width=len(irec)),
                          f"record {idv} ({len(irec)} fields) appears {len(got)} times after {' '.join(chain)} - its id field was not assigned by "
                          f"any verb", dict(detail, expected=[[k, v] for k, v in mrec], got=got))
            continue
        orec = got[0]
        okeys = [k for k, _ in orec]
        mkeys = [k for k, _ in mrec]
        crossing = (len(irec) >= 12) != (len(mrec) >= 12) or len(irec) >= 12
        if okeys != mkeys:
            unassigned = [k for k, v in mrec if v is not WI.ASSIGNED]
            lost = [k for k in unassigned if k not in okeys]
            extra = [k for k in okeys if k not in mkeys]
            kind = "lost" if lost else ("extra-field" if extra else "order")
            add_violation(res, dict(sig0, kind=kind, width=len(irec)),
                          f"record {idv} ({len(irec)} fields in): after {' '.join(chain)} the field names are {okeys}, documented result {mkeys}"
                          + (f" - unassigned field(s) {lost} missing" if lost else ""), dict(detail, expected=mkeys, got=okeys))
            continue
        for (k, mv), (_, ov) in zip(mrec, orec):
            if mv is WI.ASSIGNED:
                continue
            checked += 1
            if ofmt == "json":
                if isinstance(ov, CO.Num):
                    if not JSON_NUM.match(mv):
                        continue        # a numeral that is not a legal JSON number is re-rendered: monitor j's subject
                elif not isinstance(ov, str):
                    ov = CO.encode(ov)
            if noncanonical_number(mv) and crossing:
                nontriv = True
            if str(ov) != mv:
                add_violation(res, dict(sig0, kind="text", cls=value_class(mv), width=len(irec)),
                              f"record {idv} ({len(irec)} fields in): unassigned field {k}={mv!r} came out as {str(ov)!r} after {' '.join(chain)} "
                              f"({ifmt}->{ofmt} {flag or 'default'})", dict(detail, expected=mv, got=str(ov)))
    for idv, got in byid.items():
        add_violation(res, dict(sig0, kind="unexpected-record"), f"output record(s) without a known id after {' '.join(chain)}",
                      dict(detail, got=got[:3]))
    bump(res, "w_runs")
    bump(res, "w_values_checked", checked)
    bump(res, "w_batch:" + (batch or "default"))
    res["stats"]["w_tags"] = list(set(tags))
    res["stats"]["w_widths"] = [str(w) for w in widths]
    res["nontrivial"] = nontriv and checked > 0
    if case.get("sample"):
        res["sample"] = {"monitor": "w", "argv": argv, "stdin": stdin[:400], "values_checked": checked}
    return res


# ------------------------------------------------------------------------------------------
# (j) the documented exception: JSON output re-renders exactly the numerals that are not legal JSON numbers

J_CHAINS = [
    ["cat"], ["sort", "-nr", "x"], ["put", "$n = $x + 1"], ["filter", "is_numeric($x) || true"],
    ["put", "-q", "emit mapsum($*, {})"], ["step", "-a", "shift", "-f", "x"], ["count-similar", "-g", "x"],
    ["put", 'var y = is_error(fmtifnum($x, "%d")); var z = is_error($x . "")'], ["sort", "-f", "x", "then", "tac"],
]
_INFNAN = re.compile(r"[+-]?(inf|infinity|nan)$", re.I)


def json_set():
    S = [s for s in NUMERIC_SPELLINGS + ["abc", "", "-", "a b", " 7", "7 ", "true", "null", "é", "\\", "a\"b", "x" * 50]
         if spelling_ok(s, "dkvp", "in") and not _INFNAN.match(s)]
    seen = set()
    return [s for s in S if not (s in seen or seen.add(s))]


def allowed_values(s, flag=""):
    """Values a re-rendered numeral may denote: the documented readings of the spelling."""
    v = numeric_value(s)
    out = set()
    if v is None:
        return out
    out.add(v)
    u = s.lstrip("+-")
    sign = -1 if s.startswith("-") else 1
    if re.fullmatch(r"0[0-9]+", u):
        try:
            out.add(sign * int(u, 8))         # -O: leading zero means octal
        except ValueError:
            pass
        out.add(float(s))                     # 08, 09 scan as float (flag table)
    if isinstance(v, int) and u[:2].lower() in ("0x", "0b", "0o") and v >= 2 ** 63 and v < 2 ** 64:
        out.add(v - 2 ** 64)                  # 64-bit hex literals are two's complement (reference-main-arithmetic.md)
    if isinstance(v, int) and flag == "-A":
        out = {float(a) for a in out}         # -A casts integers to float: compare as doubles
    return out


_YAML_LINE = re.compile(r'^(?:- |  )(?:"(id|x|tail)"|(id|x|tail)): (.*)$')


def _yaml_token(tok):
    """One-line YAML scalar as written by mlr --oyaml -> (is_quoted, text) or None if this monitor cannot read it."""
    if tok.startswith('"') and tok.endswith('"') and len(tok) >= 2:
        try:
            return True, json.loads(tok)
        except ValueError:
            return None
    if tok.startswith("'") and tok.endswith("'") and len(tok) >= 2:
        return True, tok[1:-1].replace("''", "'")
    if tok[:1] in "|>&*!%@`[{":
        return None
    return False, tok


def json_case(case):
    chain, flag, S = case["chain"], case["flag"], case["spellings"]
    ifmt, ofmt = case.get("ifmt", "dkvp"), case.get("ofmt", "json")
    res = case_result(_h("j", chain, flag, ifmt, ofmt), nontrivial=True, evals=0)
    if ifmt == "json":
        S = [s for s in S if _json_ok(s)]
        stdin = _write_any("json", [[("id", f"r{i}"), ("x", s), ("tail", "1.50")] for i, s in enumerate(S)])
        tail = "1.50"
    else:
        stdin = "".join(f"id=r{i},x={s},tail=0x0F\n" for i, s in enumerate(S))
        tail = "0x0F"
    argv = ([flag] if flag else []) + IFLAG[ifmt] + ["--o" + ofmt] + chain
    r = R.mlr(argv, stdin=stdin, env=ENV)
    detail = {"argv": argv, "stdin": stdin, "env": ENV}
    sig = {"monitor": "json", "flag": flag or "default", "verbs": chain[0], "ifmt": ifmt, "ofmt": ofmt}
    if r.verdict == "slow":
        res["inconc"] += 1
        return res
    if not r.ok:
        # every chain of J_CHAINS is total on this input: a failure is a finding, not an exclusion
        kind = "crash" if r.crashed() else ("hang" if r.verdict != "exited" else "chain-fails")
        add_violation(res, dict(sig, kind=kind), f"`mlr {' '.join(argv)}` on {len(S)} one-field records: {kind} (verdict {r.verdict}, rc={r.rc}): "
                      f"{r.err.strip()[:200]}", dict(detail, got=r.err[:2000]))
        res["evals"] = 1
        return res
    cur = None
    nt = []
    seen = {}
    for line in r.out.split("\n"):
        if ofmt == "json":
            m = re.match(r'^\s*"(id|x|tail)": (.*?),?$', line)
            k, tok = (m.group(1), m.group(2)) if m else (None, None)
        else:
            m = _YAML_LINE.match(line)
            k, tok = (m.group(1) or m.group(2), m.group(3)) if m else (None, None)
        if not m:
            continue
        if k == "id":
            try:
                cur = int((json.loads(tok) if ofmt == "json" else _yaml_token(tok)[1])[1:])
            except (ValueError, TypeError, IndexError):
                cur = None
            continue
        if cur is None or cur >= len(S):
            continue
        s = S[cur] if k == "x" else tail
        res["evals"] += 1
        seen.setdefault(cur, set()).add(k)
        if noncanonical_number(s):
            nt.append(_h("j", chain, flag, ifmt, ofmt, s, k))
        if ofmt == "yaml":
            yt = _yaml_token(tok)
            if yt is None:
                res["skipped"] += 1
                bump(res, "yaml_tokens_not_read")
                continue
            quoted, text = yt
            if not quoted and text == s:
                bump(res, "yaml_verbatim_plain_scalars")
                continue
            numeric_text = numeric_value(text) is not None or _INFNAN.match(text) or text in ("true", "false", "null", "~", "")
            if quoted or not (JSON_NUM.match(text) or numeric_text):
                # a string scalar (plain or quoted): must be the input text
                try:
                    s.encode("utf-8")
                except UnicodeEncodeError:
                    continue
                bump(res, "yaml_strings")
                if text != s and not (not quoted and text.strip() == s.strip() and s != s.strip()):
                    add_violation(res, dict(sig, kind="yaml-string-changed", cls=value_class(s)),
                                  f"--oyaml: field {k}={s!r} came out as the string scalar {tok}", dict(detail, expected=s, got=tok))
                continue
            tok = text
        elif tok.startswith('"'):
            try:
                dec = json.loads(tok)
            except ValueError:
                dec = None
            want = s
            try:
                s.encode("utf-8")
            except UnicodeEncodeError:
                continue          # invalid UTF-8 cannot be a JSON string; C01's subject
            bump(res, "json_strings")
            if dec != want:
                add_violation(res, dict(sig, kind="json-string-changed", cls=value_class(s)),
                              f"--ojson: field {k}={s!r} came out as the string {tok}", dict(detail, expected=s, got=tok))
            continue
        o = "--o" + ofmt
        if JSON_NUM.match(s):
            bump(res, "json_verbatim_numerals")
            if tok != s:
                vs, vt = numeric_value(s), numeric_value(tok)
                # decimal integers beyond 64 bits are floats (C06): compared as doubles
                exact_int = isinstance(vs, int) and -2 ** 63 <= vs < 2 ** 63 and flag != "-A"      # -A: ints are cast to float
                try:
                    same = vs is not None and vt is not None and (vt == vs if exact_int else float(vt) == float(vs))
                except OverflowError:
                    same = False
                add_violation(res, dict(sig, kind=ofmt + "-legal-numeral-rewritten", value=s if ofmt == "json" else None,
                                        result="same-value" if same else "different-value",
                                        cls="int" if isinstance(numeric_value(s), int) else "float"),
                              f"{o}: {k}={s} is a legal JSON number but came out as {tok}", dict(detail, expected=s, got=tok))
            continue
        bump(res, "json_rerendered_numerals")
        allowed = allowed_values(s, flag)
        if not JSON_NUM.match(tok):
            add_violation(res, dict(sig, kind="json-bare-nonnumber"),
                          f"{o}: {k}={s!r} came out as the bare token {tok}, which is not a JSON number",
                          dict(detail, expected="a JSON number or a string", got=tok))
            continue
        if not allowed:
            res["skipped"] += 1      # the binary takes it for a number, this monitor's grammar does not: C06's subject
            bump(res, "json_declined_not_in_grammar")
            continue
        tv = numeric_value(tok)

        def eq(t, a):
            if isinstance(a, float) or isinstance(t, float):
                try:
                    return float(t) == float(a)
                except OverflowError:
                    return False
            return t == a
        if not any(eq(tv, a) for a in allowed):
            add_violation(res, dict(sig, kind="json-rerender-value"),
                          f"{o}: {k}={s} was re-rendered as {tok}, a different number", dict(detail, expected=sorted(map(str, allowed)), got=tok))
    # every input record must have come out, with both of its fields (all J_CHAINS carry every record)
    missing = [i for i in range(len(S)) if seen.get(i, set()) != {"x", "tail"}]
    if missing:
        i = missing[0]
        add_violation(res, dict(sig, kind="record-or-field-missing"),
                      f"{o}: {len(missing)} of {len(S)} input records did not come out with both fields x and tail after {' '.join(chain)}; "
                      f"first: id=r{i} x={S[i]!r} (seen: {sorted(seen.get(i, ()))})", dict(detail, expected=f"r{i} with x and tail", got=r.out[:1500]))
    res["nontrivial_keys"] = nt
    if case.get("sample"):
        res["sample"] = {"monitor": "j", "argv": argv, "spellings": len(S), "cells": res["evals"]}
    return res


# ------------------------------------------------------------------------------------------

def run(chk):
    only = getattr(chk, "only", None)
    tier = chk.tier
    q = chk.quick()
    spell = all_spellings(tier, chk.rng("spellings"))
    chk.extra["spellings"] = len(spell)
    chk.extra["spellings_noncanonical_numbers"] = sum(1 for s in spell if noncanonical_number(s))
    chk.rule = ("a: seeded random chains (1-4 verbs from a catalogue of ~150 readers-not-writers) over 1-13 (and 600) records with 3-18 "
                "bystander fields drawn from the spelling alphabet, input format (incl. JSON) x non-JSON output format x "
                "{default,-S,-A,-O,--ofmt}; f: every builtin function and operator (arity forms from `mlr help usage-functions-by-class`) x every "
                "DKVP-representable spelling, read into a discarded local; c: every builtin function / operator x argument forms over an "
                "array field, a map field and two scalars of JSON records, result stored in a new field; w: seeded chains of 2-3 modelled "
                "name/order/width-changing and by-name-reaching verbs over records of 10-25 fields; j: fixed spelling set x 9 reading chains "
                "x 4 flags under --ojson/--oyaml from DKVP and JSON input. Non-trivial = the bystander is a number whose text is not what "
                "Miller prints for that number (0xff, 1.500, +5, 1e5 ...) and the chain/function read it (c: a record whose collections came "
                "out intact after the function read them; w: such a value in a record at or across the 12-field threshold); distinct = by "
                "(monitor, seed / function form / chain, flag, spelling or record).")
    if not only or "a" in only:
        n = 600 if q else 14000
        cases = [{"seed": f"{chk.seed}/a/{i}", "tier": tier, "spellings": spell if q else spell[:600], "sample": i == 3}
                 for i in range(n)]
        # every input format x every non-JSON output format x every flag at least once
        k = 0
        for ifmt in IFLAG:
            for ofmt in OFLAG:
                for flag in AFLAGS:
                    for rep in range(1 if q else 6):
                        cases.append({"seed": f"{chk.seed}/agrid/{k}", "tier": tier, "spellings": spell[:600], "ifmt": ifmt,
                                      "ofmt": ofmt, "flag": flag})
                        k += 1
        # streams longer than the reader's 500-record batch (retaining verbs hold values from two batches)
        pairs = [(i_, o_) for i_ in IFLAG for o_ in OFLAG]
        chk.rng("a600").shuffle(pairs)
        for k, (ifmt, ofmt) in enumerate(pairs[:4] if q else pairs):
            cases.append({"seed": f"{chk.seed}/a600/{k}", "tier": tier, "spellings": spell[:600], "ifmt": ifmt, "ofmt": ofmt, "nrec": 600})
        results = chk.pmap(chain_case, cases, chunksize=8, label="a chains")
        tags = chk.stats.pop("tags", set())
        chk.extra["chain_verbs_exercised"] = sorted(tags)
        chk.extra["format_pairs_reached"] = sorted(k[4:] for k in chk.stats if k.startswith("fmt:"))
        chk.extra["chain_rejections"] = {k[9:]: v for k, v in chk.stats.items() if k.startswith("rejected:")}
        for k in [k for k in chk.stats if k.startswith(("rejected:", "fmt:"))]:
            chk.stats.pop(k)
    if not only or "f" in only:
        ft = function_table()
        sp = [s for s in spell if spelling_ok(s, "dkvp", "in")]
        cases = []
        nforms = 0
        for idx, (name, (cls, args)) in enumerate(sorted(ft.items())):
            for form in forms_for(name, args):
                nforms += 1
                flags = FLAGS if not q else ["", FLAGS[1 + (idx + chk.seed) % 3]]
                if q and name in OPERATOR_FORMS:
                    flags = [FLAGS[(idx + nforms + chk.seed) % 4]]
                for flag in flags:
                    cases.append({"f": name, "form": form, "flag": flag, "spellings": sp, "tier": tier,
                                  "sample": name == "abs" and flag == ""})
        chk.extra["functions_listed"] = len(ft)
        chk.extra["functions_excluded"] = sorted(n for n, (c, a) in ft.items() if not forms_for(n, a))
        chk.extra["function_forms"] = nforms
        chk.extra["sweep_rows_per_form"] = len(sp)
        results = chk.pmap(sweep_case, cases, chunksize=2, label="f function sweep")
        chk.extra["function_forms_rejecting_every_row"] = sorted({r["rejected_form"] for r in results if r.get("rejected_form")})
        chk.extra["functions_swept"] = len(chk.stats.get("functions_swept", ()))
        chk.stats.pop("functions_swept", None)
    if not only or "c" in only:
        ft = function_table()
        allforms = [(name, form) for name, (cls, args) in sorted(ft.items()) for form in coll_forms(name, args, q)]
        chk.extra["collection_forms"] = len(allforms)
        # several forms share one process (a violation is re-run form by form for attribution); neighbours in the list
        # are forms of the same function, so stride the list to mix functions within a group
        per = 6 if q else 3
        ngroups = (len(allforms) + per - 1) // per
        groups = [allforms[g::ngroups] for g in range(ngroups)]
        cases = []
        for gi, grp in enumerate(groups):
            # quick: one inference flag and one output mode per group, both rotating with the seed; thorough: all
            combos = [(FLAGS[(gi + chk.seed) % 4] if gi % 2 else "", ("json", "flat")[(gi // 2 + chk.seed) % 2])] if q \
                else [(fl, mo) for fl in FLAGS for mo in ("json", "flat")]
            for flag, mode in combos:
                cases.append({"forms": grp, "flag": flag, "mode": mode, "tier": tier,
                              "seed": f"{chk.seed}/c/{gi % 7}/{mode}", "sample": gi == 0})
        results = chk.pmap(coll_case, cases, chunksize=2, label="c functions only read collections")
        chk.extra["collection_functions_swept"] = len(chk.stats.get("c_functions_swept", ()))
        chk.stats.pop("c_functions_swept", None)
        rej = sorted({f for r in results for f in r.get("rejected_forms", ())})
        chk.extra["collection_forms_rejecting_every_record"] = rej[:80]
        if len(rej) * 4 > len(allforms):
            chk.exceptions.append(("monitor c", f"{len(rej)} of {len(allforms)} forms were rejected outright - the monitor decided nothing"))
    if not only or "w" in only:
        n = 220 if q else 6000
        cases = [{"seed": f"{chk.seed}/w/{i}", "tier": tier, "spellings": spell[:600], "sample": i == 1} for i in range(n)]
        chk.pmap(wide_case, cases, chunksize=8, label="w wide-record chains")
        chk.extra["wide_verbs_exercised"] = sorted(chk.stats.pop("w_tags", ()))
        chk.extra["wide_input_widths"] = sorted(chk.stats.pop("w_widths", ()), key=int)
    if not only or "j" in only:
        S = json_set()
        cases = [{"chain": ch, "flag": flag, "spellings": S, "sample": ch == ["cat"] and flag == ""}
                 for flag in FLAGS for ch in J_CHAINS]
        # JSON as the input carrier (values created eagerly from JSON tokens), YAML as the other re-rendering writer
        extra = [("json", "json"), ("dkvp", "yaml"), ("json", "yaml")]
        for n, ch in enumerate(J_CHAINS):
            for fi, flag in enumerate(FLAGS):
                for ei, (ifmt, ofmt) in enumerate(extra):
                    if q and (n + fi + ei + chk.seed) % 4:
                        continue
                    cases.append({"chain": ch, "flag": flag, "spellings": S, "ifmt": ifmt, "ofmt": ofmt})
        chk.pmap(json_case, cases, label="j json exception")
        chk.extra["json_fixed_set"] = len(S)
    chk.assumptions = [
        "non-JSON output in monitors a, f, w(dkvp); JSON/YAML output is judged by monitor j (the documented re-rendering) and, for values that "
        "are legal JSON tokens, by c and w; under --ofmt (monitor a) only values that are certainly not floats are judged (integers within 64 "
        "bits, hex/binary/octal literals, strings without digits): --ofmt is documented to apply to floats, and which spellings are floats is C06's subject",
        "a spelling is fed to a format only if the format's syntax can carry it as generated: DKVP no ',' CR LF; generated CSV input "
        "unquoted (no ',' '\"' CR, no edge spaces, non-empty); TSV no TAB CR backslash, non-empty; XTAB/NIDX/PPRINT non-empty, no "
        "space/TAB, not '-' (PPRINT's empty marker), not starting with '#'; JSON input valid UTF-8 without control characters, a spelling that "
        "is a legal JSON number is written as a number token and any other as a string; quoting/escaping round trips are C01's subject",
        "output records are matched to input records by the unique id field; records without it (end-block emits, unpaired left records) carry nothing to compare",
        "a chain that exits non-zero is a violation unless it contains fraction, merge-fields -k or a float used as a map key (documented to "
        "reject non-numeric data: skipped); crashes and hangs on these small inputs are violations",
        "fill-empty assigns exactly the empty values (expected N/A or the -v value); sparsify / remove-empty-columns may drop empty-valued "
        "bystanders; sort-within-records changes the order (order not judged in such chains); verbs that make records heterogeneous are "
        "not combined with rectangular output formats (C01/C02's subject)",
        "NIDX output has no keys: the bystander values must appear as an ordered subsequence of the output record's values",
        "sweep: asserting_X is called only on rows where is_X holds (it aborts by design otherwise); time-parsing functions are not fed "
        "spellings starting with '-' and strptime gets literal formats only; leftpad/rightpad get a non-empty pad; a non-zero exit without a "
        "crash on a single row is the function rejecting the value (skipped)",
        "sweep: lines on stdout that are not records (diagnostics such as fmtnum's 'unhandled format string') are removed before the byte comparison and counted",
        "monitor c: JSON number tokens are legal JSON and within double range (1e400 is C01-F11); JSON null inside a collection is not judged in "
        "flattened output; the new field is overwritten by typeof() of itself so that error/absent/function results cannot make the output "
        "unparseable; several forms share one process and are re-run one by one when anything differs; a form that exits non-zero on every "
        "record rejects that argument kind (skipped; more than a quarter of all forms doing so makes the run BROKEN)",
        "monitor w: only argument choices whose result the usage texts determine are generated (new names always fresh, single-name reorder, "
        "no out-of-range positional assignment, records with duplicate names declined); values assigned by a verb are not judged, only their "
        "presence and position; ssub results are exact only for values without digits",
        "monitor j: a bare token for a spelling that is a legal JSON number must be the spelling itself; otherwise it must be a JSON number "
        "whose value is one of the documented readings (decimal, hex/binary/octal incl. 64-bit two's complement, leading-zero as octal "
        "under -O or float for 08/09, double under -A); Inf/NaN spellings are excluded (not representable in JSON: C01); invalid UTF-8 excluded; "
        "YAML scalars are read with a one-line reader (plain, single- and double-quoted); every input record must come out with both fields",
    ]
