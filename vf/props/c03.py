"""C03 - fields a chain does not assign pass through byte-for-byte (DESIGN.md section 3, C03).

No model: the oracle is text equality between what went in and what came out.
  a  bystander fields holding number spellings / hostile strings travel through chains of
     readers-not-writers (sort keys, comparisons, type tests, statistics that carry the record,
     restructuring of *other* fields); output records are mapped to input records by unique id;
     each carried bystander must have exactly its input text, and the bystanders must keep their
     relative order. Input formats dkvp/csv/tsv/xtab/nidx x non-JSON output formats x {default,-S,-A,-O}.
  f  mechanism sweep: every spelling x every builtin function of arity 1-3 (from `mlr help ...` at run time)
     read as  put 'var y = is_error(f($x))'  - the value is read into a local that is never stored, so
     DKVP output must be byte-identical to DKVP input.
  j  the documented exception: --ojson re-renders exactly the numerals that are not legal JSON numbers,
     to a JSON number of the same value, and nothing else (fixed small set x reading chains).
"""
import csv
import hashlib
import io
import json
import random
import re

from .. import run as R
from ..harness import add_violation, bump, case_result

BINARIES = ("mlr-verif",)
LEVEL = "exploration"
ENV = {"MLR_NO_SHELL": "1"}
FLAGS = ["", "-S", "-A", "-O"]


def _h(*xs):
    return hashlib.sha1(repr(xs).encode()).hexdigest()[:16]


# ------------------------------------------------------------------------------------------
# spellings (bytes-safe: str with surrogateescape for invalid UTF-8)

def _b(bs):
    return bs.decode("utf-8", "surrogateescape")


NUMERIC_SPELLINGS = [
    "0xFF", "0xff", "0XFF", "-0xff", "+0xff", "0b101", "-0b101", "0B11", "0o17", "-0o17", "0O17", "+5", "-5", "007", "-007", "+007",
    "08", "09", "00", "0", "-0", "+0", "-0.0", "+0.0", "0.0", "1e5", "1E5", "1e+5", "1e-5", "1e05", "1.500", "1.0", "100.", "5.",
    "-5.", ".5", "-.5", "+.5", "0.5", "0.50", "1_000", "123456789012345678901234567890", "9223372036854775807",
    "9223372036854775808", "-9223372036854775808", "-9223372036854775809", "18446744073709551616",
    "0x7FFFFFFFFFFFFFFF", "0x8000000000000000", "0xFFFFFFFFFFFFFFFF", "0x10000000000000000", "1E-400", "1e400", "-1e400",
    "Inf", "+Inf", "-Inf", "inf", "infinity", "NaN", "nan", "-NaN", "true", "false", "0x1p3", "0x1.8p1", "1.2.3", "1e", "1e+",
    "0x", "0b", "0o", "0b102", "0o8", "--5", "5-", "1d5", "1f", "1e5.5", "e5", ".", "+", "-", "1.", "6.02E23",
    "3.14159265358979323846264338327950288", "0.30000000000000004", "1.7976931348623157e308", "4.9e-324",
    "2.2250738585072014e-308", "1e-320", "0.1", "0.10", "1.10", "10", "010", "0010.50", "1e0", "1E+00", "0e0", "0x0", "0x00ff",
    "1,5".replace(",", ";"), "１２３", "٣", "1 000", "1/2", "50%", "$5", "5$", "1:30", "2021-01-02",
    "12:34:56", "1e5e5", "0x1g", "+-5", "0x-5", "0.", "00.5", "-.", "1__0", "_1", "1_",
]
SPACED_SPELLINGS = [" 7", "7 ", " 7 ", "1 000", "  ", " ", "a b", " 0x1F", "1.5 "]
STRING_SPELLINGS = [
    "", "-", "#", "a=b", "=", "x;y", "a|b", "it's", "\\", "\\t", "\\n", "\\1", "\\.", "a\\b", _b(b"\xff\xfe"), _b(b"ab\xc3"),
    _b(b"\xed\xa0\x80"), "é", "日本語", "é", "\U0001F600", "​", "﻿", "\x01", "\x7f", "\x1b[31m",
    "NULL", "null", "None", "N/A", "%d", "%s", "%08.3lf", "$x", "${x}", ".*", "[", "(", ")", "{", "}", "*", "?", "^$", "a.b", "a:b",
    "<b>", "&amp;", "True", "FALSE", "yes", "abc", "ABC", "Abc", "x" * 300, "0" * 70, "\t", "a\tb", "\"", "\"q\"", "a\"b", "''",
    "a,b", ",", "\r", "a\rb",
]


def spelling_ok(s, fmt, role):
    """Can this spelling be carried as a value by the format (role: 'in' or 'out')? Exclusions are only those
    inherent in the format's syntax (no escape mechanism / separator characters / alignment by spaces)."""
    if "\n" in s:
        return False
    if fmt == "dkvp":
        return "," not in s and "\r" not in s
    if fmt == "csv":
        if role == "in":
            # the generator writes unquoted cells; quoting-needing content is C01's subject
            return not any(c in s for c in ',"\r') and s == s.strip(" ") and s != ""
        return "\r" not in s
    if fmt == "tsv":
        return not any(c in s for c in "\t\r\\") and s != ""
    if fmt in ("xtab", "nidx", "pprint"):
        return s != "" and not any(c in s for c in " \t\r") and s != "-" and not s.startswith("#")
    return False


def all_spellings(tier, rng):
    S = NUMERIC_SPELLINGS + SPACED_SPELLINGS + STRING_SPELLINGS
    if tier == "thorough":
        alpha = "0123456789+-.eExXbBoO_aAfFnN"
        for a in alpha:
            S.append(a)
            for b in alpha:
                S.append(a + b)
        for _ in range(1500):
            S.append("".join(rng.choice(alpha) for _ in range(rng.choice([3, 3, 4, 5, 7]))))
    seen = set()
    out = []
    for s in S:
        if s not in seen:
            seen.add(s)
            out.append(s)
    return out


_INT_RE = re.compile(r"[+-]?(0[xX][0-9a-fA-F]+|0[bB][01]+|0[oO][0-7]+|[0-9]+)$")
_FLT_RE = re.compile(r"[+-]?([0-9]+\.?[0-9]*|\.[0-9]+)([eE][+-]?[0-9]+)?$")


def numeric_value(s):
    """Python value of a spelling under the documented number grammar (approximation used only to count
    non-trivial cases and to check the JSON re-rendering), or None."""
    if _INT_RE.match(s):
        sign = -1 if s.startswith("-") else 1
        u = s.lstrip("+-")
        try:
            if u[:2].lower() == "0x":
                return sign * int(u[2:], 16)
            if u[:2].lower() == "0b":
                return sign * int(u[2:], 2)
            if u[:2].lower() == "0o":
                return sign * int(u[2:], 8)
            return sign * int(u, 10)
        except ValueError:
            return None
    if _FLT_RE.match(s):
        try:
            return float(s)
        except ValueError:
            return None
    return None


def noncanonical_number(s):
    v = numeric_value(s)
    if v is None:
        return False
    if isinstance(v, int):
        return s != str(v)
    return s not in (repr(v), str(v), "%g" % v)


JSON_NUM = re.compile(r"-?(0|[1-9][0-9]*)(\.[0-9]+)?([eE][+-]?[0-9]+)?$")

# ------------------------------------------------------------------------------------------
# writers for inputs, parsers for outputs (values are under the generator's control)

IFLAG = {"dkvp": ["--idkvp"], "csv": ["--icsv"], "tsv": ["--itsv"], "xtab": ["--ixtab"], "nidx": ["--inidx", "--ifs", "space"]}
OFLAG = {"dkvp": ["--odkvp"], "csv": ["--ocsv"], "tsv": ["--otsv"], "xtab": ["--oxtab"], "nidx": ["--onidx", "--ofs", "space"],
         "pprint": ["--opprint"]}


def write_input(fmt, recs):
    """recs: list of list of (key, value) with identical key lists."""
    if fmt == "dkvp":
        return "".join(",".join(f"{k}={v}" for k, v in r) + "\n" for r in recs)
    if fmt == "csv":
        return ",".join(k for k, _ in recs[0]) + "\n" + "".join(",".join(v for _, v in r) + "\n" for r in recs)
    if fmt == "tsv":
        return "\t".join(k for k, _ in recs[0]) + "\n" + "".join("\t".join(v for _, v in r) + "\n" for r in recs)
    if fmt == "xtab":
        return "\n".join("".join(f"{k} {v}\n" for k, v in r) for r in recs)
    if fmt == "nidx":
        return "".join(" ".join(v for _, v in r) + "\n" for r in recs)
    raise ValueError(fmt)


def parse_output(fmt, text):
    """-> list of records as lists of (key, value); None if the text cannot be parsed."""
    recs = []
    if fmt == "dkvp":
        for line in text.split("\n"):
            if line == "":
                continue
            rec = []
            for n, pair in enumerate(line.split(",")):
                if "=" in pair:
                    k, v = pair.split("=", 1)
                else:
                    k, v = str(n + 1), pair
                rec.append((k, v))
            recs.append(rec)
        return recs
    if fmt in ("csv", "tsv"):
        blocks = []
        if fmt == "csv":
            # schema change = blank line + new header (csvlite style) or a new header block
            rows = list(csv.reader(io.StringIO(text, newline=""), strict=False))
        else:
            rows = [line.split("\t") for line in text.split("\n")]
            if rows and rows[-1] == [""]:
                rows.pop()
        hdr = None
        for row in rows:
            if row == [] or row == [""]:
                hdr = None
                continue
            if hdr is None:
                hdr = row
                continue
            if len(row) < len(hdr):
                return None
            # file-formats.md: "If there are too many keys, but these match the header up to the number of header fields,
            # the extra fields are emitted" - data rows may be longer than the header; the extras have no names
            recs.append(list(zip(hdr, row)) + [(f"#{i+1}", v) for i, v in enumerate(row) if i >= len(hdr)])
        return recs
    if fmt == "xtab":
        cur = []
        for line in text.split("\n"):
            if line == "":
                if cur:
                    recs.append(cur)
                cur = []
                continue
            m = re.match(r"(\S+) +(.*)$", line)
            if not m:
                return None
            cur.append((m.group(1), m.group(2)))
        if cur:
            recs.append(cur)
        return recs
    if fmt == "nidx":
        for line in text.split("\n"):
            if line == "":
                continue
            recs.append([(str(i + 1), v) for i, v in enumerate(line.split(" "))])
        return recs
    if fmt == "pprint":
        hdr = None
        for line in text.split("\n"):
            if line == "":
                hdr = None
                continue
            cells = [c for c in line.split(" ") if c != ""]
            if hdr is None:
                hdr = cells
                continue
            if len(cells) != len(hdr):
                return None
            recs.append(list(zip(hdr, cells)))
        return recs
    raise ValueError(fmt)


# ------------------------------------------------------------------------------------------
# (a) chains of readers-not-writers

def D(name):
    return "${" + name + "}"


def catalogue(rng, N, i):
    """Verbs/statements that read bystander fields N['x'], N['y'] but assign none of the bystanders, and that emit
    the original record. N maps roles to field names; i makes new field names unique per chain position."""
    x, y, g, k, t, o, idf = N["x"], N["y"], N["g"], N["k"], N["t"], N["o"], N["id"]
    n = f"new{i}"
    C = [
        (["sort", "-f", x], "sort-f"), (["sort", "-r", x], "sort-r"), (["sort", "-nf", x], "sort-nf"),
        (["sort", "-nr", x], "sort-nr"), (["sort", "-c", x], "sort-c"), (["sort", "-cr", x], "sort-cr"),
        (["sort", "-t", x], "sort-t"), (["sort", "-tr", x], "sort-tr"), (["sort", "-f", g, "-nr", x, "-f", y], "sort-multi"),
        (["filter", f"{D(x)} < 3 || true"], "filter-lt"), (["filter", f"is_numeric({D(x)}) || true"], "filter-is_numeric"),
        (["filter", "-x", f"{D(x)} == {D(y)} && false"], "filter-eq"),
        (["filter", f'{D(x)} =~ "^[0-9]+$" || true'], "filter-regex"),
        (["filter", f'typeof({D(x)}) != "nosuchtype"'], "filter-typeof"),
        (["filter", f"is_present(asserting_present({D(x)}))"], "filter-asserting"),
        (["filter", f"{D(x)} <= {D(y)} || {D(x)} >= {D(y)} || true"], "filter-cmp2"),
        (["filter", f'is_string({D(x)}) || is_int({D(x)}) || is_float({D(x)}) || is_empty({D(x)}) || true'], "filter-is_star"),
        (["put", f"{D(n)} = {D(x)} + 1"], "put-plus"), (["put", f'{D(n)} = {D(x)} . "s"'], "put-dot"),
        (["put", f"{D(n)} = {D(x)} * 1.0"], "put-times"), (["put", f"{D(n)} = strlen({D(x)})"], "put-strlen"),
        (["put", f"{D(n)} = typeof({D(x)})"], "put-typeof"), (["put", f"{D(n)} = abs({D(x)})"], "put-abs"),
        (["put", f"{D(n)} = min({D(x)}, {D(y)})"], "put-min"), (["put", f"{D(n)} = {D(x)} < {D(y)}"], "put-lt"),
        (["put", f'{D(n)} = fmtnum({D(x)}, "%d")'], "put-fmtnum"), (["put", f'{D(n)} = fmtifnum({D(x)}, "%.2f")'], "put-fmtifnum"),
        (["put", f"{D(n)} = sec2gmt({D(x)})"], "put-sec2gmt"), (["put", f"{D(n)} = {D(x)} // 2"], "put-intdiv"),
        (["put", f"{D(n)} = {D(x)} & 1"], "put-bitand"), (["put", f"{D(n)} = -{D(x)}"], "put-neg"),
        (["put", f"{D(n)} = int({D(x)})"], "put-int"), (["put", f"{D(n)} = float({D(x)})"], "put-float"),
        (["put", f"{D(n)} = string({D(x)})"], "put-string"), (["put", f"{D(n)} = hexfmt({D(x)})"], "put-hexfmt"),
        (["put", f"{D(n)} = {D(x)} ?? \"d\""], "put-coalesce"), (["put", f"{D(n)} = {D(x)} ??? \"d\""], "put-coalesce3"),
        (["put", f"{D(n)} = is_nan({D(x)}) ? 1 : 2"], "put-ternary"),
        (["put", f"{D(n)} = round({D(x)}) . ceil({D(y)})"], "put-round"),
        (["put", f"{D(n)} = toupper({D(x)})"], "put-toupper"), (["put", f'{D(n)} = sub({D(x)}, "0", "Z")'], "put-sub"),
        (["put", f'{D(n)} = splitax({D(x)}, ".")[1]'], "put-splitax"),
        (["put", "-q", "emit mapsum($*, {})"], "emit-mapsum"), (["put", "-q", "emit (mapsum($*, {}))"], "emit-mapsum-paren"),
        (["put", "-q", f'emit mapexcept($*, "{o}")'], "emit-mapexcept"),
        (["put", 'for (k,v in $*) { @s[k] = v . "" }'], "put-forloop"),
        (["put", f'map m = $*; m["{x}"] = 1; {D(n)} = length(m)'], "put-mapcopy"),
        (["put", f"@acc[{D(x)}] = NR; {D(n)} = @acc[{D(x)}]"], "put-mapkey"),
        (["put", f"if ({D(x)} > {D(y)}) {{ {D(n)} = 1 }} else {{ {D(n)} = 2 }}"], "put-if"),
        (["put", f"{D(n)} = $[[2]] . $[[[2]]]"], "put-positional"), (["put", f'{D(n)} = $*["{x}"]'], "put-srec-index"),
        (["put", f"unset {D(o)}"], "put-unset-other"), (["put", f"{D(o)} = {D(x)}"], "put-assign-other"),
        (["put", f"var a = is_error({D(x)} + {D(y)}); var b = is_error({D(x)} . {D(y)})"], "put-locals"),
        (["put", 'tee > "tee.out", $*'], "put-tee"), (["put", f"print > stderr, {D(x)}"], "put-print"),
        (["put", f'@first[{D(g)}] = is_absent(@first[{D(g)}]) ? {D(x)} : @first[{D(g)}]; {D(n)} = @first[{D(g)}]'], "put-oosvar"),
        (["put", f"func f(v) {{ return v . v }} {D(n)} = f({D(x)})"], "put-udf"),
        (["put", "-S", f"{D(n)} = {D(x)} . {D(y)}"], "put-S"), (["put", "-q", f"@r[NR] = $*; end {{ emit @r, \"NR\" }}"], "emit-retained"),
        (["count-similar", "-g", x, "-o", n], "count-similar"), (["count-similar", "-g", f"{x},{y}", "-o", n], "count-similar-2"),
        (["cat", "-N", n, "-g", x], "cat-n-g"), (["cat", "-g", x], "cat-g"),
        (["head", "-n", "2", "-g", x], "head-g"), (["tail", "-n", "2", "-g", x], "tail-g"),
        (["top", "-n", "3", "-f", x, "-a"], "top-a"), (["top", "-n", "2", "-f", x, "-g", g, "-a", "--min"], "top-a-min"),
        (["step", "-a", "delta,shift,shift_lag,shift_lead,ratio,counter,rsum,rprod,from-first", "-f", x], "step"),
        (["step", "-a", "ewma", "-d", "0.1,0.9", "-f", x], "step-ewma"), (["step", "-a", "slwin_1_1", "-f", x, "-g", g], "step-slwin"),
        (["merge-fields", "-k", "-a", "sum,count,min,max,mean,antimode,first,last", "-f", f"{x},{y}", "-o", n], "merge-fields-k"),
        (["fraction", "-f", x], "fraction"), (["fraction", "-f", x, "-p", "-c"], "fraction-pc"),
        (["rank", "-f", x], "rank"), (["rank", "-f", x, "-g", g], "rank-g"),
        (["group-by", x], "group-by"), (["group-like"], "group-like"), (["tac"], "tac"), (["regularize"], "regularize"),
        (["unsparsify"], "unsparsify"), (["unsparsify", "--fill-with", "X"], "unsparsify-fill"),
        # without -a fill-down also fills empty values, i.e. assigns; with -a it only reads (the records all have the key)
        (["fill-down", "-a", "-f", x], "fill-down-a-x"), (["fill-down", "-f", o], "fill-down-o"), (["fill-down", "-a", "-f", o], "fill-down-a-o"),
        (["fill-down", "-a", "--all"], "fill-down-a-all"),
        (["sec2gmt", t], "sec2gmt"), (["sec2gmt", "-3", t], "sec2gmt-3"), (["sec2gmtdate", t], "sec2gmtdate"),
        (["rename", f"{o},O{i}"], "rename"), (["rename", "-r", f"^{o}$,OO{i}"], "rename-r"),
        (["reorder", "-f", o], "reorder"), (["reorder", "-e", "-f", o], "reorder-e"),
        (["nest", "--ivar", ";", "-f", o], "nest-implode"),
        (["nest", "--explode", "--values", "--across-records", "-f", o, "--nested-fs", ";"], "nest-explode-records"),
        (["nest", "--explode", "--values", "--across-fields", "-f", o, "--nested-fs", ";"], "nest-explode-fields"),
        (["having-fields", "--at-least", x], "having-fields"), (["having-fields", "--any-defined", f"{x},{y}"], "having-fields-any"),
        (["cut", "-x", "-f", o], "cut-x"), (["cut", "-x", "-r", "-f", "^zzz"], "cut-x-r"),
        (["grep", "-v", "NOSUCHSTRINGXYZ"], "grep-v"), (["grep", "-i", "-v", "nosuchstringxyz"], "grep-i"),
        (["decimate", "-n", "2"], "decimate"), (["repeat", "-n", "2"], "repeat"), (["tee", "tee2.out"], "tee"),
        (["case", "-u", "-f", o], "case"), (["sub", "-f", o, "p", "b"], "sub"), (["gsub", "-f", o, "[pqr]", "X"], "gsub"),
        (["ssub", "-f", o, ";", "!"], "ssub"), (["json-stringify", "-f", o], "json-stringify"),
        (["shuffle"], "shuffle"), (["bootstrap"], "bootstrap"), (["sample", "-k", "2", "-g", x], "sample"),
        (["head", "-n", "4"], "head"), (["tail", "-n", "4"], "tail"), (["cat"], "cat"), (["cat", "-n"], "cat-n"),
        (["sec2gmt", "-1", t], "sec2gmt-1"), (["label", idf], "label-same"),
        (["skip-trivial-records"], "skip-trivial-records"), (["count-similar", "-g", g], "count-similar-g"),
    ]
    return [(a, tag) for a, tag in C if tag]


def value_class(v):
    try:
        v.encode("utf-8")
    except UnicodeEncodeError:
        return "invalid-utf8"
    if numeric_value(v) is not None:
        return "number"
    if v != v.strip(" ") or v == "":
        return "space-or-empty"
    return "string"


B_NAMES = ["ba", "bb", "bc", "bd", "be", "bf"]


def chain_case(case):
    rng = random.Random(case["seed"])
    tier = case["tier"]
    ifmt = case.get("ifmt") or rng.choice(["dkvp", "dkvp", "csv", "tsv", "xtab", "nidx"])
    ofmt = case.get("ofmt") or rng.choice(["dkvp", "dkvp", "csv", "tsv", "xtab", "nidx", "pprint"])
    flag = case.get("flag") if case.get("flag") is not None else rng.choice(FLAGS)
    pool = [s for s in case["spellings"] if spelling_ok(s, ifmt, "in") and spelling_ok(s, ofmt, "out")]
    res = case_result(_h("a", case["seed"], ifmt, ofmt, flag), nontrivial=False)
    nb = rng.randint(3, 6)
    nrec = rng.choice([1, 2, 3, 5, 8, 13])
    bnames = B_NAMES[:nb]
    layout = ["id", bnames[0], "g", bnames[1], "k", bnames[2], "t", "o"] + bnames[3:]
    recs = []
    for r in range(nrec):
        rec = []
        for f in layout:
            if f == "id":
                v = f"r{r+1}"
            elif f == "g":
                v = rng.choice(["ga", "gb"])
            elif f == "k":
                v = str(rng.randint(-9, 99))
            elif f == "t":
                v = str(rng.randint(0, 2000000000))
            elif f == "o":
                v = rng.choice(["p;q", "r", "s;t;u", "q"])
            elif "" in pool and rng.random() < 0.12:
                v = ""          # empty is where fill-down / unsparsify / null-handling verbs are tempted to assign
            else:
                v = rng.choice(pool)
            rec.append((f, v))
        recs.append(rec)
    # under NIDX input the keys are the positions
    if ifmt == "nidx":
        names = {f: str(i + 1) for i, f in enumerate(layout)}
    else:
        names = {f: f for f in layout}
    xs = rng.sample(bnames, 2)
    N = {"x": names[xs[0]], "y": names[xs[1]], "g": names["g"], "k": names["k"], "t": names["t"], "o": names["o"],
         "id": names["id"]}
    nverbs = rng.choice([1, 1, 2, 3, 4]) if tier == "thorough" else rng.choice([1, 2, 3])
    chain = []
    tags = []
    for i in range(nverbs):
        a, tag = rng.choice(catalogue(rng, N, i))
        if tag in ("put-unset-other", "cut-x", "rename", "rename-r", "nest-explode-fields", "emit-mapexcept") and \
                any(tg in tags for tg in ("put-unset-other", "cut-x", "rename", "rename-r", "nest-explode-fields", "emit-mapexcept")):
            a, tag = (["cat"], "cat")      # the 'other' field can be removed/renamed only once
        if tag == "nest-explode-fields" and ofmt in ("csv", "tsv", "pprint", "nidx"):
            a, tag = (["cat"], "cat")      # makes records heterogeneous; rectangular outputs are C01/C02's subject
        chain += (["then"] if chain else []) + a
        tags.append(tag)
    stdin = write_input(ifmt, [[(k, v) for k, v in r] for r in recs])
    argv = ["--seed", "7"] + ([flag] if flag else []) + IFLAG[ifmt] + OFLAG[ofmt] + chain
    r = R.mlr(argv, stdin=stdin, env=ENV)
    detail = {"argv": argv, "stdin": stdin, "env": ENV}
    bump(res, "runs")
    bump(res, "fmt:" + ifmt + ">" + ofmt)
    bump(res, "flag:" + (flag or "default"))
    if r.verdict in ("slow",):
        res["inconc"] += 1
        return res
    if r.verdict != "exited" or r.rc != 0:
        # the chain rejected the data (non-numeric value for a statistics verb, ...): outside the domain
        res["skipped"] += 1
        bump(res, "rejected:" + "+".join(sorted(set(tags)))[:60])
        if r.crashed():
            bump(res, "crashed_runs")
        return res
    out = parse_output(ofmt, r.out)
    sig_base = {"monitor": "chain", "verbs": "+".join(sorted(set(tags))), "flag": flag or "default", "ifmt": ifmt, "ofmt": ofmt}
    if out is None:
        add_violation(res, dict(sig_base, kind="unparseable-output"), f"output of {' '.join(chain)} is not well-formed {ofmt}",
                      dict(detail, got=r.out[:3000]))
        return res
    byid = {rec[0][1]: rec for rec in recs}
    checked = 0
    nontriv = False
    for orec in out:
        od = {}
        for kk, vv in orec:
            od.setdefault(kk, vv)
        if ofmt == "nidx":
            idv = next((v for _, v in orec if v in byid), None)
        else:
            idv = od.get(N["id"] if ifmt == "nidx" else "id")
        if idv is None or idv not in byid:
            # a record without a recognisable id (end-block emits etc.) carries nothing to compare
            bump(res, "output_records_without_id")
            continue
        irec = byid[idv]
        ibys = [(names[f], v) for f, v in irec if f in bnames]
        if ofmt == "nidx":
            vals = [v for _, v in orec]
            pos = 0
            ok = True
            for kk, v in ibys:
                try:
                    pos = vals.index(v, pos) + 1
                except ValueError:
                    ok = False
                    break
            checked += len(ibys)
            if not ok:
                add_violation(res, dict(sig_base, kind="text"), f"bystander value {v!r} of record {idv} is missing/changed/out of order "
                              f"in NIDX output after {' '.join(chain)}", dict(detail, expected=[v for _, v in ibys], got=vals))
            continue
        okeys = [kk for kk, _ in orec]
        for kk, v in ibys:
            checked += 1
            if noncanonical_number(v):
                nontriv = True
            if kk not in od:
                add_violation(res, dict(sig_base, kind="lost"), f"bystander field {kk} of record {idv} is missing after {' '.join(chain)}",
                              dict(detail, expected=v, got=orec))
            elif od[kk] != v:
                cls = value_class(v)
                add_violation(res, dict(sig_base, kind="text", cls=cls),
                              f"bystander {kk}={v!r} of record {idv} came out as {od[kk]!r} after {' '.join(chain)}"
                              f" ({ifmt}->{ofmt} {flag or 'default'})", dict(detail, expected=v, got=od[kk]))
        want_order = [kk for kk, _ in ibys if kk in od]
        got_order = [kk for kk in okeys if kk in dict(ibys)]
        seen = set()
        got_order = [kk for kk in got_order if not (kk in seen or seen.add(kk))]
        if want_order != got_order:
            add_violation(res, dict(sig_base, kind="order"), f"bystander fields of record {idv} changed relative order after {' '.join(chain)}",
                          dict(detail, expected=want_order, got=got_order))
    bump(res, "bystander_values_checked", checked)
    bump(res, "verbs_used", 0)
    res["stats"]["tags"] = list(set(tags))
    res["nontrivial"] = nontriv and checked > 0
    if checked == 0:
        bump(res, "runs_with_no_carried_record")
    if case.get("sample"):
        res["sample"] = {"monitor": "a", "argv": argv, "stdin": stdin[:400], "bystander_values_checked": checked}
    return res


# ------------------------------------------------------------------------------------------
# (f) mechanism sweep: reading through every builtin must not change the retained text

EXCLUDE_FUNCS = {"system", "exec", "os", "hostname", "version", "systime", "systimeint", "sysntime", "uptime", "upntime",
                 "urand", "urand32", "urandint", "urandrange", "urandelement"}
HOF_FORMS = {
    "apply": ["apply([$x, $y], func(e) {return e . \"\"})", "apply({\"a\": $x}, func(k,v) {return {k: v}})"],
    "select": ["select([$x, $y], func(e) {return e == $x})", "select($*, func(k,v) {return v == $x})"],
    "reduce": ["reduce([$x, $y], func(acc,e) {return acc . e})"],
    "fold": ["fold([$x, $y], func(acc,e) {return acc . e}, \"\")", "fold([1], func(acc,e) {return acc}, $x)"],
    "sort": ["sort([$x, $y])", "sort([$x, $y], \"nr\")", "sort([$x, $y], func(a,b) {return a <=> b})", "sort($*)"],
    "any": ["any([$x, $y], func(e) {return e == 1})"],
    "every": ["every([$x, $y], func(e) {return e == 1})"],
    "sort_by_key": ["sort_by_key($*)"],
    "sort_by_value": ["sort_by_value($*)"],
}
SAFE_FORMS = {
    # functions whose other arguments can make them burn CPU/memory (C18's subject): fixed benign companions
    # leftpad/rightpad with an empty pad string never terminate (seen while building this sweep; C18's subject)
    "leftpad": ["leftpad($x, 5, \"*\")"], "rightpad": ["rightpad($x, 5, \"*\")"],
    # a format taken from data makes strptime panic (known C18 finding): literal formats only
    "strptime": ["strptime($x, \"%Y-%m-%dT%H:%M:%SZ\")", "strptime($x, \"%s\")"],
    "strpntime": ["strpntime($x, \"%Y-%m-%dT%H:%M:%SZ\")"],
    "strptime_local": ["strptime_local($x, \"%Y-%m-%d %H:%M:%S\", \"Asia/Istanbul\")"],
    "strpntime_local": ["strpntime_local($x, \"%Y-%m-%d %H:%M:%S\", \"Asia/Istanbul\")"],
    "format_values": [], "strrepeat": [], "unformat": ["unformat(\"{}:{}\", $x)", "unformat($x, $y)"],
    "unformatx": ["unformatx(\"{}:{}\", $x)"],
    "percentile": ["percentile([$x, $y], 50)", "percentile([1,2,3], $x)"],
    "percentiles": ["percentiles([$x, $y], [25, 75])", "percentiles([1,2,3], [$x])"],
    "sec2gmt": ["sec2gmt($x)", "sec2gmt($x, 3)", "sec2gmt(1, $x)"], "sec2gmtdate": ["sec2gmtdate($x)"],
    "substr": ["substr($x, 0, 1)", "substr(\"hello\", $x, $y)"], "substr0": ["substr0($x, 0, 1)", "substr0(\"hello\", $x, $y)"],
    "substr1": ["substr1($x, 1, 2)", "substr1(\"hello\", $x, $y)"],
    "format": ["format(\"{}:{}\", $x, $y)", "format($x, $y)"], "strfntime": ["strfntime($x, \"%Y\")", "strfntime(1, $x)"],
    "strftime": ["strftime($x, \"%Y-%m-%dT%H:%M:%3SZ\")", "strftime(1, $x)"],
    "strftime_local": ["strftime_local($x, \"%Y\", \"Asia/Istanbul\")", "strftime_local(1, $x, \"Asia/Istanbul\")"],
    "strfntime_local": ["strfntime_local($x, \"%Y\", \"Asia/Istanbul\")"],
    "truncate": ["truncate($x, 2)", "truncate(\"hello\", $x)"],
    "fmtnum": ["fmtnum($x, \"%d\")", "fmtnum($x, \"%.3lf\")", "fmtnum($x, \"%08x\")", "fmtnum(17, $x)"],
    "fmtifnum": ["fmtifnum($x, \"%.3f\")", "fmtifnum(17, $x)"],
    "splitax": ["splitax($x, \".\")", "splitax(\"a.b\", $x)"], "splitnv": ["splitnv($x, \".\")"], "splitnvx": ["splitnvx($x, \".\")"],
    "splitkv": ["splitkv($x, \"=\", \".\")"], "splitkvx": ["splitkvx($x, \"=\", \".\")"], "splita": ["splita($x, \".\")"],
    "gsub": ["gsub($x, \"0\", \"Z\")", "gsub(\"a0\", \"0\", $x)"], "sub": ["sub($x, \"0\", \"Z\")", "sub(\"a0\", \"0\", $x)"],
    "ssub": ["ssub($x, \"0\", \"Z\")", "ssub(\"a0\", $x, $y)"], "gssub": ["gssub($x, \"0\", \"Z\")", "gssub(\"a0\", $x, $y)"],
    "regextract": ["regextract($x, \"[0-9]+\")"], "regextract_or_else": ["regextract_or_else($x, \"[0-9]+\", $y)"],
    "matchx": [], "strmatch": ["strmatch($x, \"[0-9]\")"], "strmatchx": ["strmatchx($x, \"([0-9])\")"],
    "any": HOF_FORMS["any"], "every": HOF_FORMS["every"],
    "index": ["index($x, \"0\")", "index(\"a0\", $x)"], "contains": ["contains($x, \"0\")", "contains(\"a0\", $x)"],
    "latin1_to_utf8": ["latin1_to_utf8($x)"], "utf8_to_latin1": ["utf8_to_latin1($x)"],
    "exec": [], "system": [],
}


# gmt2sec("-007"), gmt2sec("-") ... panic in pbnjay-strptime (slice bounds, strptime.go:273; seen while building this
# sweep, C18's subject): the time-parsing functions are not fed spellings that start with '-'
TIME_PARSERS = {"gmt2sec", "gmt2nsec", "localtime2sec", "localtime2nsec", "localtime2gmt", "gmt2localtime",
                "strptime", "strpntime", "strptime_local", "strpntime_local"}


def function_table():
    """{name: set of arities or 'variadic'} from the binary's own help."""
    r = R.mlr(["help", "usage-functions-by-class"], env=ENV)
    out = {}
    for line in r.out.split("\n"):
        m = re.match(r"^(\S+)\s+\(class=(\S+) #args=([^)]+)\)", line)
        if m and re.match(r"^[a-z_][a-z_0-9]*$", m.group(1)):
            out[m.group(1)] = (m.group(2), m.group(3))
    return out


def forms_for(name, args):
    if name in EXCLUDE_FUNCS:
        return []
    if name in HOF_FORMS:
        return HOF_FORMS[name]
    if name in SAFE_FORMS:
        return SAFE_FORMS[name]
    if name.startswith("asserting_"):
        p = "is_" + name[len("asserting_"):]
        return [f"IF:{p}($x):{name}($x)"]
    forms = []
    ar = set()
    for a in args.split(","):
        a = a.strip()
        if a == "variadic":
            ar |= {1, 2, 3}
        elif a.isdigit():
            ar.add(int(a))
    if 1 in ar:
        forms.append(f"{name}($x)")
    if 2 in ar:
        forms += [f"{name}($x, $y)", f"{name}($x, 1)", f"{name}(1, $x)"]
    if 3 in ar:
        forms += [f"{name}($x, $y, $x)", f"{name}($x, 1, 2)", f"{name}(\"a\", $x, 1)"]
    if 4 in ar:
        forms += [f"{name}($x, $y, $x, $y)", f"{name}($x, 1, 2, 3)"]
    if 5 in ar:
        forms += [f"{name}($x, $y, $x, $y, $x)"]
    return forms


def _sweep_program(form):
    if form.startswith("IF:"):
        _, cond, call = form.split(":", 2)
        return f"if ({cond}) {{ var y = is_error({call}) }}"
    return f"var y = is_error({form})"


def _sweep_run(res, flag, prog, lines):
    stdin = "".join(lines)
    argv = ([flag] if flag else []) + ["put", prog]
    r = R.mlr(argv, stdin=stdin, env=ENV, cpu_s=8, watchdog=40.0)
    bump(res, "processes")
    return r, argv, stdin


def sweep_case(case):
    name, form, flag, sp = case["f"], case["form"], case["flag"], case["spellings"]
    res = case_result(_h("f", form, flag, case["tier"]), nontrivial=False, evals=0)
    prog = _sweep_program(form)
    lines = []
    if name in TIME_PARSERS:
        n0 = len(sp)
        sp = [s for s in sp if not s.startswith("-")]
        res["skipped"] += n0 - len(sp)
    for i, s in enumerate(sp):
        y = sp[(i * 7 + 3) % len(sp)]
        lines.append(f"id={i},x={s},y={y},z=end\n")
    nt = []
    todo = [list(range(len(lines)))]
    tried_single = 0
    failed_single = 0
    while todo:
        idxs = todo.pop()
        r, argv, stdin = _sweep_run(res, flag, prog, [lines[i] for i in idxs])
        if r.verdict in ("slow", "cpu", "output-cap", "deadlock"):
            # resource behaviour of the function itself is C18's subject
            res["skipped"] += len(idxs)
            bump(res, "rows_skipped_resource", len(idxs))
            continue
        if r.rc != 0:
            if len(idxs) == 1:
                res["skipped"] += 1
                tried_single += 1
                failed_single += 1
                bump(res, "rows_rejected")
                if r.crashed():
                    bump(res, "rows_crashed")
                continue
            if len(idxs) == len(lines):
                # does the form reject everything (wrong arity/type for any input)? probe three rows
                probe = [idxs[0], idxs[len(idxs) // 2], idxs[-1]]
                bad = 0
                for i in probe:
                    rr, _, _ = _sweep_run(res, flag, prog, [lines[i]])
                    bad += (rr.rc != 0 or rr.verdict != "exited")
                if bad == 3:
                    res["skipped"] += len(idxs)
                    bump(res, "forms_rejecting_every_row")
                    res["rejected_form"] = form
                    continue
            mid = len(idxs) // 2
            todo.append(idxs[:mid])
            todo.append(idxs[mid:])
            continue
        res["evals"] += len(idxs)
        out = r.out
        if out != stdin and "mlr: " in out:
            # some functions print a diagnostic on STDOUT (fmtnum/fmtifnum with a format lacking '%': fmt.Printf in
            # GetFormatter); it lands in the middle of buffered record text. Reported once per case under its own
            # signature; then removed so that the records themselves are still compared.
            stripped, ndiag = re.subn(r"mlr: [^\n]*\n", "", out)
            if ndiag:
                bump(res, "diagnostic_lines_on_stdout", ndiag)
                if not res.get("diag_reported"):
                    res["diag_reported"] = True
                    m = re.search(r"[^\n]*mlr: [^\n]*\n[^\n]*", out)
                    add_violation(res, {"monitor": "sweep", "f": name, "kind": "diagnostic-on-stdout"},
                                  f"`{prog}` writes a diagnostic to stdout, interleaved with the records: {m.group(0)[:160]!r}",
                                  {"argv": argv, "stdin": stdin[:3000], "env": ENV, "got": m.group(0)})
                out = stripped
        if out == stdin:
            for i in idxs:
                if noncanonical_number(sp[i]):
                    nt.append(_h("f", form, flag, sp[i]))
            bump(res, "rows_identical", len(idxs))
            continue
        olines = out.split("\n")
        ilines = stdin.split("\n")
        reported = 0
        for n, il in enumerate(ilines):
            ol = olines[n] if n < len(olines) else None
            if ol != il and reported < 3:
                reported += 1
                i = idxs[n] if n < len(idxs) else None
                s = sp[i] if i is not None else ""
                add_violation(res, {"monitor": "sweep", "f": name, "kind": "text", "cls": value_class(s), "flag": flag or "default"},
                              f"reading with `{prog}` ({flag or 'default'}) changed the record: in {il!r} out {ol!r}",
                              {"argv": argv, "stdin": il + "\n", "env": ENV, "expected": il, "got": ol})
        if reported == 0:
            add_violation(res, {"monitor": "sweep", "f": name, "kind": "extra-output", "flag": flag or "default"},
                          f"`{prog}` produced extra output", {"argv": argv, "stdin": stdin[:2000], "env": ENV, "got": out[-500:]})
    res["nontrivial_keys"] = nt
    res["nontrivial"] = bool(nt)
    res["stats"]["functions_swept"] = [name] if res["evals"] else []
    if case.get("sample"):
        res["sample"] = {"monitor": "f", "program": prog, "flag": flag, "rows": len(lines), "first_rows": lines[:3]}
    return res


# ------------------------------------------------------------------------------------------
# (j) the documented exception: JSON output re-renders exactly the numerals that are not legal JSON numbers

J_CHAINS = [
    ["cat"], ["sort", "-nr", "x"], ["put", "$n = $x + 1"], ["filter", "is_numeric($x) || true"],
    ["put", "-q", "emit mapsum($*, {})"], ["step", "-a", "shift", "-f", "x"], ["count-similar", "-g", "x"],
    ["put", 'var y = is_error(fmtifnum($x, "%d")); var z = is_error($x . "")'], ["sort", "-f", "x", "then", "tac"],
]
_INFNAN = re.compile(r"[+-]?(inf|infinity|nan)$", re.I)


def json_set():
    S = [s for s in NUMERIC_SPELLINGS + ["abc", "", "-", "a b", " 7", "7 ", "true", "null", "é", "\\", "a\"b", "x" * 50]
         if spelling_ok(s, "dkvp", "in") and not _INFNAN.match(s)]
    seen = set()
    return [s for s in S if not (s in seen or seen.add(s))]


def allowed_values(s, flag=""):
    """Values a re-rendered numeral may denote: the documented readings of the spelling."""
    v = numeric_value(s)
    out = set()
    if v is None:
        return out
    out.add(v)
    u = s.lstrip("+-")
    sign = -1 if s.startswith("-") else 1
    if re.fullmatch(r"0[0-9]+", u):
        try:
            out.add(sign * int(u, 8))         # -O: leading zero means octal
        except ValueError:
            pass
        out.add(float(s))                     # 08, 09 scan as float (flag table)
    if isinstance(v, int) and u[:2].lower() in ("0x", "0b", "0o") and v >= 2 ** 63 and v < 2 ** 64:
        out.add(v - 2 ** 64)                  # 64-bit hex literals are two's complement (reference-main-arithmetic.md)
    if isinstance(v, int) and flag == "-A":
        out = {float(a) for a in out}         # -A casts integers to float: compare as doubles
    return out


def json_case(case):
    chain, flag, S = case["chain"], case["flag"], case["spellings"]
    res = case_result(_h("j", chain, flag), nontrivial=True, evals=0)
    stdin = "".join(f"id=r{i},x={s},tail=0x0F\n" for i, s in enumerate(S))
    argv = ([flag] if flag else []) + ["--idkvp", "--ojson"] + chain
    r = R.mlr(argv, stdin=stdin, env=ENV)
    detail = {"argv": argv, "stdin": stdin, "env": ENV}
    if r.verdict == "slow":
        res["inconc"] += 1
        return res
    if not r.ok:
        res["skipped"] += 1
        return res
    cur = None
    nt = []
    seen_ids = set()
    for line in r.out.split("\n"):
        m = re.match(r'^\s*"(id|x|tail)": (.*?),?$', line)
        if not m:
            continue
        k, tok = m.group(1), m.group(2)
        if k == "id":
            try:
                cur = int(json.loads(tok)[1:])
            except (ValueError, TypeError, IndexError):
                cur = None
            continue
        if cur is None or cur >= len(S):
            continue
        s = S[cur] if k == "x" else "0x0F"
        res["evals"] += 1
        seen_ids.add(cur)
        sig = {"monitor": "json", "flag": flag or "default", "verbs": chain[0]}
        if noncanonical_number(s):
            nt.append(_h("j", chain, flag, s, k))
        if tok.startswith('"'):
            try:
                dec = json.loads(tok)
            except ValueError:
                dec = None
            want = s
            try:
                s.encode("utf-8")
            except UnicodeEncodeError:
                continue          # invalid UTF-8 cannot be a JSON string; C01's subject
            bump(res, "json_strings")
            if dec != want:
                add_violation(res, dict(sig, kind="json-string-changed", cls=value_class(s)),
                              f"--ojson: field {k}={s!r} came out as the string {tok}", dict(detail, expected=s, got=tok))
            continue
        if JSON_NUM.match(s):
            bump(res, "json_verbatim_numerals")
            if tok != s:
                add_violation(res, dict(sig, kind="json-legal-numeral-rewritten", value=s),
                              f"--ojson: {k}={s} is a legal JSON number but came out as {tok}", dict(detail, expected=s, got=tok))
            continue
        bump(res, "json_rerendered_numerals")
        allowed = allowed_values(s, flag)
        if not JSON_NUM.match(tok):
            add_violation(res, dict(sig, kind="json-bare-nonnumber"),
                          f"--ojson: {k}={s!r} came out as the bare token {tok}, which is not a JSON number",
                          dict(detail, expected="a JSON number or a JSON string", got=tok))
            continue
        if not allowed:
            res["skipped"] += 1      # the binary takes it for a number, this monitor's grammar does not: C06's subject
            bump(res, "json_declined_not_in_grammar")
            continue
        tv = numeric_value(tok)

        def eq(t, a):
            if isinstance(a, float) or isinstance(t, float):
                try:
                    return float(t) == float(a)
                except OverflowError:
                    return False
            return t == a
        if not any(eq(tv, a) for a in allowed):
            add_violation(res, dict(sig, kind="json-rerender-value"),
                          f"--ojson: {k}={s} was re-rendered as {tok}, a different number", dict(detail, expected=sorted(map(str, allowed)), got=tok))
    res["nontrivial_keys"] = nt
    if case.get("sample"):
        res["sample"] = {"monitor": "j", "argv": argv, "spellings": len(S), "cells": res["evals"]}
    return res


# ------------------------------------------------------------------------------------------

def run(chk):
    only = getattr(chk, "only", None)
    tier = chk.tier
    q = chk.quick()
    spell = all_spellings(tier, chk.rng("spellings"))
    chk.extra["spellings"] = len(spell)
    chk.extra["spellings_noncanonical_numbers"] = sum(1 for s in spell if noncanonical_number(s))
    chk.rule = ("a: seeded random chains (1-4 verbs from a catalogue of ~130 readers-not-writers) over 1-13 records with 3-6 bystander "
                "fields drawn from the spelling alphabet, input format x non-JSON output format x {default,-S,-A,-O}; f: every builtin "
                "function (arity forms from `mlr help usage-functions-by-class`) x every DKVP-representable spelling, read into a discarded "
                "local; j: fixed spelling set x 9 reading chains x 4 flags under --ojson. Non-trivial = the bystander is a number whose text "
                "is not what Miller prints for that number (0xff, 1.500, +5, 1e5 ...) and the chain/function read it; distinct = by "
                "(monitor, seed / function form / chain, flag, spelling).")
    if not only or "a" in only:
        n = 900 if q else 14000
        cases = [{"seed": f"{chk.seed}/a/{i}", "tier": tier, "spellings": spell if q else spell[:600], "sample": i == 3}
                 for i in range(n)]
        # every input format x every non-JSON output format x every flag at least once
        k = 0
        for ifmt in IFLAG:
            for ofmt in OFLAG:
                for flag in FLAGS:
                    for rep in range(1 if q else 6):
                        cases.append({"seed": f"{chk.seed}/agrid/{k}", "tier": tier, "spellings": spell[:600], "ifmt": ifmt,
                                      "ofmt": ofmt, "flag": flag})
                        k += 1
        results = chk.pmap(chain_case, cases, chunksize=8, label="a chains")
        tags = chk.stats.pop("tags", set())
        chk.extra["chain_verbs_exercised"] = sorted(tags)
        chk.extra["format_pairs_reached"] = sorted(k[4:] for k in chk.stats if k.startswith("fmt:"))
        chk.extra["chain_rejections"] = {k[9:]: v for k, v in chk.stats.items() if k.startswith("rejected:")}
        for k in [k for k in chk.stats if k.startswith(("rejected:", "fmt:"))]:
            chk.stats.pop(k)
    if not only or "f" in only:
        ft = function_table()
        sp = [s for s in spell if spelling_ok(s, "dkvp", "in")]
        cases = []
        nforms = 0
        for idx, (name, (cls, args)) in enumerate(sorted(ft.items())):
            for form in forms_for(name, args):
                nforms += 1
                flags = FLAGS if not q else ["", FLAGS[1 + (idx + chk.seed) % 3]]
                for flag in flags:
                    cases.append({"f": name, "form": form, "flag": flag, "spellings": sp, "tier": tier,
                                  "sample": name == "abs" and flag == ""})
        chk.extra["functions_listed"] = len(ft)
        chk.extra["functions_excluded"] = sorted(n for n, (c, a) in ft.items() if not forms_for(n, a))
        chk.extra["function_forms"] = nforms
        chk.extra["sweep_rows_per_form"] = len(sp)
        results = chk.pmap(sweep_case, cases, chunksize=2, label="f function sweep")
        chk.extra["function_forms_rejecting_every_row"] = sorted({r["rejected_form"] for r in results if r.get("rejected_form")})
        chk.extra["functions_swept"] = len(chk.stats.get("functions_swept", ()))
        chk.stats.pop("functions_swept", None)
    if not only or "j" in only:
        S = json_set()
        cases = [{"chain": ch, "flag": flag, "spellings": S, "sample": ch == ["cat"] and flag == ""}
                 for flag in FLAGS for ch in J_CHAINS]
        chk.pmap(json_case, cases, label="j json exception")
        chk.extra["json_fixed_set"] = len(S)
    chk.assumptions = [
        "non-JSON output and no --ofmt (the statement's two documented re-renderings); JSON is exercised only by monitor j",
        "a spelling is fed to a format only if the format's syntax can carry it as generated: DKVP no ',' CR LF; generated CSV input "
        "unquoted (no ',' '\"' CR, no edge spaces, non-empty); TSV no TAB CR backslash, non-empty; XTAB/NIDX/PPRINT non-empty, no "
        "space/TAB, not '-' (PPRINT's empty marker), not starting with '#'; quoting/escaping round trips are C01's subject",
        "output records are matched to input records by the unique id field; records without it (end-block emits) carry nothing to compare",
        "a chain that exits non-zero rejected the data (e.g. a statistics verb on a non-numeric value): skipped, not judged; crashes and "
        "resource exhaustion are C18's subject and are counted, not judged",
        "NIDX output has no keys: the bystander values must appear as an ordered subsequence of the output record's values",
        "sweep: asserting_X is called only on rows where is_X holds (it aborts by design otherwise); time-parsing functions are not fed "
        "spellings starting with '-' and strptime gets literal formats only (they panic: C18); leftpad/rightpad get a non-empty pad",
        "sweep: lines on stdout that are not records (diagnostics such as fmtnum's 'unhandled format string') are removed before the byte comparison and counted",
        "monitor j: a bare token for a spelling that is a legal JSON number must be the spelling itself; otherwise it must be a JSON number "
        "whose value is one of the documented readings (decimal, hex/binary/octal incl. 64-bit two's complement, leading-zero as octal "
        "under -O or float for 08/09, double under -A); Inf/NaN spellings are excluded (not representable in JSON: C01); invalid UTF-8 excluded",
    ]
