"""C19 - in-place mode never leaves a file half-written.  fault_enumeration:
directory inspection after (1) SIGKILL at every hooked program point (MLR_VERIF_CRASH) incl. after
every n-th written record, (2) SIGKILL at entry of every file-system-relevant system call (strace
injection; hook-free), (3) failures through the normal error path, (4) success."""
import gzip
import hashlib
import os
import random
import re
import shutil
import stat
import zlib

from .. import gen
from .. import run as R
from ..harness import add_violation, bump, case_result

BINARIES = ("mlr-verif", "mlr-plain")
LEVEL = "fault_enumeration"

INPLACE_SITES = ["inplace.begin", "inplace.temp.created", "inplace.streamed", "inplace.wrapped.closed",
                 "inplace.closed", "inplace.renamed", "inplace.chmodded"]
INSIDE_WINDOW = {"inplace.temp.created", "inplace.streamed", "inplace.wrapped.closed", "inplace.closed",
                 "inplace.renamed", "writer.record", "stream.flush"}


def _h(*xs):
    return hashlib.sha1(repr(xs).encode()).hexdigest()[:16]


def make_scenario(seed, tier):
    rng = random.Random(seed)
    fmt = rng.choice(["dkvp", "csv", "json"])
    nfiles = rng.choice([1, 2, 3, 4])
    sizes = [rng.choice([0, 1, 3, 3, 40, 700]) for _ in range(nfiles)]
    if all(s == 0 for s in sizes):
        sizes[0] = 3
    verbs = [["cat"], ["put", "$new = NR . \":\" . FILENAME"], ["sort", "-nr", "i"], ["head", "-n", "2"], ["tac"],
             ["put", "-q", "@c[$a] = $id; end { emit @c, \"a\" }"], ["nothing"], ["cat", "-n"],
             ["put", "begin { @n = 100 } $n = @n + NR"]]
    verb = rng.choice(verbs)
    seedflags = []
    if rng.random() < 0.25:
        # randomised verbs/functions under --seed: each file must equal what the same command prints for it alone
        verb = rng.choice([["shuffle"], ["bootstrap"], ["sample", "-k", "3"], ["put", "$u = urandint(1, 1000000)"], ["filter", "urand() < 0.7"]])
        seedflags = ["--seed", str(rng.choice([1, 7, 12345]))]
    files = []
    for i, n in enumerate(sizes):
        recs = gen.records(random.Random(f"{seed}/f{i}"), n, ragged=0, id_prefix=f"f{i}r")
        if fmt == "dkvp":
            text = gen.dkvp(recs)
        elif fmt == "csv":
            text = gen.csv_simple(recs)
            if rng.random() < 0.2 and text:
                text = text.replace("\n", "\r\n")
        else:
            text = gen.json_text(recs, as_strings=False) if recs else "[\n]\n"
        comp = rng.choice([None, None, None, "gz", "z"])
        name = f"file{i}.{fmt}" + (f".{comp}" if comp else "")
        data = text.encode()
        if comp == "gz":
            data = gzip.compress(data)
        elif comp == "z":
            data = zlib.compress(data)
        # "the file mode is preserved" includes the setuid / setgid / sticky bits (S_IMODE compares all twelve)
        mode = rng.choice([0o644, 0o600, 0o755, 0o444, 0o640, 0o2750, 0o1644, 0o4755, 0o2664, 0o6711])
        files.append({"name": name, "plain": text.encode(), "data": data, "comp": comp, "mode": mode, "n": n})
    flags = {"dkvp": ["--dkvp"], "csv": ["--csv"], "json": ["--json"]}[fmt] + seedflags
    return {"seed": seed, "fmt": fmt, "flags": flags, "verb": verb, "files": files}


def setup_dir(sc):
    cwd = R.new_scratch("vf19-")
    for f in sc["files"]:
        p = os.path.join(cwd, f["name"])
        with open(p, "wb") as fh:
            fh.write(f["data"])
        os.chmod(p, f["mode"])
    return cwd


def expected_outputs(sc):
    """Expected transformed plain text per file = same command without -I on that file alone (mlr-plain)."""
    exp = []
    for f in sc["files"]:
        r = R.mlr(sc["flags"] + sc["verb"] + [f["name"]], files={f["name"]: f["data"]}, binary="mlr-plain")
        if not r.ok:
            return None
        exp.append(r.stdout)
    return exp


def decomp(f, data):
    try:
        if f["comp"] == "gz":
            if not data.startswith(b"\x1f\x8b"):
                return None
            return gzip.decompress(data)
        if f["comp"] == "z":
            return zlib.decompress(data)
    except Exception:
        return None
    return data


def state_of(f, data, exp_plain):
    """-> 'orig' | 'new' | 'other'"""
    d = decomp(f, data)
    is_new = d is not None and d == exp_plain
    if data == f["data"]:
        return "both" if is_new else "orig"
    if is_new:
        return "new"
    return "other"


def inspect(res, sc, cwd, exp, how, killed, detail, sigbase):
    """Directory inspection oracle. killed: True if the process was SIGKILLed (temp files may remain)."""
    names = {f["name"] for f in sc["files"]}
    entries = set(os.listdir(cwd))
    extra = entries - names
    states = []
    for i, f in enumerate(sc["files"]):
        p = os.path.join(cwd, f["name"])
        if not os.path.exists(p):
            add_violation(res, dict(sigbase, kind="file-missing"), f"{how}: named file {f['name']} no longer exists", detail)
            states.append("missing")
            continue
        data = open(p, "rb").read()
        st = state_of(f, data, exp[i])
        states.append(st)
        if st == "other":
            add_violation(res, dict(sigbase, kind="half-written"),
                          f"{how}: {f['name']} is neither its original ({len(f['data'])} B) nor what the same command prints for that file alone: {len(data)} B on disk",
                          dict(detail, on_disk_head=data[:300], file_index=i))
    # prefix property: new* (orig|new) orig*
    seen_orig = False
    for i, st in enumerate(states):
        if st == "orig":
            seen_orig = True
        elif st == "new" and seen_orig:
            # a later file changed although an earlier one is still original
            # (files whose original equals their transformed content are 'both' and never count as original)
            add_violation(res, dict(sigbase, kind="later-file-touched"),
                          f"{how}: file #{i+1} is transformed although an earlier file is still original (states {states})", detail)
            break
    bad_extra = [e for e in extra if not e.startswith("mlr-in-place-")]
    if bad_extra:
        add_violation(res, dict(sigbase, kind="stray-file"), f"{how}: unexpected directory entries {bad_extra}", detail)
    if not killed and extra:
        add_violation(res, dict(sigbase, kind="temp-left-behind"),
                      f"{how}: temporary file(s) {sorted(extra)} left behind after a run that ended through the normal path", detail)
    return states


def crash_case(case):
    """One scenario, all hook crash points (or a seeded subset) + success run."""
    sc = make_scenario(case["seed"], case["tier"])
    res = case_result(_h("crash", case["seed"]), nontrivial=False)
    exp = expected_outputs(sc)
    names = [f["name"] for f in sc["files"]]
    argv = ["-I"] + sc["flags"] + sc["verb"] + names
    if exp is None:
        res["skipped"] += 1
        return res
    # 1. fault-free traced run: success oracle + total hits per site
    cwd = setup_dir(sc)
    try:
        r = R.mlr(argv, cwd=cwd, trace=True)
        detail = {"argv": argv, "scenario_seed": case["seed"], "files": {f["name"]: f["data"][:2000] for f in sc["files"]},
                  "modes": {f["name"]: oct(f["mode"]) for f in sc["files"]}}
        bump(res, "success_runs")
        if r.verdict != "exited" or r.rc != 0:
            if r.verdict == "slow":
                res["inconc"] += 1
            else:
                add_violation(res, {"kind": "success-run-fails", "verb": sc["verb"][0]}, f"fault-free -I run fails rc={r.rc} {r.verdict}: {r.err[:200]}", detail)
            return res
        states = inspect(res, sc, cwd, exp, "after success", False, detail, {"phase": "success", "verb": sc["verb"][0]})
        for i, f in enumerate(sc["files"]):
            p = os.path.join(cwd, f["name"])
            if states[i] == "orig":
                add_violation(res, {"kind": "not-transformed", "phase": "success"}, f"after success {f['name']} still has its original content", detail)
            m = stat.S_IMODE(os.stat(p).st_mode)
            if m != f["mode"]:
                add_violation(res, {"kind": "mode-changed", "phase": "success"},
                              f"after success mode of {f['name']} is {oct(m)}, was {oct(f['mode'])}", detail)
            if f["comp"]:
                data = open(p, "rb").read()
                if decomp(f, data) is None:
                    add_violation(res, {"kind": "not-recompressed", "phase": "success", "comp": f["comp"]},
                                  f"after success {f['name']} is not valid {f['comp']} data", detail)
        hits = {}
        for l in (r.trace or []):
            p = l.split(" ")
            if len(p) >= 3:
                hits[p[1]] = max(hits.get(p[1], 0), int(p[2]))
    finally:
        shutil.rmtree(cwd, ignore_errors=True)
    # 2. crash points
    points = []
    for site in INPLACE_SITES:
        for n in range(1, hits.get(site, 0) + 1):
            points.append((site, n))
    nrec = hits.get("writer.record", 0)
    rec_points = list(range(1, nrec + 1))
    if nrec > 60:
        rng = random.Random(case["seed"] + "/recpts")
        keep = set([1, 2, 3, nrec - 1, nrec] + [k for k in range(1, nrec + 1) if k % 97 == 0] + rng.sample(range(1, nrec + 1), 25))
        rec_points = sorted(keep)
    for n in rec_points:
        points.append(("writer.record", n))
    for n in range(1, hits.get("stream.flush", 0) + 1):
        points.append(("stream.flush", n))
    total_points = len(points)
    if case["tier"] == "quick" and len(points) > 45:
        rng = random.Random(case["seed"] + "/pts")
        fixed = [p for p in points if p[0] != "writer.record"]
        rest = [p for p in points if p[0] == "writer.record"]
        rng.shuffle(rest)
        points = fixed + rest[: max(0, 45 - len(fixed))]
    res["stats"]["crash_points_total"] = total_points
    res["stats"]["crash_points_covered"] = 0
    nt_keys = []
    for site, n in points:
        cwd = setup_dir(sc)
        try:
            r = R.mlr(argv, cwd=cwd, env={"MLR_VERIF_CRASH": f"{site}#{n}"})
            bump(res, "crash_runs")
            detail = {"argv": argv, "env": {"MLR_VERIF_CRASH": f"{site}#{n}"}, "scenario_seed": case["seed"],
                      "files": {f["name"]: f["data"][:2000] for f in sc["files"]}}
            if r.signal != 9:
                # the point was not reached in this run (should not happen: same input, deterministic count)
                res["inconc"] += 1
                continue
            res["stats"]["crash_points_covered"] += 1
            bump(res, "crash_at:" + site)
            inspect(res, sc, cwd, exp, f"after SIGKILL at {site}#{n}", True, detail, {"phase": "crash", "site": site})
            if site in INSIDE_WINDOW:
                nt_keys.append(_h(case["seed"], site, n))
        finally:
            shutil.rmtree(cwd, ignore_errors=True)
    res["nontrivial_keys"] = nt_keys
    res["sample"] = {"monitor": "hook-crash", "argv": argv, "file_sizes": [f["n"] for f in sc["files"]],
                     "crash_points": total_points, "covered": res["stats"]["crash_points_covered"]}
    return res


def syscall_case(case):
    """Hook-free enumerator. For each CLASS of file-system system call separately (so that the few late calls - rename, unlink,
    chmod - are reached deterministically instead of being shadowed by the many writes), SIGKILL at entry of the N-th call of the
    class (per thread), N = 1.. until the run completes; and the same positions with an injected error (EIO / ENOSPC) instead of a
    kill, which must take the normal error path: exit != 0, every file original-or-transformed, no temp file left."""
    sc = make_scenario(case["seed"], case["tier"])
    res = case_result(_h("sys", case["seed"]), nontrivial=False)
    exp = expected_outputs(sc)
    if exp is None:
        res["skipped"] += 1
        return res
    names = [f["name"] for f in sc["files"]]
    argv = ["-I"] + sc["flags"] + sc["verb"] + names
    quick = case["tier"] == "quick"
    classes = [("rename", "renameat,renameat2,rename", 6), ("unlink", "unlinkat,unlink", 6), ("chmod", "fchmodat,chmod,fchmod", 6),
               ("openat", "openat", 12 if quick else 40), ("close", "close", 12 if quick else 40), ("write", "write", 12 if quick else 60)]
    nt_keys = []
    for cname, calls, cap in classes:
        for action in ("kill", "error"):
            if action == "error" and cname in ("openat",):
                continue
            misses = 0
            for N in range(1, cap + 1):
                cwd = setup_dir(sc)
                stlog = cwd + ".strace"
                try:
                    inj = "signal=SIGKILL" if action == "kill" else ("error=ENOSPC" if cname == "write" else "error=EIO")
                    wrapper = ["strace", "-f", "-o", stlog, "-e", f"trace={calls}", "-e", f"inject={calls}:{inj}:when={N}"]
                    r = R.mlr(argv, cwd=cwd, wrapper=wrapper, watchdog=60)
                    bump(res, "syscall_runs")
                    try:
                        injected = b"INJECTED" in open(stlog, "rb").read() if action == "error" else True
                    except OSError:
                        injected = False
                    detail = {"argv": argv, "strace_class": cname, "strace_action": action, "strace_when": N, "scenario_seed": case["seed"],
                              "modes": {f["name"]: oct(f["mode"]) for f in sc["files"]},
                              "files": {f["name"]: f["data"][:2000] for f in sc["files"]}, "rc": r.rc, "stderr": r.err[:300]}
                    if r.verdict == "slow":
                        res["inconc"] += 1
                        continue
                    sig0 = {"phase": "syscall-" + action, "call": cname}
                    if action == "kill":
                        killed = (r.signal == 9) or (r.rc == 137)
                        if not killed:
                            misses += 1
                            if r.rc == 0:
                                inspect(res, sc, cwd, exp, f"{cname} kill N={N} not reached, run completed", False, detail, dict(sig0, reached=False))
                            if misses >= 2:
                                break
                            continue
                        bump(res, "syscall_kill_points")
                        bump(res, "kill_at:" + cname)
                        states = inspect(res, sc, cwd, exp, f"after SIGKILL at entry of {cname} call #{N} (per thread)", True, detail, sig0)
                        if cname in ("rename", "unlink", "chmod") or "new" in states:
                            nt_keys.append(_h(case["seed"], cname, action, N))
                    else:
                        if not injected:
                            misses += 1
                            if misses >= 2:
                                break
                            continue
                        bump(res, "syscall_error_points")
                        # an injected error may hit a call that does not matter (a stderr write, a close of the input): then the run
                        # may legitimately succeed; whatever the exit status, the files must be whole, and exit 0 means all done
                        states = inspect(res, sc, cwd, exp, f"after injected error at {cname} call #{N} (exit {r.rc})", False, detail, sig0)
                        if r.rc == 0 and any(st == "orig" for st in states):
                            add_violation(res, dict(sig0, kind="exit-0-not-transformed"),
                                          f"injected error at {cname} call #{N}: exit 0 but a file still has its original content (states {states})", detail)
                        if r.rc != 0:
                            nt_keys.append(_h(case["seed"], cname, action, N))
                finally:
                    shutil.rmtree(cwd, ignore_errors=True)
                    if os.path.exists(stlog):
                        os.unlink(stlog)
    res["nontrivial_keys"] = nt_keys
    res["sample"] = {"monitor": "syscall-class-enumerator", "argv": argv, "kill_points": res["stats"].get("syscall_kill_points", 0),
                     "error_points": res["stats"].get("syscall_error_points", 0)}
    return res


def failure_case(case):
    """Failures through the normal error path at file index i: earlier files transformed, failing and later files
    original, no temp left."""
    rng = random.Random(case["seed"])
    sc = make_scenario(case["seed"] + "/sc", case["tier"])
    sc["files"] = [f for f in sc["files"]]
    for f in sc["files"]:
        if f["n"] == 0:
            pass
    res = case_result(_h("fail", case["seed"]), nontrivial=False)
    nfiles = len(sc["files"])
    fi = rng.randrange(nfiles)
    kind = rng.choice(["dsl-typed", "dsl-srec", "dsl-asserting", "dsl-nonbool", "malformed", "missing", "schema-change", "enospc",
                       "refuse-prepipe", "refuse-bz2", "refuse-url", "dsl-hof"])
    names = [f["name"] for f in sc["files"]]
    target = sc["files"][fi]
    verb = sc["verb"]
    flags = list(sc["flags"])
    wrapper = None
    expect_fail_at = fi
    env = {}
    tid = None
    if kind.startswith("dsl"):
        if target["n"] == 0 or sc["fmt"] == "json" and False:
            res["skipped"] += 1
            return res
        r_ = rng.randint(1, target["n"])
        tid = f"f{fi}r{r_}"
        stmt = {"dsl-typed": 'int q = "abc"', "dsl-srec": "$* = 3", "dsl-asserting": '$z = asserting_int("x")',
                "dsl-nonbool": 'if ("abc") {$y = 1}', "dsl-hof": "$z = apply([1], func(a,b) {return 1})"}[kind]
        verb = ["put", f'$id == "{tid}" {{ {stmt} }}']
    elif kind == "malformed":
        if sc["fmt"] == "dkvp" or target["n"] == 0 or target["comp"]:
            res["skipped"] += 1
            return res
        if sc["fmt"] == "csv":
            lines = target["plain"].decode().split("\n")
            k = rng.randint(1, target["n"])
            lines[k] = lines[k] + ",extra,extra2"
            bad = "\n".join(lines).encode()
        else:
            bad = target["plain"][: max(3, len(target["plain"]) * rng.randint(30, 90) // 100)]
            if bad.strip() in (b"[", b""):
                res["skipped"] += 1
                return res
        target = dict(target, data=bad, plain=bad)
        sc["files"][fi] = target
    elif kind == "missing":
        names = list(names)
        names[fi] = "NO-SUCH-FILE." + sc["fmt"]
    elif kind == "schema-change":
        if sc["fmt"] != "csv" or target["n"] < 2:
            res["skipped"] += 1
            return res
        r_ = rng.randint(2, target["n"])
        tid = f"f{fi}r{r_}"
        verb = ["put", f'$id == "{tid}" {{ $* = mapsum({{"zz": 1}}, $*) }}']
    elif kind == "enospc":
        pass
    elif kind == "refuse-prepipe":
        flags = flags + ["--prepipe", "cat"]
        expect_fail_at = 0
    elif kind == "refuse-bz2":
        names = list(names)
        bzname = f"file{fi}.{sc['fmt']}.bz2"
        import bz2 as _bz2
        sc["files"][fi] = dict(target, name=bzname, data=_bz2.compress(target["plain"]), comp=None)
        names[fi] = bzname
    elif kind == "refuse-url":
        names = list(names)
        names[fi] = "http://localhost:1/x.csv"
    # expectations
    exp = []
    for i, f in enumerate(sc["files"]):
        r0 = R.mlr(flags[: len(sc["flags"])] + verb + [f["name"]], files={f["name"]: f["data"]}, binary="mlr-plain")
        exp.append(r0.stdout if r0.ok else None)
    argv = ["-I"] + flags + verb + names
    cwd = setup_dir(sc)
    try:
        if kind == "enospc":
            when = rng.randint(1, 6)
            wrapper = ["strace", "-f", "-o", "/dev/null", "-e", "trace=write", "-e", f"inject=write:error=ENOSPC:when={when}"]
            # only writes to regular files inside cwd are of interest, but -P cannot name the temp file in advance:
            # inject on the when-th write of each thread; stderr writes may be hit too (harmless)
        r = R.mlr(argv, cwd=cwd, env=env, wrapper=wrapper)
        bump(res, "failure_runs")
        bump(res, "failure_kind:" + kind)
        detail = {"argv": argv, "kind": kind, "file_index": fi, "scenario_seed": case["seed"],
                  "files": {f["name"]: f["data"][:3000] for f in sc["files"]}, "stderr": r.err[:500], "rc": r.rc}
        sigbase = {"phase": "failure", "fault": kind}
        if r.verdict == "slow":
            res["inconc"] += 1
            return res
        if r.verdict == "deadlock":
            add_violation(res, dict(sigbase, kind="deadlock", blocked="|".join(r.hang_sig or [])), f"-I run with {kind} deadlocks", dict(detail, dump=(r.dump or "")[-3000:]))
            return res
        if kind == "enospc" and r.rc == 0:
            # injection hit nothing that mattered (e.g. only a stderr write or no write by that thread)
            res["skipped"] += 1
            return res
        if r.rc == 0:
            add_violation(res, dict(sigbase, kind="exit-0"), f"-I run with fault {kind} at file #{fi+1} exits 0", detail)
        names_on_disk = {f["name"] for f in sc["files"]}
        entries = set(os.listdir(cwd))
        extra = entries - names_on_disk
        if extra:
            direct_exit = kind in ("dsl-asserting", "dsl-hof")
            add_violation(res, dict(sigbase, kind="temp-left-behind", direct_exit=direct_exit),
                          f"-I run failing with {kind} (exit {r.rc}) leaves {sorted(extra)} behind", detail)
        for i, f in enumerate(sc["files"]):
            p = os.path.join(cwd, f["name"])
            if not os.path.exists(p):
                if names[i] != f["name"]:
                    continue
                add_violation(res, dict(sigbase, kind="file-missing"), f"{f['name']} vanished after failing -I run", detail)
                continue
            data = open(p, "rb").read()
            is_orig = data == f["data"]
            is_new = exp[i] is not None and decomp(f, data) == exp[i]
            if kind == "enospc":
                if not (is_orig or is_new):
                    add_violation(res, dict(sigbase, kind="half-written"), f"after ENOSPC {f['name']} is neither original nor transformed", detail)
                continue
            if i < expect_fail_at and names[i] == f["name"]:
                if not is_new:
                    add_violation(res, dict(sigbase, kind="earlier-file-not-done"),
                                  f"file #{i+1} precedes the failing file #{fi+1} but is not completely transformed", detail)
            else:
                if not is_orig:
                    add_violation(res, dict(sigbase, kind="failing-or-later-file-modified"),
                                  f"file #{i+1} ({f['name']}) was modified although the failure occurred at file #{expect_fail_at+1}", detail)
        res["nontrivial"] = fi >= 1 or kind.startswith("refuse")
        res["sample"] = {"monitor": "failure-path", "argv": argv, "kind": kind, "file_index": fi, "rc": r.rc}
    finally:
        shutil.rmtree(cwd, ignore_errors=True)
    return res


def fsize_case(case):
    """Output-write faults by file-size limit (EFBIG): the write that fails may be an ordinary one, the final flush, or
    the compressor's trailer at close. Either the run succeeds completely or it fails with every file original-or-transformed,
    the prefix property, and no temp file; exit 0 with anything else on disk is the violation."""
    rng = random.Random(case["seed"])
    sc = make_scenario(case["seed"] + "/sc", case["tier"])
    # make sure there is something big enough to hit the limits, compressed or not
    fmt = sc["fmt"]
    big = []
    for i in range(rng.choice([1, 2])):
        recs = gen.records(random.Random(f"{case['seed']}/big{i}"), rng.choice([300, 700, 1500]), ragged=0, id_prefix=f"b{i}r")
        text = {"dkvp": gen.dkvp, "csv": gen.csv_simple}.get(fmt, lambda r: gen.json_text(r, as_strings=False))(recs)
        comp = rng.choice(["gz", "z", "gz", None])
        data = text.encode()
        if comp == "gz":
            data = gzip.compress(data)
        elif comp == "z":
            data = zlib.compress(data)
        big.append({"name": f"big{i}.{fmt}" + (f".{comp}" if comp else ""), "plain": text.encode(), "data": data, "comp": comp,
                    "mode": 0o644, "n": len(recs)})
    pos = rng.randrange(len(sc["files"]) + 1)
    sc["files"] = sc["files"][:pos] + big + sc["files"][pos:]
    res = case_result(_h("fsize", case["seed"]), nontrivial=False)
    exp = expected_outputs(sc)
    if exp is None:
        res["skipped"] += 1
        return res
    names = [f["name"] for f in sc["files"]]
    argv = ["-I"] + sc["flags"] + sc["verb"] + names
    nt = []
    for limit in case["limits"]:
        cwd = setup_dir(sc)
        try:
            r = R.mlr(argv, cwd=cwd, fsize=limit)
            bump(res, "fsize_runs")
            detail = {"argv": argv, "rlimit_fsize": limit, "scenario_seed": case["seed"], "rc": r.rc, "stderr": r.err[:300],
                      "files": {f["name"]: f["data"][:1500] for f in sc["files"]}}
            if r.verdict == "slow":
                res["inconc"] += 1
                continue
            if r.verdict == "deadlock":
                add_violation(res, {"phase": "fsize", "kind": "deadlock"}, f"-I under RLIMIT_FSIZE={limit} deadlocks", dict(detail, dump=(r.dump or "")[-3000:]))
                continue
            if r.signal is not None:
                # SIGXFSZ if the runtime does not ignore it: a crash-like stop; files must still be whole
                inspect(res, sc, cwd, exp, f"killed by signal {r.signal} under RLIMIT_FSIZE={limit}", True, detail, {"phase": "fsize-signal"})
                continue
            states = inspect(res, sc, cwd, exp, f"after exit {r.rc} under RLIMIT_FSIZE={limit}", False, detail, {"phase": "fsize", "rc0": r.rc == 0})
            if r.rc == 0:
                bump(res, "fsize_runs_succeeded")
                if any(st == "orig" for st in states):
                    add_violation(res, {"phase": "fsize", "kind": "exit-0-not-transformed"}, f"exit 0 under RLIMIT_FSIZE={limit} but a file still has its original content (states {states})", detail)
            else:
                bump(res, "fsize_runs_failed")
                nt.append(_h(case["seed"], limit))
                if not r.err.strip():
                    add_violation(res, {"phase": "fsize", "kind": "no-diagnostic"}, f"exit {r.rc} under RLIMIT_FSIZE={limit} with empty stderr", detail)
        finally:
            shutil.rmtree(cwd, ignore_errors=True)
    res["nontrivial_keys"] = nt
    res["sample"] = {"monitor": "fsize-fault", "argv": argv, "limits": case["limits"]}
    return res


def run(chk):
    only = getattr(chk, "only", None)
    q = chk.quick()
    chk.rule = ("scenarios = (1-4 files of 0/1/3/40/700 records, csv/json/dkvp, optional .gz/.z, modes 0644/0600/0755/0444/0640) x verb; "
                "hook enumerator: SIGKILL at every hit of every inplace.* site, at writer.record#n (all n on small files, boundary + sampled n on large) "
                "and stream.flush#n; syscall enumerator: per class of call (rename, unlink, chmod, openat, close, write) SIGKILL at entry of the N-th call, N=1.. "
                "until the run completes, and the same positions with an injected EIO/ENOSPC; write faults: RLIMIT_FSIZE at 9-17 sizes so that an ordinary write, the final flush or the compressor trailer fails; failure paths: DSL error / malformed input / missing file / schema change / ENOSPC / refusals at file index i. "
                "Non-trivial = kill strictly inside the temp-file window, or failure at file index >= 2; distinct = (scenario, site, n)")
    if not only or "crash" in only:
        n = 20 if q else 300
        chk.pmap(crash_case, [{"seed": f"{chk.seed}/crash/{i}", "tier": chk.tier} for i in range(n)], label="hook crash points")
    if not only or "sys" in only:
        n = 6 if q else 100
        chk.pmap(syscall_case, [{"seed": f"{chk.seed}/sys/{i}", "tier": chk.tier} for i in range(n)], label="syscall crash points")
    if not only or "fail" in only:
        n = 200 if q else 5000
        chk.pmap(failure_case, [{"seed": f"{chk.seed}/fail/{i}", "tier": chk.tier} for i in range(n)], label="failure paths")
    if not only or "fsize" in only:
        n = 20 if q else 400
        limits = [256, 1024, 2048, 4096, 8192, 12288, 16384, 32768, 65536] if q else [256, 512, 1024, 1536, 2048, 3072, 4096, 6144, 8192, 10240, 12288, 16384, 24576, 32768, 49152, 65536, 131072]
        chk.pmap(fsize_case, [{"seed": f"{chk.seed}/fsize/{i}", "tier": chk.tier, "limits": limits} for i in range(n)], label="write faults by file-size limit")
    chk.extra["crash_points_covered_of_total"] = [chk.stats.get("crash_points_covered", 0), chk.stats.get("crash_points_total", 0)]
    chk.assumptions = [
        "process crashes only (SIGKILL): the file system changes only at system calls; power loss / fsync durability is out of the statement",
        "expected transformed content = output of the same command without -I on that file alone, from the guard-off binary",
        "a non-existent file is detected when its turn comes: earlier files are transformed, later ones untouched (statement: files after the failing one untouched)",
        "ENOSPC injection is per-thread write count; a run where the injection hit nothing relevant is skipped, not held",
    ]
