"""C16 - time conversion functions agree with the Gregorian/IANA calendar.

Monitors (DESIGN.md section 3, C16); every one drives the real binary with batches of rows
(one JSON record per input) and compares with vf/model/timeref.py:
  gmt      sec2gmt (0-9 decimals), sec2gmtdate, nsec2gmt, nsec2gmtdate, gmt2sec, gmt2nsec + round trips
  fmt      strftime / strfntime, every documented %-code alone, composites, random concatenations
  parse    strptime / strpntime on model-made texts, %z offsets, fractional forms, strptime(strftime(t,f),f) == t
  local    *_local / sec2local* / nsec2local* / gmt2localtime / localtime2* with the zone as argument,
           dense around every transition of 12 zones (table era, LMT era before it, footer-rule era after it), gaps and overlaps
  sel      --tz / TZ / ENV["TZ"] / argument select the zone (precedence), GMT functions unaffected
  dhms     sec2dhms fsec2dhms sec2hms fsec2hms and their inverses incl. negatives
  datediff spreadsheet DATEDIF model on the leap-day / month-end / year-end pool and random pairs
  verb     sec2gmt / sec2gmtdate verbs vs functions vs calendar (ints, floats, float unit counts); non-numeric values unchanged
  chain    2-3 time verbs (put / filter / sec2gmt / sec2gmtdate, each with formats and zones of its own) in one then-chain over
           >= 3 record batches: every cell against the model, and under the race binary no data race inside Miller
  nonnum   functions whose help says "Leaves non-numbers as-is"
  doc      worked examples of `mlr help function <f>` and the self-contained blocks of reference-dsl-time.md
"""
import hashlib
import html
import json
import math
import random
import re
import shlex
from fractions import Fraction

from .. import run as R
from ..harness import add_violation, bump, case_result
from ..model import timeref as T

BINARIES = ("mlr-verif", "mlr-race")
LEVEL = "exploration"
DOC_TIME = "/repo/docs/src/reference-dsl-time.md"
G = 10 ** 9


def _h(*xs):
    return hashlib.sha1(repr(xs).encode()).hexdigest()[:14]


class Raw(str):
    """text emitted bare (unquoted) into the JSON input: a number spelled exactly as given"""


def _jrow(d):
    parts = []
    for k, v in d.items():
        if v is None:
            continue
        if isinstance(v, Raw):
            parts.append(json.dumps(k) + ": " + str(v))
        elif isinstance(v, bool):
            parts.append(json.dumps(k) + ": " + ("true" if v else "false"))
        elif isinstance(v, int):
            parts.append(json.dumps(k) + ": " + str(v))
        else:
            parts.append(json.dumps(k) + ": " + json.dumps(v))
    return "{" + ", ".join(parts) + "}"


_ERR_RX = re.compile(r'(?m)^(\s*"(?:[^"\\]|\\.)*": )\(error\)(,?)$')     # mlr prints error values bare in JSON


def _stdin(rows):
    return "[\n" + ",\n".join(_jrow(r) for r in rows) + "\n]\n"


def _exec(res, flags, prog, rows, env=None, pre=()):
    """Run `mlr <flags> --ijson --ojson [pre verbs then] put prog` over rows; -> list parallel to rows of
    output dicts (values as text), or {'__dead__': brief} for a row whose process died, or None
    (inconclusive).  A batch whose process dies is bisected so that one bad input cannot hide the rest."""
    argv = list(flags) + ["--ijson", "--ojson"] + list(pre) + ["put", prog]
    out = [None] * len(rows)

    def go(lo, hi):
        r = R.mlr(argv, stdin=_stdin(rows[lo:hi]), env=env or {})
        bump(res, "processes")
        if r.verdict == "slow":
            res["inconc"] += hi - lo
            return
        recs = None
        if r.verdict == "exited" and r.rc == 0:
            try:
                recs = json.loads(_ERR_RX.sub(r'\1"(error)"\2', r.out), parse_float=str, parse_int=str) if r.out.strip() else []
            except ValueError:
                recs = None
        if recs is not None and len(recs) == hi - lo:
            for k, rec in enumerate(recs):
                out[lo + k] = rec
            return
        if hi - lo == 1:
            out[lo] = {"__dead__": r.brief(600)}
            return
        mid = (lo + hi) // 2
        go(lo, mid)
        go(mid, hi)
    if rows:
        go(0, len(rows))
    return argv, out


def _detail(argv, row, env=None, **kw):
    d = {"argv": argv, "stdin": _stdin([row]), "env": env or {}}
    d.update(kw)
    return d


def _dead(res, mon, argv, row, rec, env=None):
    if rec is not None and "__dead__" in rec:
        b = rec["__dead__"]
        add_violation(res, {"kind": "crash", "monitor": mon},
                      f"{mon}: mlr died (rc={b['rc']} signal={b['signal']} {b['verdict']}) on a well-formed time input: {b['stderr'][:160]!r}",
                      _detail(argv, row, env, got=b))
        return True
    return rec is None


def _num(text):
    """numeric text printed by mlr -> Fraction, or None"""
    if text is None or isinstance(text, (dict, list)):
        return None
    try:
        return Fraction(str(text))
    except (ValueError, ZeroDivisionError):
        try:
            f = float(str(text))
        except ValueError:
            return None
        if f != f or f in (float("inf"), float("-inf")):
            return None
        return Fraction(f)


def _range_class(sec):
    if not T.in_range(sec):
        return "outside-years-1-9999"
    if not T.in_i64ns(sec):
        return "outside-int64ns"
    return "inside-int64ns" if abs(sec) * G < 2 ** 62 else "int64ns-upper-half"


# ==========================================================================================
# instants

def _leap(y):
    return y % 4 == 0 and (y % 100 != 0 or y % 400 == 0)


BOUNDARY_YEARS = (1, 4, 100, 400, 1600, 1700, 1900, 1970, 2000, 2024, 2100, 9999)


def boundary_instants():
    out = []
    for y in BOUNDARY_YEARS:
        days = [(y, 1, 1), (y, 2, 28), (y, 3, 1), (y, 12, 31)] + ([(y, 2, 29)] if _leap(y) else [])
        for ymd in days:
            base = T.naive_to_sec(*ymd)
            for off in (-1, 0, 1, 43200, 86399, 86400):
                out.append(base + off)
    out += [-2, -1, 0, 1, 2, 59, 60, 61, 3599, 3600, 86399, 86400]
    out += [-9223372037, -9223372036, -9223372035, 9223372035, 9223372036, 9223372037]
    out += [2 ** 31 - 1, 2 ** 31, -2 ** 31 - 1, -2 ** 31, 2 ** 32, 2 ** 32 - 1, 10 ** 9, 1500000000]
    out += [T.MIN_SEC, T.MIN_SEC + 1, T.MAX_SEC - 1, T.MAX_SEC]
    seen = set()
    res = []
    for t in out:
        if T.in_range(t) and t not in seen:
            seen.add(t)
            res.append(t)
    return res


_SPECIAL_DAYS = None


def nontrivial_instant(sec, ns=0, zone=None):
    """within 2 days of a leap day, a year end, a zone transition or the epoch, or negative, or fractional"""
    if sec < 0 or ns != 0 or abs(sec) <= 2 * 86400:
        return True
    b = T.broken_utc(sec)
    if b is None:
        return False
    if (b.m == 12 and b.d >= 30) or (b.m == 1 and b.d <= 2):
        return True
    if (b.m == 2 and b.d >= 27) or (b.m == 3 and b.d <= 2):
        return True
    if zone and T.near_transition(sec, zone):
        return True
    return False


FRACS = (0, 1, 499999999, 500000000, 999999999)


def rand_frac(rng):
    c = rng.random()
    if c < 0.45:
        return rng.choice(FRACS)
    if c < 0.6:
        return rng.randrange(512) * 1953125          # k/512: exact in binary and in ns
    if c < 0.8:
        return rng.randrange(1000) * 1000000         # milliseconds
    return rng.randrange(G)


def float_text(sec, ns, rng=None):
    tot = sec * G + ns
    a = abs(tot)
    s = "%d.%09d" % (a // G, a % G)
    if rng is not None and rng.random() < 0.5:
        s = s.rstrip("0")
        if s.endswith("."):
            s += "0"
    return Raw(("-" if tot < 0 else "") + s)


def instant_rows(rng, n_random, lo=T.MIN_SEC, hi=T.MAX_SEC, with_boundary=True):
    """[(sec, ns)]"""
    out = []
    if with_boundary:
        for t in boundary_instants():
            if lo <= t <= hi:
                out.append((t, 0))
                out.append((t, rng.choice(FRACS[1:])))
    for _ in range(n_random):
        c = rng.random()
        if c < 0.5:
            t = rng.randint(lo, hi)
        elif c < 0.75:
            t = rng.randint(max(lo, -9223372036), min(hi, 9223372035))
        elif c < 0.9:
            t = rng.randint(max(lo, -2 ** 31), min(hi, 2 ** 32))
        else:
            # near a leap day / year end of a random year
            y = rng.randint(1, 9999)
            ymd = rng.choice([(y, 2, 28), (y, 3, 1), (y, 12, 31), (y, 1, 1)])
            t = min(hi, max(lo, T.naive_to_sec(*ymd) + rng.choice([-1, 0, 1, 86399, 86400, rng.randrange(86400)])))
        out.append((t, rand_frac(rng)))
    return out


# ==========================================================================================
# gmt: fixed-format GMT functions

GMT_PROG = '''
$a0 = sec2gmt($t);
$an = sec2gmt($t, $n);
$ad = sec2gmtdate($t);
if (is_present($ns)) {
  $b0 = nsec2gmt($ns);
  $bn = nsec2gmt($ns, $n);
  $bd = nsec2gmtdate($ns);
  $rn = gmt2nsec(nsec2gmt($ns));
  $gn = gmt2nsec($txt);
}
$c0 = sec2gmt($f);
$cn = sec2gmt($f, $n);
$cd = sec2gmtdate($f);
$g = gmt2sec($txt);
$gf = gmt2sec($txtn);
$rt = gmt2sec(sec2gmt($t));
'''


def _fsig(x, mon, func, cul, nxt, lit, prev, piece, multi=False):
    """signature of one wrong strftime conversion; for the abbreviated names also whether the text printed is the constant
    Mon / Jan (the output class of C16-F4)"""
    sig = dict(x, kind="format", monitor=mon, func=func, code=cul, next=nxt, lit=lit, prev=prev)
    if cul in ("%a", "%b", "%h"):
        k = "Mon" if cul == "%a" else "Jan"
        sig["const"] = piece == k or (multi and piece.endswith(k))      # with other wrong pieces around, the cut before it is not unique
    return sig


def _cmp_text(res, mon, func, got, expected, argv, row, env=None, extra=None, what=None):
    """expected: a text or a collection of acceptable texts"""
    exp = [expected] if isinstance(expected, str) else list(expected)
    bump(res, "checks")
    bump(res, "f:" + func)
    if got in exp:
        return True
    sig = {"kind": "value", "monitor": mon, "func": func}
    if extra:
        sig.update(extra)
    add_violation(res, sig, what or f"{func}: got {got!r}, the calendar says {exp[0]!r}",
                  _detail(argv, row, env, expected=exp, got=got, func=func))
    return False


def _cmp_num(res, mon, func, got, expected, argv, row, env=None, extra=None, tol=0):
    bump(res, "checks")
    bump(res, "f:" + func)
    g = _num(got)
    exps = expected if isinstance(expected, (list, tuple)) else [expected]
    if g is not None and any(abs(g - e) <= tol for e in exps):
        # an instant that is a whole number of seconds / nanoseconds, obtained without any fractional input, is documented
        # as an int (gmt2sec("2001-02-03T04:05:06Z") = 981173106, strptime(...) = 14400): the text must be that integer
        if tol == 0 and all(Fraction(e).denominator == 1 for e in exps) and not re.fullmatch(r"-?\d+", str(got)):
            sig = {"kind": "int-text", "monitor": mon, "func": func}
            add_violation(res, sig, f"{func}: the value {got!r} is right but is not printed as the integer {int(g)}",
                          _detail(argv, row, env, expected=[str(e) for e in exps], got=got, func=func))
            return False
        return True
    sig = {"kind": "parse", "monitor": mon, "func": func}
    if extra:
        sig.update(extra)
    e0 = Fraction(exps[0])
    sig["error"] = got == "(error)"
    sig["near"] = g is not None and abs(g - e0) < Fraction(1, 10 ** 5)
    wrap = False
    if g is not None and not sig["near"]:
        d = (g - e0) * G
        k = round(d / 2 ** 64)
        wrap = k != 0 and abs(d - k * 2 ** 64) < 10 ** 7       # off by a multiple of 2^64 ns (float noise allowed)
    sig["wrap"] = wrap
    add_violation(res, sig, f"{func}: got {got!r}, expected {' or '.join(str(float(e)) if e.denominator != 1 else str(e.numerator) for e in map(Fraction, exps))}",
                  _detail(argv, row, env, expected=[str(e) for e in exps], got=got, func=func))
    return False


def _ftol(x):
    """tolerance for a value that travels through float64 seconds"""
    return Fraction(max(1e-6, 4 * math.ulp(abs(float(x)) or 1.0)))


def gmt_case(case):
    rng = random.Random(case["seed"])
    res = case_result(_h("gmt", case["seed"]))
    inst = instant_rows(rng, case["n"], with_boundary=case["boundary"])
    rows = []
    for i, (t, ns) in enumerate(inst):
        n = rng.randrange(10)
        b = T.broken_utc(t, ns)
        row = {"i": i, "t": t, "n": n, "f": float_text(t, ns, rng), "txt": T.iso_gmt(b), "txtn": T.iso_gmt(b, n)}
        if T.in_i64ns(t):
            row["ns"] = t * G + ns
        rows.append(row)
    argv, outs = _exec(res, [], GMT_PROG, rows)
    nk = []
    for row, rec in zip(rows, outs):
        if _dead(res, "gmt", argv, row, rec):
            continue
        t, n = row["t"], row["n"]
        ns = inst[row["i"]][1]
        rc = _range_class(t)
        b0 = T.broken_utc(t, 0)
        b = T.broken_utc(t, ns)
        x = {"range": rc}
        _cmp_text(res, "gmt", "sec2gmt/1", rec.get("a0"), T.iso_gmt(b0), argv, row, extra=x)
        _cmp_text(res, "gmt", "sec2gmt/2", rec.get("an"), T.iso_gmt(b0, n), argv, row, extra=x)
        _cmp_text(res, "gmt", "sec2gmtdate", rec.get("ad"), T.ymd_text(b0), argv, row, extra=x)
        if "ns" in row:
            _cmp_text(res, "gmt", "nsec2gmt/1", rec.get("b0"), T.iso_gmt(b), argv, row, extra=x)
            _cmp_text(res, "gmt", "nsec2gmt/2", rec.get("bn"), T.iso_gmt(b, n), argv, row, extra=x)
            _cmp_text(res, "gmt", "nsec2gmtdate", rec.get("bd"), T.ymd_text(b), argv, row, extra=x)
            _cmp_num(res, "gmt", "gmt2nsec(nsec2gmt)", rec.get("rn"), Fraction(t * G), argv, row, extra=x)
            _cmp_num(res, "gmt", "gmt2nsec", rec.get("gn"), Fraction(t * G), argv, row, extra=x)
        cands = [T.broken_utc(s, f) for (s, f) in T.float_candidates(row["f"])]
        if all(c is not None for c in cands):
            _cmp_text(res, "gmt", "sec2gmt/1(float)", rec.get("c0"), {T.iso_gmt(c) for c in cands}, argv, row, extra=x)
            _cmp_text(res, "gmt", "sec2gmt/2(float)", rec.get("cn"), {T.iso_gmt(c, n) for c in cands}, argv, row, extra=x)
            _cmp_text(res, "gmt", "sec2gmtdate(float)", rec.get("cd"), {T.ymd_text(c) for c in cands}, argv, row, extra=x)
        else:
            res["skipped"] += 1
        _cmp_num(res, "gmt", "gmt2sec", rec.get("g"), Fraction(t), argv, row, extra=x)
        _cmp_num(res, "gmt", "gmt2sec(sec2gmt)", rec.get("rt"), Fraction(t), argv, row, extra=x)
        expf = Fraction(t) + Fraction(int(("%09d" % ns)[:n] or "0"), 10 ** n)
        _cmp_num(res, "gmt", "gmt2sec(fractional)", rec.get("gf"), expf, argv, row, extra=x, tol=_ftol(expf) if n else 0)
        if nontrivial_instant(t, ns):
            nk.append(_h("gmt", t, ns, n))
    res["nontrivial_keys"] = nk
    res["nontrivial"] = bool(nk)
    res["evals"] = len(rows)
    if rows:
        res["sample"] = {"monitor": "gmt", "row": rows[0], "program": GMT_PROG.strip().split("\n")[:3]}
    return res


# ==========================================================================================
# fmt: strftime / strfntime with a per-row format

FMT_PROG = '''
$s = strftime($t, $fmt);
if (is_present($ns)) { $sn = strfntime($ns, $fmt); }
$sf = strftime($f, $fmt);
'''

LITS = [" ", "-", ":", "/", "T", "Z", ".", ", ", "x", "[", "]", "@", "é", "_", "=", "h", ""]
COMPOSITES = ["%Y-%m-%dT%H:%M:%SZ", "%Y-%m-%d %H:%M:%S", "%FT%TZ", "%Y-%m-%dT%H:%M:%3SZ", "%Y-%m-%dT%H:%M:%6SZ",
              "%Y-%m-%dT%H:%M:%9SZ", "%A, %B %e, %Y", "%I:%M %p", "%Y-%m-%d %H:%M:%S %Z", "%Y-%m-%d %H:%M:%S %z",
              "%Y%m%d%H%M%S", "%d/%b/%Y:%H:%M:%S %z", "%a %b %e %H:%M:%S %Z %Y", "%j %Y", "%s.%N", "%Y-%j", "%y%m%d",
              "%m/%d/%Y %l:%M %p", "%C%y", "%U %W %V %u %w", "%1S %2S %3S %4S %5S %6S %7S %8S %9S",
              "%N %O", "%D %R", "%v %X", "%x %r", "%c", "%%Y %%%Y", "%H%%"]


def codes_for(side):
    ff, pp = T.documented_codes(DOC_TIME)
    if side == "f":
        return sorted(c for c in ff if c in T.MODEL_CODES), sorted(c for c in ff if c not in T.MODEL_CODES)
    return sorted(pp), []


def rand_format(rng, codes):
    k = rng.randint(2, 6)
    s = rng.choice(["", "", "[", "t="])
    for j in range(k):
        s += "%" + rng.choice(codes)
        if j < k - 1:
            s += rng.choice(LITS)
    return s + rng.choice(["", "", "Z", "]"])


def fmt_case(case):
    rng = random.Random(case["seed"])
    res = case_result(_h("fmt", case["seed"]))
    codes = case["codes"]
    inst = instant_rows(rng, case["n"], with_boundary=case["boundary"])
    fmts = ["%" + c for c in codes] + [f for f in COMPOSITES]
    rows = []
    for i, (t, ns) in enumerate(inst):
        if case["mode"] == "single":
            fmt = fmts[(i + case["part"]) % len(fmts)]
        elif case["mode"] == "all":
            fmt = " ".join("%" + c for c in codes if c not in ("n", "t"))
        else:
            fmt = rand_format(rng, codes) if rng.random() < 0.8 else rng.choice(COMPOSITES)
        row = {"i": i, "t": t, "f": float_text(t, ns, rng), "fmt": fmt}
        if T.in_i64ns(t):
            row["ns"] = t * G + ns
        rows.append(row)
    argv, outs = _exec(res, [], FMT_PROG, rows)
    nk = []
    for row, rec in zip(rows, outs):
        if _dead(res, "fmt", argv, row, rec):
            continue
        t = row["t"]
        ns = inst[row["i"]][1]
        fmt = row["fmt"]
        x = {"range": _range_class(t)}
        for c in set(k for kind, k in T.tokenize(fmt) if kind == "code"):
            bump(res, "code:%" + c)

        def judge(func, got, bs):
            exps = [T.strftime(fmt, b) for b in bs]
            bump(res, "checks")
            bump(res, "f:" + func)
            if got in exps:
                return
            gs = got if isinstance(got, str) else ""
            k = 0
            if len(bs) > 1:          # float input: name the failure against the candidate instant that explains most pieces
                sc = [sum(1 for _, p_ in T.strftime_pieces(fmt, bs[j]) if p_ in gs) for j in range(len(bs))]
                top = [j for j in range(len(bs)) if sc[j] == max(sc)]
                k = top[0] if len(top) == 1 else min(top, key=lambda j: (len(T.culprits(fmt, bs[j], gs)), j))
            culs = T.culprits_x(fmt, bs[k], gs)
            for cul, nxt, lit, prev, pc_ in culs:
                add_violation(res, _fsig(x, "fmt", func, cul, nxt, lit, prev, pc_, len(culs) > 1),
                              f"{func}({row.get('ns') if func == 'strfntime' else (row['f'] if 'float' in func else t)}, {fmt!r}) = {got!r}, expected {exps[k]!r} (wrong conversion: {cul})",
                              _detail(argv, row, expected=exps, got=got, func=func))
        judge("strftime", rec.get("s"), [T.broken_utc(t, 0)])
        if "ns" in row:
            judge("strfntime", rec.get("sn"), [T.broken_utc(t, ns)])
        cands = [T.broken_utc(s, f) for (s, f) in T.float_candidates(row["f"])]
        if all(c is not None for c in cands):
            judge("strftime(float)", rec.get("sf"), cands)
        else:
            res["skipped"] += 1
        if nontrivial_instant(t, ns):
            nk.append(_h("fmt", t, ns, fmt))
    res["nontrivial_keys"] = nk
    res["nontrivial"] = bool(nk)
    res["evals"] = len(rows)
    if rows:
        res["sample"] = {"monitor": "fmt", "row": rows[len(rows) // 2]}
    return res


# ==========================================================================================
# parse: strptime / strpntime (GMT variants)

PARSE_PROG = """
$p = strptime($txt, $fmt);
$pn = strpntime($txt, $fmt);
if (is_present($ffmt)) {
  $rt = strptime(strftime($t, $fmt), $fmt);
  if (is_present($ns)) { $rtn = strpntime(strfntime($ns, $ffmt), $fmt); }
}
"""

DATE_Y = ["%Y-%m-%d", "%F", "%Y/%m/%d", "%d/%m/%Y", "%m/%d/%Y", "%Y%m%d", "%d %b %Y", "%b %e, %Y", "%B %d %Y",
          "%A %B %d %Y", "%a %b %d %Y", "%a, %d %h %Y", "%Y-%j", "%j %Y", "%Y %h %d", "%d-%b-%Y", "%Y.%m.%d", "%e/%m/%Y"]
DATE_y = ["%D", "%x", "%y-%m-%d", "%d/%m/%y", "%y%m%d", "%b %d %y"]
TIMES = [("%H:%M:%S", 3), ("%T", 3), ("%X", 3), ("%H:%M", 2), ("%R", 2), ("%I:%M:%S %p", 3), ("%r", 3), ("%H%M%S", 3),
         ("%I %p", 1), ("%H", 1), ("%I:%M %p", 2), ("%p %I.%M.%S", 3), ("%Hh%Mm%Ss", 3)]
SEPS = [" ", "T", "_", ", ", " at "]


P_FIXED = {"%Y", "%y", "%m", "%d", "%H", "%I", "%M", "%S", "%j", "%b", "%h", "%a", "%p", "%T", "%R", "%X", "%F", "%D", "%x", "%r", "%z", "%%"}
P_SEPS = [" ", " ", "-", ":", "/", "T", ".", ", ", " at ", "|"]


def rand_parse_format(rng, year):
    """a random arrangement of documented strptime conversions that together state a full date (and the leading part of a
    time of day): -> (format, number of H/M/S fields carried, has %z).  Conversions of fixed width may touch each other."""
    y2 = 1969 <= year <= 2068
    atoms = []
    c = rng.random()
    if c < 0.5:
        atoms += [rng.choice(["%Y", "%Y", "%y"] if y2 else ["%Y"]), rng.choice(["%m", "%m", "%b", "%B", "%h"]), rng.choice(["%d", "%d", "%e"])]
    elif c < 0.75:
        atoms += [rng.choice(["%Y", "%Y", "%y"] if y2 else ["%Y"]), "%j"]
    else:
        atoms += [rng.choice(["%F", "%D", "%x"] if y2 else ["%F"])]
    if rng.random() < 0.25:
        atoms.append(rng.choice(["%a", "%A"]))
    c = rng.random()
    if c < 0.1:
        carried = 0
    elif c < 0.55:
        carried = rng.randint(1, 3)
        if rng.random() < 0.3:
            atoms += ["%I", "%p"] + ["%M", "%S"][:carried - 1]
        else:
            atoms += ["%H", "%M", "%S"][:carried]
    else:
        a, carried = rng.choice([("%T", 3), ("%R", 2), ("%X", 3), ("%r", 3)])
        atoms.append(a)
    has_z = rng.random() < 0.2
    if has_z:
        atoms.append("%z")
    elif rng.random() < 0.08:
        atoms.append("%Z")
    if rng.random() < 0.08:
        atoms.append("%%")
    rng.shuffle(atoms)
    fmt = ""
    for i, a in enumerate(atoms):
        fmt += a
        if i < len(atoms) - 1:
            glue = a in P_FIXED and atoms[i + 1] not in ("%Z", "%A", "%B") and rng.random() < 0.3
            seps = P_SEPS
            if a in ("%S", "%T", "%X"):
                seps = [x for x in seps if x != "."]                 # "%S." + digits is the documented fractional-seconds input
            if a in ("%a", "%A", "%b", "%B", "%h", "%p", "%Z", "%r"):
                seps = [x for x in seps if not x[0].isalpha()]       # how a name ends when a letter follows is not documented
            fmt += "" if glue else rng.choice(seps)
    return fmt, carried, has_z


def _p_ctx(fmt, txt):
    """input classes of two strptime defects: '%%' followed by literal text; %A / %B as the last conversion at the very end of the
    format with a name longer than Monday / January"""
    toks = T.tokenize(fmt)
    out = {"pct": "none", "tail": "none"}
    for i, (k, t_) in enumerate(toks):
        if k == "code" and t_ == "%" and i + 1 < len(toks) and toks[i + 1][0] == "lit":
            out["pct"] = "then-literal"
    if toks and toks[-1] == ("code", "A") and re.search(r"(Tuesday|Wednesday|Thursday|Saturday)$", txt):
        out["tail"] = "long-name"
    if toks and toks[-1] == ("code", "B") and re.search(r"(February|September|November|December)$", txt):
        out["tail"] = "long-name"
    return out


def build_parse_row(rng, t, ns, local=False):
    """-> dict(fmt, ffmt|None, txt, exp_sec, exp_ns) for a GMT strptime; None if this instant cannot carry
    the chosen format.  exp = the instant the text denotes."""
    r = rng.random()
    off = 0
    b0 = T.broken_utc(t, ns)
    if b0 is None:
        return None
    if r < 0.04:
        fmt, carried, frac = "%c", 3, 0
    elif r < 0.4:
        fmt, carried, has_z = rand_parse_format(rng, b0.Y)
        frac = 0
        if has_z:
            off = rng.choice([0, -14400, 7200, 19800, 20700, -12600, 50400, -43200, 60 * rng.randint(-1439, 1439)])
    else:
        use_y = rng.random() < 0.2 and 1969 <= b0.Y <= 2068
        fmt = rng.choice(DATE_y if use_y else DATE_Y)
        carried, frac = 0, 0
        if rng.random() < 0.85:
            tf, carried = rng.choice(TIMES)
            if rng.random() < 0.12 and "%j" not in fmt:
                fmt = tf + rng.choice(SEPS) + fmt
            else:
                fmt = fmt + rng.choice(SEPS) + tf
                if carried == 3 and (tf.endswith("%S") or tf.endswith("%T") or tf.endswith("%X")):
                    c = rng.random()
                    if c < 0.3:
                        fmt += "Z"
                        frac = rng.choice([0, 0, 1, 3, 6, 9, rng.randint(1, 9)]) if tf.endswith("%S") else 0
                    elif c < 0.45 and tf.endswith("%S"):
                        fmt += ".%f"
                        frac = -6
                    elif c < 0.65:
                        fmt += " %z"
                        off = rng.choice([0, 0, -14400, 7200, 19800, 20700, -12600, 50400, -43200, 60 * rng.randint(-1439, 1439)])
                    elif c < 0.72:
                        fmt += " %Z"
    # fields shown in the text are those of t + off
    b = T.broken_utc(t + off, ns)
    if b is None:
        return None
    b.off = off
    b.abbr = "UTC"
    if frac == -6:
        txt = T.strftime(fmt.replace(".%f", ""), b) + ".%06d" % (ns // 1000)
        exp_ns = ns // 1000 * 1000
        ffmt = None
    elif frac > 0:
        txt = T.strftime(fmt[:-3], b) + "%02d.%s" % (b.S, ("%09d" % ns)[:frac]) + "Z"
        exp_ns = int(("%09d" % ns)[:frac]) * 10 ** (9 - frac)
        ffmt = fmt[:-3] + "%" + str(frac) + "SZ"
    else:
        txt = T.strftime(fmt, b)
        exp_ns = 0
        ffmt = fmt
    keep = [b.H, b.M, b.S][:carried] + [0, 0, 0][carried:]
    exp = T.naive_to_sec(b.Y, b.m, b.d, *keep) - off
    # what the round trip of t itself (text made by strftime in GMT, offset +0000) must give
    k0 = [b0.H, b0.M, b0.S][:carried] + [0, 0, 0][carried:]
    rt = T.naive_to_sec(b0.Y, b0.m, b0.d, *k0)
    b0.abbr, b0.off = "UTC", 0
    return {"fmt": fmt, "ffmt": ffmt, "txt": txt, "exp": exp, "exp_ns": exp_ns, "rt": rt, "frac": frac, "carried": carried,
            "rt_txt": T.strftime(fmt.replace(".%f", ""), b0)}


def _e_ctx(fmt, txt):
    """where a space-padded single-digit %e sits in the format (the parser has position-dependent trouble with it)"""
    toks = T.tokenize(fmt)
    codes = [i for i, (k, t) in enumerate(toks) if k == "code" and t != "%"]          # %% is literal text, not a field
    for i in codes:
        if toks[i][1] == "e":
            if i > 0 and toks[i - 1][0] == "lit" and toks[i - 1][1].endswith("_"):
                return "after-underscore"
            if not re.search(r"(^|\D) \d(\D|$)", txt):
                return "two-digit-day"
            if i == codes[0]:
                return "first-conversion"
            return "mid"
    return "none"


def parse_case(case):
    rng = random.Random(case["seed"])
    res = case_result(_h("parse", case["seed"]))
    inst = instant_rows(rng, case["n"], lo=T.MIN_SEC + 86400, hi=T.MAX_SEC - 86400, with_boundary=case["boundary"])
    rows, meta = [], []
    for (t, ns) in inst:
        m = build_parse_row(rng, t, ns)
        if m is None:
            res["skipped"] += 1
            continue
        row = {"i": len(rows), "t": t, "fmt": m["fmt"], "txt": m["txt"]}
        if m["ffmt"] is not None:
            row["ffmt"] = m["ffmt"]
        if T.in_i64ns(t):
            row["ns"] = t * G + ns
        rows.append(row)
        meta.append((t, ns, m))
    argv, outs = _exec(res, [], PARSE_PROG, rows)
    nk = []
    for row, rec, (t, ns, m) in zip(rows, outs, meta):
        if _dead(res, "parse", argv, row, rec):
            continue
        for c in set(k for kind, k in T.tokenize(m["fmt"]) if kind == "code"):
            bump(res, "pcode:%" + c)
        x = {"range": _range_class(m["exp"]), "form": "frac" if m["frac"] else "plain", "frac8": m["frac"] == 8,
             "e_ctx": _e_ctx(m["fmt"], m["txt"])}
        x.update(_p_ctx(m["fmt"], m["txt"]))
        exp = Fraction(m["exp"]) + Fraction(m["exp_ns"], G)
        _cmp_num(res, "parse", "strptime", rec.get("p"), exp, argv, row, extra=x, tol=_ftol(exp) if m["exp_ns"] else 0)
        if T.in_i64ns(m["exp"]):
            _cmp_num(res, "parse", "strpntime", rec.get("pn"), Fraction(m["exp"] * G + m["exp_ns"]), argv, row, extra=x)
        else:
            res["skipped"] += 1            # not representable as int64 nanoseconds: inherent
        if m["ffmt"] is not None:
            xr = dict(x, range=_range_class(m["rt"]), e_ctx=_e_ctx(m["fmt"], m["rt_txt"]))
            xr.update(_p_ctx(m["fmt"], m["rt_txt"]))
            _cmp_num(res, "parse", "strptime(strftime)", rec.get("rt"), Fraction(m["rt"]), argv, row, extra=xr)
            if "ns" in row and T.in_i64ns(m["rt"]):
                f = m["frac"]
                ens = int(("%09d" % ns)[:f]) * 10 ** (9 - f) if f > 0 else 0
                _cmp_num(res, "parse", "strpntime(strfntime)", rec.get("rtn"), Fraction(m["rt"] * G + ens), argv, row, extra=xr)
        if nontrivial_instant(t, ns):
            nk.append(_h("parse", t, ns, m["fmt"]))
    res["nontrivial_keys"] = nk
    res["nontrivial"] = bool(nk)
    res["evals"] = len(rows)
    if rows:
        res["sample"] = {"monitor": "parse", "row": rows[len(rows) // 3]}
    return res


# ==========================================================================================
# local: zone given as function argument

LOCAL_BODY = """
$l0 = sec2localtime($t, 0 @Z);
$ln = sec2localtime($t, $n @Z);
$ld = sec2localdate($t @Z);
$m0 = nsec2localtime($ns, 0 @Z);
$mn = nsec2localtime($ns, $n @Z);
$md = nsec2localdate($ns @Z);
$sf = strftime_local($t, $fmt @Z);
$sn = strfntime_local($ns, $fmt @Z);
$g2l = gmt2localtime($gtxt @Z);
$l2g = localtime2gmt($ltxt @Z);
$l2s = localtime2sec($ltxt @Z);
$l2n = localtime2nsec($ltxt @Z);
$sp = strptime_local($ptxt, $pfmt @Z);
$spn = strpntime_local($ptxt, $pfmt @Z);
$rt = strptime_local(strftime_local($t, $pfmt @Z), $pfmt @Z);
$u0 = sec2gmt($t);
$u1 = strftime($t, "%Y-%m-%d %H:%M:%S %Z %z %s");
$u2 = gmt2sec($gtxt);
$u3 = strptime($gtxt, "%Y-%m-%dT%H:%M:%SZ");
$u4 = sec2gmtdate($t);
"""
LOCAL_PROG_ARG = LOCAL_BODY.replace(" @Z", ", $z")
LOCAL_PROG_NOARG = LOCAL_BODY.replace("$l0 = sec2localtime($t, 0 @Z);", "$l0 = sec2localtime($t);").replace(" @Z", "")
LOCAL_PROG_ENV = 'ENV["TZ"] = $z;\n' + LOCAL_PROG_NOARG

LOCAL_FMTS = ["%Y-%m-%d %H:%M:%S %Z", "%Y-%m-%d %H:%M:%S %z", "%Y-%m-%d %H:%M:%3S %z", "%A, %B %e, %Y", "%s %Z %z",
              "%a %b %e %H:%M:%S %Z %Y", "%j %U %W %V %u %w", "%I:%M:%S %p %Z", "%Y-%m-%dT%H:%M:%9S%z", "%c", "%D %T %z", "%F %R"]
LOCAL_PFMTS = [("%Y-%m-%d %H:%M:%S", 3), ("%Y-%m-%d %H:%M:%S %z", 3), ("%Y-%m-%d %H:%M:%S %Z", 3), ("%d/%m/%Y %H:%M", 2),
               ("%Y-%m-%d", 0), ("%Y-%m-%dT%H:%M:%SZ", 3), ("%b %d %Y %I:%M:%S %p", 3), ("%Y%m%d%H%M%S%z", 3), ("%a %d %b %Y %T %z", 3)]
TR_OFFS = (-3600, -3599, -1800, -1799, -1, 0, 1, 1799, 1800, 3599, 3600)


def local_text(b):
    return "%04d-%02d-%02d %02d:%02d:%02d" % (b.Y, b.m, b.d, b.H, b.M, b.S)


def _sec_to_naive(ns):
    b = T.broken_utc(ns)
    return (b.Y, b.m, b.d, b.H, b.M, b.S)


def local_rows(rng, zone, n_random, per_tr, n_far, fcodes):
    """rows for one zone; each row carries its own expectations' inputs"""
    rows = []
    tr = [x for x in T.transitions(zone) if T.LOCAL_MIN + 5 * 86400 <= x[0] <= T.LOCAL_MAX - 5 * 86400]
    if per_tr < len(TR_OFFS):           # quick tier: all of the table, every third year of the footer era + its last year
        tr = [x for x in tr if x[0] <= T.TABLE_MAX or x[0] > T.naive_to_sec(9000, 1, 1) or T.broken_utc(x[0]).Y % 3 == 0]
    inst = []
    for (Tt, ob, oa, _, _) in tr:
        offs = TR_OFFS if per_tr >= len(TR_OFFS) else rng.sample(TR_OFFS, per_tr)
        for o in offs:
            inst.append((Tt + o, rand_frac(rng), None))
        if ob != oa:
            lo, hi = (Tt + ob, Tt + oa) if oa > ob else (Tt + oa, Tt + ob)     # wall-clock interval (as if UTC) of the gap/overlap
            for w in {lo - 1, lo, lo + 1, (lo + hi) // 2, hi - 1, hi} if per_tr >= 6 else {lo, (lo + hi) // 2, hi - 1}:
                inst.append((Tt, 0, w))
    y1901, y2038, y1800 = T.TABLE_MIN + 5 * 86400, T.TABLE_MAX - 5 * 86400, T.naive_to_sec(1800, 1, 1)
    for _ in range(n_random):
        inst.append((rng.randint(y1901, y2038), rand_frac(rng), None))
    for t in (-2, -1, 0, 1, 951782400, 951868800, 1078012800, -2147483648, 2147483647):
        inst.append((t, 0, None))
    # outside the 1901..2037 table: local mean time before it (odd-second offsets), the POSIX footer rule after it
    for _ in range(n_far):
        c = rng.random()
        if c < 0.3:
            t = rng.randint(y1800, y1901)
        elif c < 0.45:
            t = rng.randint(T.LOCAL_MIN, y1800)
        elif c < 0.8:
            t = rng.randint(y2038, 9223372035 - 86400)
        else:
            t = rng.randint(9223372035, T.LOCAL_MAX)
        inst.append((t, rand_frac(rng), None))
    for (t, ns, wall) in inst:
        b = T.broken_local(t, ns, zone)
        row = {"i": len(rows), "z": zone, "t": t, "ns": t * G + ns if T.in_i64ns(t) else None, "n": rng.randrange(10),
               "fmt": rng.choice(LOCAL_FMTS) if rng.random() < 0.6 else rand_format(rng, fcodes),
               "gtxt": T.iso_gmt(T.broken_utc(t))}
        meta = {"t": t, "ns": ns, "wall": None, "has_ns": T.in_i64ns(t)}
        if isinstance(wall, int):
            naive = _sec_to_naive(wall)
            meta["wall"] = naive
        else:
            naive = b.naive()
        row["ltxt"] = "%04d-%02d-%02d %02d:%02d:%02d" % naive
        pfmt, carried = rng.choice(LOCAL_PFMTS)
        if isinstance(wall, int) and ("%z" in pfmt or "%Z" in pfmt):
            pfmt, carried = "%Y-%m-%d %H:%M:%S", 3
        if "%Z" in pfmt and not (b.abbr.isalpha() and b.abbr.isupper() and len(b.abbr) == 3):
            pfmt, carried = "%Y-%m-%d %H:%M:%S %z", 3
        row["pfmt"] = pfmt
        bb = T.B()
        bb.Y, bb.m, bb.d, bb.H, bb.M, bb.S = naive
        d = T._dt.date(bb.Y, bb.m, bb.d)
        T._fill(bb, d, bb.H * 3600 + bb.M * 60 + bb.S)
        bb.ns, bb.off, bb.abbr, bb.sec = 0, b.off, b.abbr, t
        row["ptxt"] = T.strftime(pfmt, bb)
        meta["carried"] = carried
        meta["pnaive"] = tuple(list(naive[:3]) + list(naive[3:3 + carried]) + [0] * (3 - carried))
        rows.append((row, meta))
    return rows


def _wrapped_text(got, exp_sec):
    """got = a date-time text; True if it is exp_sec moved by a non-zero multiple of 2^64 ns (give or take a zone offset)"""
    m = re.fullmatch(r"(\d{4})-(\d\d)-(\d\d)[ T](\d\d):(\d\d):(\d\d)Z?", got if isinstance(got, str) else "")
    if not m:
        return False
    try:
        g = T.naive_to_sec(*map(int, m.groups()))
    except ValueError:
        return False
    d = g - exp_sec
    k = round(d * G / 2 ** 64)
    return k != 0 and abs(d - k * 2 ** 64 / G) <= 26 * 3600 + 1       # two zone offsets differ by at most 26 h


def judge_local(res, mon, argv, row, rec, meta, env, sel):
    """compare one output record of a LOCAL_* program with the model; zone = row['z']"""
    zone = row["z"]
    t, ns, n = meta["t"], meta["ns"], row["n"]
    x = {"zone": zone, "selector": sel}
    b0 = T.broken_local(t, 0, zone)
    b = T.broken_local(t, ns, zone)

    def txt(func, got, exp, **kw):
        return _cmp_text(res, mon, func, got, exp, argv, row, env, extra=dict(x, **kw))
    txt("sec2localtime/0", rec.get("l0"), T.iso_gmt(b0, 0, " ", ""))
    txt("sec2localtime/n", rec.get("ln"), T.iso_gmt(b0, n, " ", ""))
    txt("sec2localdate", rec.get("ld"), T.ymd_text(b0))
    has_ns = meta["has_ns"]
    if has_ns:
        txt("nsec2localtime/0", rec.get("m0"), T.iso_gmt(b, 0, " ", ""))
        txt("nsec2localtime/n", rec.get("mn"), T.iso_gmt(b, n, " ", ""))
        txt("nsec2localdate", rec.get("md"), T.ymd_text(b))
    else:
        res["skipped"] += 1            # not representable as int64 nanoseconds: inherent
    bump(res, "era:" + ("lmt-before-1901" if t < T.TABLE_MIN else "table-1901-2037" if t <= T.TABLE_MAX else "footer-after-2037"))
    fmt = row["fmt"]
    for func, key, bb in (("strftime_local", "sf", b0), ("strfntime_local", "sn", b)):
        if key == "sn" and not has_ns:
            continue
        exp = T.strftime(fmt, bb)
        got = rec.get(key)
        bump(res, "checks")
        bump(res, "f:" + func)
        if got != exp:
            culs = T.culprits_x(fmt, bb, got if isinstance(got, str) else "")
            for cul, nxt, lit, prev, pc_ in culs:
                add_violation(res, _fsig(x, mon, func, cul, nxt, lit, prev, pc_, len(culs) > 1),
                              f"{func}({t if key == 'sf' else row['ns']}, {fmt!r}, {zone}) = {got!r}, zoneinfo says {exp!r} (wrong conversion: {cul})",
                              _detail(argv, row, env, expected=exp, got=got, func=func))
    rc = _range_class(t)
    txt("gmt2localtime", rec.get("g2l"), T.iso_gmt(b0, 0, " ", ""), range=rc, wrap=_wrapped_text(rec.get("g2l"), t + b0.off))
    # GMT functions must not notice the zone
    u = T.broken_utc(t)
    txt("sec2gmt", rec.get("u0"), T.iso_gmt(u), affected_by_tz=True)
    txt("strftime", rec.get("u1"), T.strftime("%Y-%m-%d %H:%M:%S %Z %z %s", u), affected_by_tz=True)
    txt("sec2gmtdate", rec.get("u4"), T.ymd_text(u), affected_by_tz=True)
    _cmp_num(res, mon, "gmt2sec", rec.get("u2"), Fraction(t), argv, row, env, extra=dict(x, range=rc, affected_by_tz=True))
    _cmp_num(res, mon, "strptime", rec.get("u3"), Fraction(t), argv, row, env, extra=dict(x, range=rc, affected_by_tz=True))
    # wall clock -> instant
    naive = meta["wall"] or b.naive()
    kind, cands = T.local_to_instants(naive, zone)
    if kind == "unknown":
        res["skipped"] += 1
    else:
        bump(res, "lkind:" + kind)
        xx = dict(x, lkind=kind)
        ok = _cmp_num(res, mon, "localtime2sec", rec.get("l2s"), [Fraction(c) for c in cands], argv, row, env, extra=dict(xx, range=_range_class(cands[0])))
        l2n_ok = all(T.in_i64ns(c) for c in cands)
        if l2n_ok:
            _cmp_num(res, mon, "localtime2nsec", rec.get("l2n"), [Fraction(c * G) for c in cands], argv, row, env, extra=dict(xx, range=_range_class(cands[0])))
        l2g_ok = txt("localtime2gmt", rec.get("l2g"), {T.iso_gmt(T.broken_utc(c)) for c in cands}, lkind=kind, range=_range_class(cands[0]),
                     wrap=_wrapped_text(rec.get("l2g"), cands[0]))
        g = _num(rec.get("l2s"))
        if ok and g is not None and g.denominator == 1:
            if kind in ("gap", "overlap"):
                bump(res, f"{kind}_choice:" + ("offset-before" if int(g) == cands[0] else "offset-after"))
            gn = _num(rec.get("l2n"))
            bad = (["localtime2gmt"] if l2g_ok and rec.get("l2g") != T.iso_gmt(T.broken_utc(int(g))) else []) + (["localtime2nsec"] if l2n_ok and gn != g * G else [])
            if bad:
                add_violation(res, dict(xx, kind="inconsistent", monitor=mon, func="localtime2sec/localtime2gmt/localtime2nsec", which="+".join(bad)),
                              f"localtime2sec={rec.get('l2s')} localtime2gmt={rec.get('l2g')} localtime2nsec={rec.get('l2n')} disagree for {row['ltxt']!r} in {zone}",
                              _detail(argv, row, env))
    # strptime_local on the model-made text
    pfmt = row["pfmt"]
    pk, pc = T.local_to_instants(meta["pnaive"], zone)
    if "%z" in pfmt:
        toff = (abs(b.off) // 60 * 60) * (1 if b.off >= 0 else -1)
        pc, pk = [T.naive_to_sec(*meta["pnaive"]) - toff], "offset"
    elif "%Z" in pfmt:
        pc, pk = [t], "abbr"
        offs = T.abbr_offsets(zone, b.abbr)
        if len(offs) > 1:                # the abbreviation has meant several offsets in this zone: any of them is a correct reading
            pc, pk = [t] + [t + b.off - o for o in offs if o != b.off], "abbr-ambiguous"
    if pk == "unknown":
        res["skipped"] += 1
        return
    xx = dict(x, lkind=pk, range=_range_class(pc[0]), pfmt=pfmt)
    _cmp_num(res, mon, "strptime_local", rec.get("sp"), [Fraction(c) for c in pc], argv, row, env, extra=xx)
    if all(T.in_i64ns(c) for c in pc):
        _cmp_num(res, mon, "strpntime_local", rec.get("spn"), [Fraction(c * G) for c in pc], argv, row, env, extra=xx)
    if meta["wall"] is None:
        _cmp_num(res, mon, "strptime_local(strftime_local)", rec.get("rt"), [Fraction(c) for c in pc], argv, row, env, extra=xx)


def local_case(case):
    rng = random.Random(case["seed"])
    res = case_result(_h("local", case["seed"]))
    zone = case["zone"]
    rm = local_rows(rng, zone, case["n"], case["per_tr"], case["far"], case["codes"])
    rows = [r for r, _ in rm]
    argv, outs = _exec(res, [], LOCAL_PROG_ARG, rows)
    nk = []
    for (row, meta), rec in zip(rm, outs):
        if _dead(res, "local", argv, row, rec):
            continue
        judge_local(res, "local", argv, row, rec, meta, {}, "argument")
        if nontrivial_instant(meta["t"], meta["ns"], zone):
            nk.append(_h("local", zone, meta["t"], meta["ns"], row["ltxt"], row["fmt"]))
    bump(res, "zone:" + zone, len(rows))
    res["nontrivial_keys"] = nk
    res["nontrivial"] = bool(nk)
    res["evals"] = len(rows)
    if rows:
        res["sample"] = {"monitor": "local", "row": rows[len(rows) // 2]}
    return res


# ==========================================================================================
# sel: --tz / TZ / ENV["TZ"] / argument select the zone; precedence; GMT functions unaffected

def sel_case(case):
    rng = random.Random(case["seed"])
    res = case_result(_h("sel", case["seed"]))
    kind = case["kind"]
    A, Bz, C, D = case["zones"]
    flags, env = [], {}
    if kind == "TZ":
        env, prog, eff = {"TZ": A}, LOCAL_PROG_NOARG, [A]
    elif kind == "--tz":
        flags, prog, eff = ["--tz", Bz], LOCAL_PROG_NOARG, [Bz]
    elif kind == "TZ+--tz":
        env, flags, prog, eff = {"TZ": A}, ["--tz", Bz], LOCAL_PROG_NOARG, [Bz]
    elif kind == "ENV":
        prog, eff = LOCAL_PROG_ENV, rng.sample(T.ZONES, 5)
    elif kind == "TZ+--tz+ENV":
        env, flags, prog, eff = {"TZ": A}, ["--tz", Bz], LOCAL_PROG_ENV, [C, D]
    elif kind == "all+argument":
        env, flags, prog, eff = {"TZ": A}, ["--tz", Bz], 'ENV["TZ"] = "%s";\n' % C + LOCAL_PROG_ARG, [D, A]
    else:
        raise ValueError(kind)
    rm = []
    for z in eff:
        rm += local_rows(rng, z, case["n"], case["per_tr"], 10, case["codes"])
    rng.shuffle(rm)
    for i, (row, meta) in enumerate(rm):
        row["i"] = i
    rows = [r for r, _ in rm]
    argv, outs = _exec(res, flags, prog, rows, env=env)
    nk = []
    for (row, meta), rec in zip(rm, outs):
        if _dead(res, "sel", argv, row, rec, env):
            continue
        judge_local(res, "sel", argv, row, rec, meta, env, kind)
        nk.append(_h("sel", kind, row["z"], meta["t"], meta["ns"], row["ltxt"]))
    bump(res, "selector:" + kind, len(rows))
    res["nontrivial_keys"] = nk
    res["nontrivial"] = bool(nk)
    res["evals"] = len(rows)
    if rows:
        res["sample"] = {"monitor": "sel", "selector": kind, "flags": flags, "env": env, "row": rows[0]}
    return res


# ==========================================================================================
# dhms family

DHMS_PROG = """
$a = sec2dhms($n);
$b = sec2hms($n);
$ia = dhms2sec(sec2dhms($n));
$ib = hms2sec(sec2hms($n));
$fa = fsec2dhms($n);
$fb = fsec2hms($n);
$c = fsec2dhms($x);
$d = fsec2hms($x);
$ic = dhms2fsec(fsec2dhms($x));
$id = hms2fsec(fsec2hms($x));
if (is_present($s1)) {
  $pa = dhms2sec($s1);
  $pb = hms2sec($s2);
  $pc = dhms2fsec($s3);
  $pd = hms2fsec($s4);
  $ra = sec2dhms(dhms2sec($s1));
  $rb = sec2hms(hms2sec($s2));
}
"""


def _mag_class(n):
    if n == -2 ** 63:
        return "int64-min"
    return "negative" if n < 0 else "non-negative"


def dhms_ints(rng, n_random):
    out = [0, 1, -1, 59, 60, 61, -59, -60, -61, 3599, 3600, 3601, -3599, -3600, -3601, 86399, 86400, 86401, -86399, -86400,
           -86401, 90061, -90061, 500000, 5000, -4000, 100, 10000, 1000000, 359999, 360000, -360000, 8640000, 2 ** 31 - 1,
           -2 ** 31, 2 ** 32, 2 ** 53, -2 ** 53, 2 ** 62, -2 ** 62, 2 ** 63 - 1, -2 ** 63 + 1, -2 ** 63]
    for _ in range(n_random):
        c = rng.random()
        if c < 0.4:
            v = rng.randint(-200000, 200000)
        elif c < 0.7:
            v = rng.randint(-10 ** 8, 10 ** 8)
        elif c < 0.9:
            v = rng.choice([-1, 1]) * (rng.choice([60, 3600, 86400]) * rng.randint(0, 5000) + rng.choice([-1, 0, 0, 1]))
        else:
            v = rng.randint(-2 ** 62, 2 ** 62)
        out.append(v)
    return out


def dhms_case(case):
    rng = random.Random(case["seed"])
    res = case_result(_h("dhms", case["seed"]))
    rows, meta = [], []
    for n in dhms_ints(rng, case["n"]):
        # float operand: |n| (bounded so that 1/64ths are exact) + j/64, or a free decimal
        base = n if abs(n) < 2 ** 40 else rng.randint(-10 ** 9, 10 ** 9)
        if rng.random() < 0.6:
            j = rng.randrange(64)
            neg = base < 0
            a = abs(base)
            xt = ("-" if neg else "") + "%d.%06d" % (a, j * 15625)
            xfrac = Fraction(-1 if neg else 1) * (a + Fraction(j, 64))
            exact = True
        else:
            nd = rng.randint(1, 9)
            fr = rng.randrange(10 ** nd)
            neg = base < 0
            if rng.random() < 0.2:          # just below a whole minute: the "rounds up to 60" corner
                base = (abs(base) % 10 ** 7) // 60 * 60 + 59
                nd, fr = rng.choice([(7, 9999995), (7, 9999999), (8, 99999949), (9, 999999999), (6, 999999)])
            xt = ("-" if neg else "") + "%d.%0*d" % (abs(base), nd, fr)
            xfrac = Fraction(float(xt))
            exact = False
        row = {"i": len(rows), "n": n, "x": Raw(xt)}
        if n > -2 ** 63:
            # canonical texts handed to the parsers directly; a negative duration is written as "-" + the text of |n|
            # (the shape the forward functions print and the statement covers: "incl. negatives")
            sg = "-" if n < 0 else ""
            a6 = "%06d" % (rng.randrange(64) * 15625)
            row["s1"] = sg + T.canon_dhms(abs(n))
            row["s2"] = T.canon_hms(n)
            row["s3"] = sg + T.canon_dhms(abs(n))[:-1] + "." + a6 + "s"
            row["s4"] = T.canon_hms(n) + "." + a6
            if n == 0 and rng.random() < 0.5:          # -0.25: the sign lives on a zero whole part
                row["s3"], row["s4"], sg = "-" + row["s3"], "-" + row["s4"], "-"
            m6 = Fraction(int(a6), 10 ** 6) * (-1 if sg else 1)
        else:
            m6 = None
        rows.append(row)
        meta.append((n, xfrac, exact, m6))
    argv, outs = _exec(res, [], DHMS_PROG, rows)
    nk = []

    def viol(func, cls, what, row, **kw):
        add_violation(res, {"kind": "dhms", "monitor": "dhms", "func": func, "class": cls}, what, _detail(argv, row, None, **kw))

    for row, rec, (n, xf, exact, m6) in zip(rows, outs, meta):
        if _dead(res, "dhms", argv, row, rec):
            continue
        cls = _mag_class(n)
        # shapes
        bump(res, "checks", 4)
        got = rec.get("a")
        p = T.parse_dhms(got) if isinstance(got, str) else None
        if p is None or p != (n < 0, T.expect_dhms(n)):
            viol("sec2dhms", cls, f"sec2dhms({n}) = {got!r}; expected sign {'-' if n < 0 else '+'} and d/h/m/s = {T.expect_dhms(n)}", row, got=got, expected=T.canon_dhms(abs(n)))
        got = rec.get("b")
        m = T._HMS.match(got) if isinstance(got, str) else None
        a = abs(n)
        if not m or (m.group(1) == "-") != (n < 0) or (int(m.group(2)), int(m.group(3)), int(m.group(4))) != (a // 3600, a % 3600 // 60, a % 60):
            viol("sec2hms", cls, f"sec2hms({n}) = {got!r}; expected {T.canon_hms(n)!r}", row, got=got, expected=T.canon_hms(n))
        # int through the f-variants: same fields with .000000
        got = rec.get("fa")
        m = T._FDHMS.match(got) if isinstance(got, str) else None
        exp_f = T.expect_dhms(n)
        if abs(n) < 2 ** 53:
            ok = bool(m) and (m.group(1) == "-") == (n < 0) and tuple(None if g is None else int(g) for g in m.groups()[1:5]) == exp_f and m.group(6) == "000000"
            if not ok:
                viol("fsec2dhms", cls, f"fsec2dhms({n}) = {got!r}; expected fields {exp_f} and .000000", row, got=got)
            got = rec.get("fb")
            if got != T.canon_hms(n) + ".000000":
                viol("fsec2hms", cls, f"fsec2hms({n}) = {got!r}; expected {T.canon_hms(n) + '.000000'!r}", row, got=got)
        # inverse laws on integers (exact)
        for func, key in (("dhms2sec(sec2dhms)", "ia"), ("hms2sec(sec2hms)", "ib")):
            bump(res, "checks")
            g = _num(rec.get(key))
            if g != n:
                viol(func, cls, f"{func}: {n} -> {rec.get('a' if key == 'ia' else 'b')!r} -> {rec.get(key)!r}", row, got=rec.get(key), expected=n)
        # floats
        xcls = "negative" if xf < 0 else "non-negative"
        if exact:
            ax = abs(xf)
            whole = int(ax)
            six = "%06d" % int((ax - whole) * 10 ** 6)
            ef = T.expect_dhms(whole)
            got = rec.get("c")
            m = T._FDHMS.match(got) if isinstance(got, str) else None
            bump(res, "checks", 2)
            if not (m and (m.group(1) == "-") == (xf < 0) and tuple(None if g is None else int(g) for g in m.groups()[1:5]) == ef and m.group(6) == six):
                viol("fsec2dhms", xcls, f"fsec2dhms({row['x']}) = {got!r}; expected fields {ef} and .{six}", row, got=got)
            got = rec.get("d")
            e = ("-" if xf < 0 else "") + "%02d:%02d:%02d.%s" % (whole // 3600, whole % 3600 // 60, whole % 60, six)
            if got != e:
                viol("fsec2hms", xcls, f"fsec2hms({row['x']}) = {got!r}; expected {e!r}", row, got=got, expected=e)
        else:
            # a float that is not a multiple of 1/64: the fields printed must be those of |x| (floor-based d/h/m/s) with the
            # six decimals within 1e-6; at 59.9999995+ the carried forms (next whole second, or a seconds field of 60.000000)
            # are accepted as well - the docs pin no rounding rule
            ax = abs(xf)
            w0 = int(ax)
            fr0 = ax - w0
            eps = Fraction(1, 10 ** 6) + Fraction(4 * math.ulp(float(ax) or 1.0))
            for key, func in (("c", "fsec2dhms"), ("d", "fsec2hms")):
                g = rec.get(key)
                bump(res, "checks")
                mm = (T._FDHMS if key == "c" else T._FHMS).match(g) if isinstance(g, str) else None
                ok = False
                if mm:
                    if key == "c":
                        fields = tuple(None if q is None else int(q) for q in mm.groups()[1:5])
                        frac = Fraction(int(mm.group(6)), 10 ** 6)
                        alts = [T.expect_dhms(w0), T.expect_dhms(w0 + 1)]
                    else:
                        fields = (int(mm.group(2)), int(mm.group(3)), int(mm.group(4)))
                        frac = Fraction(int(mm.group(5)), 10 ** 6)
                        alts = [(w0 // 3600, w0 % 3600 // 60, w0 % 60), ((w0 + 1) // 3600, (w0 + 1) % 3600 // 60, (w0 + 1) % 60)]
                    if fields[-1] >= 60:
                        bump(res, "observed_seconds_field_60_in_" + func)
                    carry = fr0 >= 1 - eps
                    sixty = alts[0][:-1] + (alts[0][-1] + 1,)
                    ok = (fields == alts[0] and abs(frac - fr0) <= eps) or (carry and frac == 0 and fields in (alts[1], sixty))
                    neg = mm.group(1) == "-"
                    if ok and ax > eps and neg != (xf < 0):
                        ok = False
                if not ok:
                    viol(func, xcls, f"{func}({row['x']}) = {g!r}; the fields of |x| are {T.expect_dhms(w0) if key == 'c' else T.canon_hms(w0)} + {float(fr0):.7f}", row, got=g)
        for func, key in (("dhms2fsec(fsec2dhms)", "ic"), ("hms2fsec(fsec2hms)", "id")):
            bump(res, "checks")
            g = _num(rec.get(key))
            if g is None or abs(g - xf) > Fraction(1, 10 ** 6) + Fraction(4 * math.ulp(float(abs(xf)) or 1.0)):
                viol(func, xcls, f"{func}: {row['x']} -> {rec.get('c' if key == 'ic' else 'd')!r} -> {rec.get(key)!r} (more than 1e-6 away)", row, got=rec.get(key), expected=str(float(xf)))
        # parse direction on canonical texts (documented shapes; negatives as "-" + text of |n|)
        if "s1" in row:
            bump(res, "checks", 6)
            for func, key, e in (("dhms2sec", "pa", Fraction(n)), ("hms2sec", "pb", Fraction(n))):
                if _num(rec.get(key)) != e:
                    viol(func, cls, f"{func}({row['s1' if key == 'pa' else 's2']!r}) = {rec.get(key)!r}; expected {n}", row, got=rec.get(key), expected=n)
            if abs(n) < 2 ** 40:
                for func, key, src in (("dhms2fsec", "pc", "s3"), ("hms2fsec", "pd", "s4")):
                    g = _num(rec.get(key))
                    if g is None or abs(g - (n + m6)) > Fraction(1, 10 ** 6):
                        viol(func, cls, f"{func}({row[src]!r}) = {rec.get(key)!r}; expected {float(n + m6)}", row, got=rec.get(key), expected=str(float(n + m6)))
            got = rec.get("ra")
            p = T.parse_dhms(got) if isinstance(got, str) else None
            if p is None or p != (n < 0, T.expect_dhms(n)):
                viol("sec2dhms(dhms2sec)", cls, f"sec2dhms(dhms2sec({row['s1']!r})) = {got!r}", row, got=got, expected=row["s1"])
            if rec.get("rb") != row["s2"]:
                viol("sec2hms(hms2sec)", cls, f"sec2hms(hms2sec({row['s2']!r})) = {rec.get('rb')!r}", row, got=rec.get("rb"), expected=row["s2"])
        if n < 0 or xf != int(xf):
            nk.append(_h("dhms", n, row["x"]))
    res["nontrivial_keys"] = nk
    res["nontrivial"] = bool(nk)
    res["evals"] = len(rows)
    if rows:
        res["sample"] = {"monitor": "dhms", "row": rows[-1]}
    return res


# ==========================================================================================
# datediff

DD_PROG = """
$d = datediff($t1, $t2, $u);
"""
UNITS = ["y", "m", "d", "ym", "yd", "md"]


def date_pool():
    out = []
    for y in (1, 4, 100, 400, 1600, 1700, 1900, 1970, 1999, 2000, 2001, 2019, 2020, 2023, 2024, 2100, 9999):
        for (m, d) in ((1, 1), (1, 31), (2, 28), (2, 29), (3, 1), (3, 31), (4, 30), (5, 31), (6, 1), (8, 15), (12, 31)):
            try:
                out.append(T.naive_to_sec(y, m, d))
            except ValueError:
                pass
    return out


def dd_case(case):
    rng = random.Random(case["seed"])
    res = case_result(_h("dd", case["seed"]))
    pool = date_pool()
    pairs = []
    if case["grid"] is not None:
        k, K = case["grid"]
        allp = [(a, b) for a in pool for b in pool]
        pairs = allp[k::K]
    for _ in range(case["n"]):
        a = rng.choice(pool) if rng.random() < 0.3 else rng.randint(T.MIN_SEC, T.MAX_SEC)
        c = rng.random()
        if c < 0.4:
            b = a + rng.randint(-800, 800) * 86400 + rng.randint(-86400, 86400)
        elif c < 0.7:
            b = a + rng.randint(-40000, 40000) * 86400
        else:
            b = rng.randint(T.MIN_SEC, T.MAX_SEC)
        if T.in_range(b):
            pairs.append((a, b))
    rows, meta = [], []
    for (a, b) in pairs:
        for u in (UNITS if case["grid"] is not None else [rng.choice(UNITS)]):
            ta, tb = a, b
            style = rng.random()
            if style < 0.3:          # time-of-day parts must be ignored
                ta = ta - ta % 86400 + rng.randrange(86400)
                tb = tb - tb % 86400 + rng.randrange(86400)
            r = {"i": len(rows), "t1": ta, "t2": tb, "u": u if rng.random() < 0.8 else u.upper()}
            if style > 0.85:
                r["t1"] = float_text(ta, 500000000)
                r["t2"] = float_text(tb, 250000000)
            rows.append(r)
            meta.append((ta, tb, u))                                # floor(ta + .5) = ta
    argv, outs = _exec(res, [], DD_PROG, rows)
    nk = []
    for row, rec, (a, b, u) in zip(rows, outs, meta):
        if _dead(res, "datediff", argv, row, rec):
            continue
        exp = T.datediff(a, b, u)
        if exp is None:
            res["skipped"] += 1
            continue
        bump(res, "checks")
        bump(res, "unit:" + u)
        g = _num(rec.get("d"))
        if g != exp:
            da, db = T.broken_utc(a), T.broken_utc(b)
            add_violation(res, {"kind": "datediff", "monitor": "datediff", "unit": u, "order": "t1>t2" if a // 86400 > b // 86400 else "t1<=t2"},
                          f"datediff({T.ymd_text(da)}, {T.ymd_text(db)}, {row['u']!r}) = {rec.get('d')!r}, the DATEDIF rule gives {exp}",
                          _detail(argv, row, None, expected=exp, got=rec.get("d")))
        if nontrivial_instant(a) or nontrivial_instant(b) or T.broken_utc(a).d >= 28 or T.broken_utc(b).d >= 28:
            nk.append(_h("dd", a, b, u))
    res["nontrivial_keys"] = nk
    res["nontrivial"] = bool(nk)
    res["evals"] = len(rows)
    if rows:
        res["sample"] = {"monitor": "datediff", "row": rows[len(rows) // 2]}
    return res


# ==========================================================================================
# verb: sec2gmt / sec2gmtdate verbs vs functions vs calendar

NONNUM = ["abc", "", "hello world", "2017-07-14T02:40:00Z", "12:34:56", "-", "x17", "17x", "1 2", "é", "true", "1.2.3", "--1",
          "0x", "1e", "e5", "1500000000s", "(error)", "N/A", "_", "1;5", "1_000"]
EXOTIC = ["0x10", "0b101", "1e9", "1.5e9", "+5", "-0", ".5", "5.", "0o17", "1E3", "-0x10", "1500000000123", "1e-3"]
VERB_OPTS = [[], ["-1"], ["-3"], ["-6"], ["-9"], ["--millis"], ["--millis", "-3"], ["--millis", "-6"], ["--micros"], ["--micros", "-6"],
             ["--nanos"], ["--nanos", "-9"], ["--nanos", "-3"], ["-2"], ["-4"], ["-5"], ["-7"], ["-8"]]


def _parse_iso(text):
    m = re.fullmatch(r"(-?\d{4,})-(\d\d)-(\d\d)T(\d\d):(\d\d):(\d\d)(?:\.(\d+))?Z", text or "")
    if not m:
        return None
    try:
        sec = T.naive_to_sec(int(m.group(1)), int(m.group(2)), int(m.group(3)), int(m.group(4)), int(m.group(5)), int(m.group(6)))
    except ValueError:
        return None
    fr = m.group(7)
    return Fraction(sec) + (Fraction(int(fr), 10 ** len(fr)) if fr else 0)


def verb_case(case):
    rng = random.Random(case["seed"])
    res = case_result(_h("verb", case["seed"]))
    verb = case["verb"]
    opts = case["opts"]
    unit = next((o for o in opts if o.startswith("--")), "")
    scale = {"": 1, "--millis": 1000, "--micros": 10 ** 6, "--nanos": G}[unit]
    n = next((int(o[1:]) for o in opts if re.fullmatch(r"-[1-9]", o)), 0)
    vals = []
    for (t, ns) in instant_rows(rng, case["n"], lo=-9223372036, hi=9223372035, with_boundary=True):
        if scale == 1:
            vals.append(("int", str(t), t, 0))
            if rng.random() < 0.4:
                vals.append(("float", str(float_text(t, ns, rng)), t, ns))
        else:
            sub = ns // (G // scale)                       # whole input units within the second
            vals.append(("int", str(t * scale + sub), t, sub * (G // scale)))
            if rng.random() < 0.3:                         # the same unit count with a fractional part: a float input
                k = rng.randint(1, 4)
                vals.append(("ufloat", "%d.%0*d" % (t * scale + sub, k, rng.randrange(10 ** k)), t, None))
    vals += [("nonnum", v, None, None) for v in NONNUM] + [("exotic", v, None, None) for v in EXOTIC]
    rng.shuffle(vals)
    lines = []
    for i, (cls, v, _, _) in enumerate(vals):
        other = vals[(i * 7 + 3) % len(vals)][1]
        lines.append(f"i={i},v={v},w2={other},k={v},c={v},c2={other}")
    stdin = "\n".join(lines) + "\n"
    if verb == "sec2gmt":
        fn = "sec2gmt($c, %d)" % n if n else "sec2gmt($c)"
        fn2 = "sec2gmt($c2, %d)" % n if n else "sec2gmt($c2)"
    else:
        fn, fn2 = "sec2gmtdate($c)", "sec2gmtdate($c2)"
    prog = f"$c = {fn}; $c2 = {fn2}"
    argv = ["--idkvp", "--ojson", "--jvquoteall", verb] + opts + ["v,nosuch,w2", "then", "put", prog]
    env = {"TZ": "Asia/Istanbul"} if case["tz"] else {}
    r = R.mlr(argv, stdin=stdin, env=env)
    bump(res, "processes")
    res["evals"] = len(vals)
    det = {"argv": argv, "env": env}
    if r.verdict == "slow":
        res["inconc"] += 1
        return res
    try:
        recs = json.loads(r.out) if r.ok else None
    except ValueError:
        recs = None
    if recs is None or len(recs) != len(vals):
        add_violation(res, {"kind": "crash", "monitor": "verb", "verb": verb}, f"mlr {verb} {' '.join(opts)} failed: rc={r.rc} {r.err[:200]!r}",
                      dict(det, stdin=stdin[:3000], got=r.brief(800)))
        return res
    nk = []

    def viol(cls, what, i, **kw):
        sig = {"kind": "verb", "monitor": "verb", "verb": verb, "unit": unit, "decimals": n > 0, "class": cls}
        sig.update(kw.pop("sig", {}))
        add_violation(res, sig, what, dict(det, stdin=lines[i] + "\n", **kw))

    for i, ((cls, v, t, ns), rec) in enumerate(zip(vals, recs)):
        got = rec.get("v")
        bump(res, "checks")
        bump(res, "vclass:" + cls)
        if rec.get("k") != v or "nosuch" in rec:
            viol("bystander", f"{verb} changed a field that is not in its list or created one: k={rec.get('k')!r} (was {v!r}), keys {list(rec)}", i, got=rec)
        if cls == "nonnum":
            if got != v:
                viol("nonnumeric-changed", f"{verb} {' '.join(opts)} turned the non-numeric value {v!r} into {got!r}", i, got=got, expected=v)
            continue
        # verb == function (only where the help states the equivalence: no unit flag)
        if not unit:
            for a, b_ in (("v", "c"), ("w2", "c2")):
                if vals[(i * 7 + 3) % len(vals)][0] == "nonnum" and a == "w2":
                    continue
                bump(res, "checks")
                if rec.get(a) != rec.get(b_):
                    viol("differs-from-function", f"verb {verb} {' '.join(opts)} gives {rec.get(a)!r} but the function gives {rec.get(b_)!r} for {rec.get('k') if a == 'v' else vals[(i * 7 + 3) % len(vals)][1]!r}", i,
                         got=rec.get(a), expected=rec.get(b_))
        if cls == "exotic":
            continue
        # calendar
        if cls == "ufloat":
            # float count of milli/micro/nanoseconds: the docs do not define the float -> instant conversion, so every instant within
            # one ulp of (exact value of the double) / scale seconds is accepted, printed with n decimals (floored)
            exact = Fraction(float(v)) / scale
            u = Fraction(math.ulp(float(exact)))
            lo_, hi_ = [((exact + d_) * 10 ** n).__floor__() for d_ in (-u, u)]
            gi = _parse_iso(got)
            bump(res, "checks")
            shape = re.fullmatch(r"-?\d{4,}-\d\d-\d\dT\d\d:\d\d:\d\d" + (r"\.\d{%d}" % n if n else "") + "Z", got or "")
            if gi is None or not shape or not (lo_ <= gi * 10 ** n <= hi_):
                viol("calendar", f"{verb} {' '.join(opts)} of the float {v} gives {got!r}; {float(exact)!r} s is {T.iso_gmt(T.broken_utc(*divmod((exact * G).__floor__(), G)), n)}",
                     i, got=got, sig={"error": "gross", "input": "float"})
            continue
        if cls == "float":
            cands = [T.broken_utc(s_, f_) for (s_, f_) in T.float_candidates(v)]
        else:
            cands = [T.broken_utc(t, ns)]
        if any(c is None for c in cands):
            res["skipped"] += 1
            continue
        exps = [T.iso_gmt(c, n) if verb == "sec2gmt" else T.ymd_text(c) for c in cands]
        bump(res, "checks")
        if got not in exps:
            gi = _parse_iso(got) if verb == "sec2gmt" else None
            exact = Fraction(t) + Fraction(ns, G)
            noise = "gross"
            if gi is not None and abs(gi - exact) <= Fraction(1, 10 ** n) + Fraction(2 * math.ulp(float(abs(t)) or 1.0)):
                noise = "within-float-noise"
            viol("calendar", f"{verb} {' '.join(opts)} of {v} gives {got!r}, the calendar says {exps[0]!r}", i, got=got, expected=exps, sig={"error": noise})
        if nontrivial_instant(t, ns):
            nk.append(_h("verb", verb, tuple(opts), v))
    res["nontrivial_keys"] = nk
    res["nontrivial"] = bool(nk)
    res["sample"] = {"monitor": "verb", "argv": argv, "first_line": lines[0]}
    return res


# ==========================================================================================
# nonnum: functions documented to leave non-numbers as-is

NONNUM_FORMS = {
    "sec2gmt": ["$v", "$v, 3"], "sec2gmtdate": ["$v"], "nsec2gmt": ["$v", "$v, 3"], "nsec2gmtdate": ["$v"],
    "sec2localtime": ["$v", "$v, 3", '$v, 3, "Asia/Istanbul"'], "sec2localdate": ["$v", '$v, "Asia/Istanbul"'],
    "nsec2localtime": ["$v", "$v, 3", '$v, 3, "Asia/Istanbul"'], "nsec2localdate": ["$v", '$v, "Asia/Istanbul"'],
}


def nonnum_case(case):
    res = case_result(_h("nonnum", case["seed"]))
    funcs = []
    for f, forms in NONNUM_FORMS.items():
        h = R.mlr(["help", "function", f]).out
        funcs.append((f, forms))           # the list is pinned here; the sentence is what the check rests on
        bump(res, "checks")
        if "Leaves non-numbers as-is" not in h:
            add_violation(res, {"kind": "doc-example", "monitor": "nonnum", "func": f, "call": "help-sentence"},
                          f"`mlr help function {f}` no longer says 'Leaves non-numbers as-is' (the function is still checked for it)",
                          {"argv": ["help", "function", f], "stdin": "", "env": {}, "got": h[:600]})
    prog = ""
    cols = []
    for f, forms in funcs:
        for k, form in enumerate(forms):
            col = f"{f}_{k + 1}"
            cols.append((col, f, k + 1, form))
            prog += f"${col} = {f}({form});\n"
    rows = [{"i": i, "v": v} for i, v in enumerate(NONNUM) if v != "(error)"]
    argv, outs = _exec(res, ["--tz", "Asia/Tokyo"], prog, rows)
    nk = []
    for row, rec in zip(rows, outs):
        if _dead(res, "nonnum", argv, row, rec):
            continue
        for col, f, ar, form in cols:
            bump(res, "checks")
            if rec.get(col) != row["v"]:
                add_violation(res, {"kind": "nonnumeric", "monitor": "nonnum", "func": f"{f}/{ar}", "got": "(error)" if rec.get(col) == "(error)" else "other"},
                              f"{f}({form.replace('$v', json.dumps(row['v']))}) = {rec.get(col)!r}; `mlr help function {f}` says it leaves non-numbers as-is",
                              _detail(argv, row, None, expected=row["v"], got=rec.get(col)))
            nk.append(_h("nonnum", col, row["v"]))
    res["nontrivial_keys"] = nk
    res["nontrivial"] = bool(nk)
    res["evals"] = len(rows) * len(cols)
    res["sample"] = {"monitor": "nonnum", "functions": [c[0] for c in cols], "values": NONNUM[:6]}
    return res


# ==========================================================================================
# doc: worked examples in the function help, and the self-contained blocks of reference-dsl-time.md

TIME_FUNCS = ["datediff", "dhms2fsec", "dhms2sec", "fsec2dhms", "fsec2hms", "gmt2localtime", "gmt2nsec", "gmt2sec", "hms2fsec",
              "hms2sec", "localtime2gmt", "localtime2nsec", "localtime2sec", "nsec2gmt", "nsec2gmtdate", "nsec2localdate",
              "nsec2localtime", "sec2dhms", "sec2gmt", "sec2gmtdate", "sec2hms", "sec2localdate", "sec2localtime", "strfntime",
              "strfntime_local", "strftime", "strftime_local", "strpntime", "strpntime_local", "strptime", "strptime_local"]


def help_examples(func, text):
    out = []
    for line in text.splitlines():
        m = re.search(r"(\b" + re.escape(func) + r"\(.*\))\s+=\s+(.+?)\s*$", line)
        if not m:
            continue
        call, result = m.group(1), m.group(2)
        tz = None
        mt = re.search(r'\s+with TZ="([^"]+)"\s*$', result)
        if mt:
            tz = mt.group(1)
            result = result[:mt.start()]
        result = result.strip().rstrip(".")
        if result.startswith('"') and result.endswith('"') and len(result) >= 2:
            result = result[1:-1]
        elif result.endswith('"') and not result.startswith('"'):
            result = result[:-1]                       # stray quote in two help strings
        out.append((call, result, tz))
    return out


def doc_case(case):
    res = case_result(_h("doc", case["func"]))
    f = case["func"]
    nk = []
    if f == "__md__":
        with open(DOC_TIME, encoding="utf-8") as fh:
            text = fh.read()
        blocks = re.findall(r'<pre class="pre-highlight-in-pair">\n(.*?)</pre>\n<pre class="pre-non-highlight-in-pair">\n(.*?)</pre>', text, re.S)
        for cmd, expected in blocks:
            cl = [html.unescape(re.sub(r"</?b>", "", l)) for l in cmd.strip("\n").split("\n")]
            env = {}
            while cl and cl[0].startswith("export TZ="):
                env["TZ"] = cl.pop(0)[len("export TZ="):]
            joined = "\n".join(cl)
            if not joined.startswith("mlr ") or "systime" in joined or "uptime" in joined or "example.csv" in joined or "|" in joined.split("'")[0] or "mlr -F" in joined:
                res["skipped"] += 1
                continue
            try:
                argv = shlex.split(joined)[1:]
            except ValueError:
                res["skipped"] += 1
                continue
            if "-n" not in argv:
                res["skipped"] += 1
                continue
            r = R.mlr(argv, env=env)
            bump(res, "doc_blocks_replayed")
            exp = html.unescape(expected)
            got = r.out if r.rc == 0 else r.out + r.err
            nk.append(_h("docmd", joined))
            if got != exp:
                add_violation(res, {"kind": "doc-block", "monitor": "doc", "cmd": _h(joined)},
                              f"reference-dsl-time.md records a different output for: {joined[:120]!r}",
                              {"argv": argv, "env": env, "stdin": "", "expected": exp, "got": got})
    else:
        h = R.mlr(["help", "function", f]).out
        for call, result, tz in help_examples(f, h):
            env = {"TZ": tz} if tz else {}
            argv = ["-n", "put", "end { print " + call + " }"]
            r = R.mlr(argv, env=env)
            bump(res, "help_examples_evaluated")
            got = r.out.rstrip("\n")
            ok = got == result
            if not ok:
                a, b_ = _num(got), _num(result)
                ok = a is not None and a == b_
            nk.append(_h("dochelp", call, tz))
            if not ok:
                add_violation(res, {"kind": "doc-example", "monitor": "doc", "func": f, "call": call},
                              f"`mlr help function {f}` says {call} = {result!r}{' with TZ=' + tz if tz else ''}; the binary prints {got!r}",
                              {"argv": argv, "env": env, "stdin": "", "expected": result, "got": got})
    res["nontrivial_keys"] = nk
    res["nontrivial"] = bool(nk)
    res["evals"] = len(nk)
    return res


# ==========================================================================================
# chain: the same laws when 2-3 time verbs of one then-chain work concurrently on a multi-batch stream

CHAIN_LITS = [" ", "-", ":", "/", "T", "Z", ".", ", ", "[", "]", "@", "é", "=", "|", ""]      # none of the C16-F4/F5 contexts
CHAIN_PFMTS = ["%Y-%m-%dT%H:%M:%SZ", "%d/%m/%Y %H:%M:%S", "%Y%m%d%H%M%S", "%b %d %Y %I:%M:%S %p", "%j %Y %T", "%Y-%m-%d %H:%M:%S"]
CHAIN_FAMILY = ["strftime", "strfntime", "strftime_local", "strfntime_local", "sec2gmtdate", "sec2localdate", "nsec2gmtdate", "nsec2localdate"]
CHAIN_OTHER = ["sec2gmt", "nsec2gmt", "sec2localtime", "nsec2localtime", "strptime", "strpntime", "gmt2sec", "rt", "rt_local", "gmt2localtime"]
CHAIN_VERB_OPTS = [[], ["-1"], ["-3"], ["-6"], ["-9"], ["--millis"], ["--millis", "-3"], ["--micros", "-6"], ["--nanos", "-9"], ["--nanos"]]


def _chain_fmt(rng, codes):
    c = rng.random()
    if c < 0.55:
        k = rng.randint(1, 5)
        s = rng.choice(["", "", "[", "t="])
        for j in range(k):
            s += "%" + rng.choice(codes)
            if j < k - 1:
                s += rng.choice(CHAIN_LITS)
        return s + rng.choice(["", "", "Z", "]"])
    if c < 0.8:
        return rng.choice(COMPOSITES)
    return rng.choice(LOCAL_FMTS)


def _dq(s):
    """a DSL string literal"""
    return '"' + s.replace("\\", "\\\\").replace('"', '\\"') + '"'


def chain_spec(rng, nverbs, codes):
    """-> list of verbs; verb = {'kind', 'argv', 'cells': [cell]}, cell = dict(col, f, ...parameters).  The first and the last
    verb always go through the strftime family, each verb with formats / zones of its own."""
    zones = [z for z in T.ZONES if z != "UTC"]
    verbs = []
    for k in range(nverbs):
        edge = k in (0, nverbs - 1)
        c = rng.random()
        if c < (0.7 if edge else 0.45):
            kind = "put"
        elif c < (0.8 if edge else 0.6):
            kind = "filter"
        elif c < (1.0 if edge else 0.75):
            kind = "sec2gmtdate"
        else:
            kind = "sec2gmt"
        v = {"kind": kind, "cells": []}
        if kind == "put":
            fs = [rng.choice(CHAIN_FAMILY[:4])] + [rng.choice(CHAIN_FAMILY + CHAIN_OTHER) if rng.random() < 0.6 else rng.choice(CHAIN_FAMILY[:4])
                                                  for _ in range(rng.randint(1, 3))]
            rng.shuffle(fs)
            stmts = []
            for j, f in enumerate(fs):
                cell = {"col": f"o{k}_{j}", "f": f, "z": rng.choice(zones), "n": rng.randrange(10), "fmt": _chain_fmt(rng, codes),
                        "p": rng.randrange(len(CHAIN_PFMTS))}
                col, z, n, fq, p = "$" + cell["col"], _dq(cell["z"]), cell["n"], _dq(cell["fmt"]), cell["p"]
                pq = _dq(CHAIN_PFMTS[p])
                e = {"strftime": f"strftime($t, {fq})", "strfntime": f"strfntime($ns, {fq})",
                     "strftime_local": f"strftime_local($t, {fq}, {z})", "strfntime_local": f"strfntime_local($ns, {fq}, {z})",
                     "sec2gmtdate": "sec2gmtdate($t)", "sec2localdate": f"sec2localdate($t, {z})",
                     "nsec2gmtdate": "nsec2gmtdate($ns)", "nsec2localdate": f"nsec2localdate($ns, {z})",
                     "sec2gmt": f"sec2gmt($t, {n})", "nsec2gmt": f"nsec2gmt($ns, {n})",
                     "sec2localtime": f"sec2localtime($t, {n}, {z})", "nsec2localtime": f"nsec2localtime($ns, {n}, {z})",
                     "strptime": f"strptime($p{p}, {pq})", "strpntime": f"strpntime($p{p}, {pq})", "gmt2sec": "gmt2sec($p0)",
                     "rt": f"strptime(strftime($t, {pq}), {pq})",
                     "rt_local": f'strptime_local(strftime_local($t, "%Y-%m-%d %H:%M:%S", {z}), "%Y-%m-%d %H:%M:%S", {z})',
                     "gmt2localtime": f"gmt2localtime($p0, {z})"}[f]
                if "$ns" in e:
                    stmts.append(f"if (is_present($ns)) {{ {col} = {e}; }}")
                else:
                    stmts.append(f"{col} = {e};")
                v["cells"].append(cell)
            v["argv"] = ["put", "\n".join(stmts)]
        elif kind == "filter":
            fmt = "%" + rng.choice([c_ for c_ in codes if c_ not in ("n", "t", "%")]) + rng.choice(CHAIN_LITS) + "%" + rng.choice("YmdHMSj")
            v["cells"].append({"col": None, "f": "filter", "fmt": fmt})
            v["argv"] = ["filter", f'strlen(strftime($t, {_dq(fmt)})) >= 3 && sec2gmtdate($t) =~ "^[0-9]{{4}}-[0-9]{{2}}-[0-9]{{2}}$"']
        elif kind == "sec2gmtdate":
            v["cells"].append({"col": f"v{k}", "f": "verb:sec2gmtdate"})
            v["argv"] = ["sec2gmtdate", f"v{k},nosuch"]
        else:
            opts = rng.choice(CHAIN_VERB_OPTS)
            v["cells"].append({"col": f"v{k}", "f": "verb:sec2gmt", "opts": opts})
            v["argv"] = ["sec2gmt"] + opts + [f"v{k}"]
        verbs.append(v)
    return verbs


def _fmt_judge(res, mon, func, fmt, got, b, argv_detail, x, label):
    """one strftime-family result against the model, failure named by the conversion that is wrong"""
    exp = T.strftime(fmt, b)
    bump(res, "checks")
    bump(res, "f:" + func)
    if got == exp:
        return True
    culs = T.culprits_x(fmt, b, got if isinstance(got, str) else "")
    if len(culs) >= 3 and len(culs) == len(T.tokenize(fmt)):
        culs = [("every-token", "end", "", "", "")]          # nothing of the requested format is recognisable in the result
    for cul, nxt, lit, prev, pc_ in culs:
        add_violation(res, _fsig(x, mon, func, cul, nxt, lit, prev, pc_, len(culs) > 1),
                      f"{label} = {got!r}, expected {exp!r} (wrong conversion: {cul})", argv_detail(expected=exp, got=got, func=func))
    return False


def chain_case(case):
    rng = random.Random(case["seed"])
    binary = case["binary"]
    res = case_result(_h("chain", case["seed"], binary))
    verbs = chain_spec(rng, case["nverbs"], case["codes"])
    batch = case["batch"]
    nrec = batch * case["nbatches"] + rng.randrange(1, batch)
    # instants: the boundary pool, the int64-ns range (every function applies), years 1..9999 (second-based functions only)
    inst = instant_rows(rng, 0, lo=-9223372036, hi=9223372035, with_boundary=True)
    rng.shuffle(inst)
    inst = inst[:nrec // 4]
    while len(inst) < nrec:
        c = rng.random()
        if c < 0.5:
            t = rng.randint(T.TABLE_MIN + 5 * 86400, T.TABLE_MAX - 5 * 86400)
        elif c < 0.85:
            t = rng.randint(-9223372036, 9223372035)
        else:
            t = rng.randint(T.MIN_SEC + 3 * 86400, T.MAX_SEC - 3 * 86400)
        inst.append((t, rand_frac(rng)))
    rng.shuffle(inst)
    rows = []
    for i, (t, ns) in enumerate(inst):
        b = T.broken_utc(t, 0)
        row = {"i": i, "t": t}
        if T.in_i64ns(t):
            row["ns"] = t * G + ns
        for p, pf in enumerate(CHAIN_PFMTS):
            row[f"p{p}"] = T.strftime(pf, b)
        for k, v in enumerate(verbs):
            if v["kind"] == "sec2gmtdate":
                row[f"v{k}"] = t
            elif v["kind"] == "sec2gmt":
                opts = v["cells"][0]["opts"]
                unit = next((o for o in opts if o.startswith("--")), "")
                scale = {"": 1, "--millis": 1000, "--micros": 10 ** 6, "--nanos": G}[unit]
                if scale > 1 and not T.in_i64ns(t):
                    row[f"v{k}"] = "n/a"
                else:
                    row[f"v{k}"] = t * scale + (ns // (G // scale) if scale > 1 else 0)
        rows.append(row)
    argv = ["--records-per-batch", str(batch), "--ijson", "--ojson"]
    for k, v in enumerate(verbs):
        argv += (["then"] if k else []) + v["argv"]
    stdin = _stdin(rows)
    env = {"MLR_VERIF_SCHED": case["sched"]} if case.get("sched") else {}
    race = binary == "mlr-race"
    r = R.mlr(argv, stdin=stdin, env=env, binary=binary, cpu_s=120 if race else 20, watchdog=240 if race else 60)
    bump(res, "processes")
    bump(res, "chain_runs:" + binary)
    res["evals"] = len(rows)
    res["sample"] = {"monitor": "chain", "argv": argv, "records": nrec, "batch": batch, "binary": binary}
    full = {"n": 0}

    def det(row=None, **kw):
        d = {"argv": argv, "env": env, "binary": binary, "records": nrec, "records_per_batch": batch}
        if full["n"] < 4:              # the whole stream is needed to replay (the law is about a multi-batch stream); keep a few copies only
            full["n"] += 1
            d["stdin"] = stdin
        else:
            d["stdin_note"] = "same stream as the first violations of this case (regenerate from the case seed)"
            d["case"] = {k_: v_ for k_, v_ in case.items() if k_ != "codes"}
        if row is not None:
            d["row"] = _jrow(row)
        d.update(kw)
        return d
    if r.verdict == "slow":
        res["inconc"] += 1
        return res
    if r.verdict in ("cpu", "output-cap", "deadlock"):
        add_violation(res, {"kind": "hang", "monitor": "chain", "verdict": r.verdict},
                      f"chain of {[v['kind'] for v in verbs]} over {nrec} records: {r.verdict}", det(got=r.brief(800)))
        return res
    if race:
        nrep = 0
        for rep in r.race_reports or []:
            for blk in rep.split("WARNING: DATA RACE")[1:]:
                if "github.com/johnkerl/miller" not in blk:
                    continue
                nrep += 1
                top = []
                for part in re.split(r"\n\s*\n", blk):
                    m = re.search(r"^\s+(github\.com/johnkerl/miller/v6/\S+?)\(", part, re.M)
                    if m and ("Read at" in part or "Write at" in part or "Previous" in part):
                        top.append(m.group(1).replace("github.com/johnkerl/miller/v6/pkg/", ""))
                pair = "|".join(sorted(set(top[:2])))
                if nrep <= 20:
                    add_violation(res, {"kind": "data-race", "monitor": "chain", "pair": pair},
                                  f"data race between two time verbs of one chain ({pair}): their results depend on the interleaving",
                                  det(report=blk[:5000]))
        bump(res, "race_reports", nrep)
    recs = None
    if r.verdict == "exited" and r.rc == 0:
        try:
            recs = json.loads(_ERR_RX.sub(r'\1"(error)"\2', r.out), parse_float=str, parse_int=str) if r.out.strip() else []
        except ValueError:
            recs = None
    if recs is None:
        add_violation(res, {"kind": "crash", "monitor": "chain"},
                      f"chain: mlr died or printed unparseable JSON (rc={r.rc} signal={r.signal}): {r.err[:200]!r}", det(got=r.brief(800)))
        return res
    by_i = {}
    for rec in recs:
        by_i.setdefault(str(rec.get("i")), []).append(rec)
    nk = []
    nviol0 = len(res["viol"])
    for row in rows:
        if len(res["viol"]) - nviol0 > 400:
            break
        got = by_i.get(str(row["i"]), [])
        t = row["t"]
        ns = inst[row["i"]][1]
        if len(got) != 1:
            add_violation(res, {"kind": "record-count", "monitor": "chain", "n": min(len(got), 2)},
                          f"chain: input record i={row['i']} (t={t}) appears {len(got)} times in the output; every verb of the chain is one-to-one",
                          det(row))
            continue
        rec = got[0]
        has_ns = "ns" in row
        loc = T.LOCAL_MIN + 5 * 86400 <= t <= T.LOCAL_MAX - 5 * 86400
        bu0, bu = T.broken_utc(t, 0), T.broken_utc(t, ns)
        x = {"range": _range_class(t), "chained": True}
        for k, v in enumerate(verbs):
            for cell in v["cells"]:
                f, col = cell["f"], cell["col"]
                if col is None:
                    continue
                g = rec.get(col)
                nsf = f in ("strfntime", "strfntime_local", "nsec2gmtdate", "nsec2localdate", "nsec2gmt", "nsec2localtime")
                if nsf and not has_ns:
                    bump(res, "checks")
                    if g is not None:
                        add_violation(res, dict(x, kind="value", monitor="chain", func=f), f"chain: {col} assigned although $ns is absent: {g!r}", det(row, got=g))
                    continue
                localf = "local" in f
                if localf and not loc:
                    res["skipped"] += 1
                    continue
                z = cell.get("z")
                xz = dict(x, zone=z) if localf else x

                def dd(**kw):
                    return det(row, verb=k, column=col, **kw)
                if f in ("strftime", "strfntime", "strftime_local", "strfntime_local"):
                    if localf:
                        bb = T.broken_local(t, ns if nsf else 0, z)
                    else:
                        bb = bu if nsf else bu0
                    arg = row["ns"] if nsf else t
                    _fmt_judge(res, "chain", f, cell["fmt"], g, bb, dd, xz, f"verb {k + 1} of the chain: {f}({arg}, {cell['fmt']!r}{', ' + z if localf else ''})")
                    continue
                if f in ("strptime", "gmt2sec", "rt"):
                    _cmp_num(res, "chain", f, g, Fraction(t), argv, row, env, extra=dict(x, form="plain", frac8=False, e_ctx="none"))
                    continue
                if f == "strpntime" and not has_ns:
                    res["skipped"] += 1            # not representable as int64 nanoseconds: inherent
                    continue
                if f == "strpntime":
                    _cmp_num(res, "chain", f, g, Fraction(t * G), argv, row, env, extra=dict(x, form="plain", frac8=False, e_ctx="none"))
                    continue
                if f == "rt_local":
                    kind, cands = T.local_to_instants(T.broken_local(t, 0, z).naive(), z)
                    if kind == "unknown":
                        res["skipped"] += 1
                    else:
                        _cmp_num(res, "chain", f, g, [Fraction(c_) for c_ in cands], argv, row, env, extra=dict(xz, lkind=kind))
                    continue
                n = cell.get("n", 0)
                if f == "sec2gmtdate":
                    e = T.ymd_text(bu0)
                elif f == "nsec2gmtdate":
                    e = T.ymd_text(bu)
                elif f == "sec2localdate":
                    e = T.ymd_text(T.broken_local(t, 0, z))
                elif f == "nsec2localdate":
                    e = T.ymd_text(T.broken_local(t, ns, z))
                elif f == "sec2gmt":
                    e = T.iso_gmt(bu0, n)
                elif f == "nsec2gmt":
                    e = T.iso_gmt(bu, n)
                elif f in ("sec2localtime", "gmt2localtime"):
                    e = T.iso_gmt(T.broken_local(t, 0, z), n if f == "sec2localtime" else 0, " ", "")
                elif f == "nsec2localtime":
                    e = T.iso_gmt(T.broken_local(t, ns, z), n, " ", "")
                elif f == "verb:sec2gmtdate":
                    e = T.ymd_text(bu0)
                elif f == "verb:sec2gmt":
                    opts = cell["opts"]
                    if row[col] == "n/a":
                        e = "n/a"
                    else:
                        unit = next((o for o in opts if o.startswith("--")), "")
                        scale = {"": 1, "--millis": 1000, "--micros": 10 ** 6, "--nanos": G}[unit]
                        nd = next((int(o[1:]) for o in opts if re.fullmatch(r"-[1-9]", o)), 0)
                        sub = (ns // (G // scale)) * (G // scale) if scale > 1 else 0
                        e = T.iso_gmt(T.broken_utc(t, sub), nd)
                else:
                    raise ValueError(f)
                if f == "gmt2localtime":
                    xz = dict(xz, wrap=_wrapped_text(g, t + T.broken_local(t, 0, z).off))
                _cmp_text(res, "chain", f, g, e, argv, row, env, extra=xz,
                          what=f"verb {k + 1} of the chain ({v['kind']}): {f} of t={t} gives {g!r}, the calendar says {e!r}")
        if "nosuch" in rec:
            add_violation(res, {"kind": "verb", "monitor": "chain", "class": "bystander"}, f"chain: a field 'nosuch' was created: {rec}", det(row))
        if nontrivial_instant(t, ns):
            nk.append(_h("chain", case["seed"], t, ns))
    # violations made through _cmp_text/_cmp_num carry a one-row stdin: give them the stream as well
    nfull = 0
    for vv in res["viol"][nviol0:]:
        d = vv["detail"]
        if "records_per_batch" not in d:
            d["row"] = d.pop("stdin", None)
            d.update({"argv": argv, "env": env, "binary": binary, "records": nrec, "records_per_batch": batch})
            if nfull < 3:
                nfull += 1
                d["stdin"] = stdin
            else:
                d["case"] = {k_: v_ for k_, v_ in case.items() if k_ != "codes"}
    bump(res, "chain_batches", -(-nrec // batch))
    for v in verbs:
        bump(res, "chain_verb:" + v["kind"])
    fam = sum(1 for v in verbs if v["kind"] != "sec2gmt" and (v["kind"] != "put" or any(c_["f"] in CHAIN_FAMILY for c_ in v["cells"])))
    res["nontrivial_keys"] = nk if (fam >= 2 and nrec > 2 * batch) else []
    res["nontrivial"] = bool(res["nontrivial_keys"])
    return res


# ==========================================================================================

def run(chk):
    only = chk.only
    q = chk.quick()
    fcodes, fskip = codes_for("f")
    pcodes, _ = codes_for("p")
    chk.extra["strftime_codes_documented_and_modelled"] = ["%" + c for c in fcodes]
    chk.extra["strftime_codes_documented_not_modelled"] = ["%" + c for c in fskip]
    chk.extra["strptime_codes_documented"] = ["%" + c for c in pcodes]

    def want(m):
        return not only or m in only
    S = chk.seed
    if want("gmt"):
        k = chk.pick(4, 40)
        cases = [{"seed": f"{S}/gmt/{i}", "n": chk.pick(700, 5000), "boundary": i == 0} for i in range(k)]
        chk.pmap(gmt_case, cases, label="gmt")
    if want("fmt"):
        cases = []
        nf = len(fcodes) + len(COMPOSITES)
        for i in range(chk.pick(3, 12)):
            cases.append({"seed": f"{S}/fmt/s{i}", "n": chk.pick(500, 3000), "boundary": True, "mode": "single", "part": i * 7, "codes": fcodes})
        cases.append({"seed": f"{S}/fmt/all", "n": chk.pick(300, 3000), "boundary": True, "mode": "all", "part": 0, "codes": fcodes})
        for i in range(chk.pick(4, 40)):
            cases.append({"seed": f"{S}/fmt/r{i}", "n": chk.pick(900, 5000), "boundary": i % 4 == 0, "mode": "random", "part": 0, "codes": fcodes})
        chk.pmap(fmt_case, cases, label="fmt")
    if want("parse"):
        cases = [{"seed": f"{S}/parse/{i}", "n": chk.pick(900, 5000), "boundary": i % 3 == 0} for i in range(chk.pick(6, 50))]
        chk.pmap(parse_case, cases, label="parse")
    if want("local"):
        for z in T.ZONES:
            T.transitions(z)          # computed once here, inherited by the forked workers
        cases = []
        for z in T.ZONES:
            for k in range(chk.pick(1, 6)):
                cases.append({"seed": f"{S}/local/{z}/{k}", "zone": z, "n": chk.pick(250, 2500), "per_tr": chk.pick(4, 11),
                              "far": chk.pick(120, 600), "codes": fcodes})
        chk.pmap(local_case, cases, label="local")
    if want("sel"):
        for z in T.ZONES:
            T.transitions(z)
        rng = chk.rng("sel")
        cases = []
        kinds = ["TZ", "--tz", "TZ+--tz", "ENV", "TZ+--tz+ENV", "all+argument"]
        for rep in range(chk.pick(2, 8)):
            for kind in kinds:
                zs = rng.sample([z for z in T.ZONES if z != "UTC"], 4)
                cases.append({"seed": f"{S}/sel/{kind}/{rep}", "kind": kind, "zones": zs, "n": chk.pick(60, 400),
                              "per_tr": chk.pick(1, 3), "codes": fcodes})
        chk.pmap(sel_case, cases, label="sel")
    if want("dhms"):
        cases = [{"seed": f"{S}/dhms/{i}", "n": chk.pick(1500, 5000)} for i in range(chk.pick(2, 16))]
        chk.pmap(dhms_case, cases, label="dhms")
    if want("datediff"):
        K = chk.pick(12, 1)
        cases = [{"seed": f"{S}/dd/g{k}", "n": 0, "grid": (k, K)} for k in range(chk.pick(1, 1))]
        cases += [{"seed": f"{S}/dd/{i}", "n": chk.pick(2500, 8000), "grid": None} for i in range(chk.pick(2, 12))]
        chk.pmap(dd_case, cases, label="datediff")
    if want("verb"):
        cases = []
        for rep in range(chk.pick(1, 4)):
            for k, opts in enumerate(VERB_OPTS if not q else VERB_OPTS[:13]):
                cases.append({"seed": f"{S}/verb/{rep}/{k}", "verb": "sec2gmt", "opts": opts, "n": chk.pick(150, 1500), "tz": (k + rep) % 2 == 1})
            for k in range(2):
                cases.append({"seed": f"{S}/verbd/{rep}/{k}", "verb": "sec2gmtdate", "opts": [], "n": chk.pick(300, 2000), "tz": k == 1})
        chk.pmap(verb_case, cases, label="verb")
    if want("nonnum"):
        chk.pmap(nonnum_case, [{"seed": f"{S}/nonnum"}], label="nonnum")
    if want("chain"):
        rng = chk.rng("chain")
        cases = []
        for i in range(chk.pick(12, 80)):
            cases.append({"seed": f"{S}/chain/{i}", "binary": "mlr-verif", "nverbs": 2 + i % 2, "batch": [500, 50, 200, 100][i % 4],
                          "nbatches": 3 + i % 3, "codes": fcodes, "sched": f"{rng.randint(1, 10 ** 6)}:300" if i % 3 == 2 else None})
        for i in range(chk.pick(5, 30)):
            cases.append({"seed": f"{S}/chainr/{i}", "binary": "mlr-race", "nverbs": 2 + i % 2, "batch": [50, 100, 200][i % 3],
                          "nbatches": 3 + i % 2, "codes": fcodes, "sched": None})
        chk.pmap(chain_case, cases, label="chain")
    if want("doc"):
        chk.pmap(doc_case, [{"func": f} for f in TIME_FUNCS + ["__md__"]], label="doc")

    # ---- evidence ------------------------------------------------------------------------
    st = chk.stats
    chk.extra["functions_checked"] = sorted(k[2:] for k in st if k.startswith("f:"))
    chk.extra["strftime_codes_reached"] = {k[5:]: v for k, v in sorted(st.items()) if k.startswith("code:")}
    chk.extra["strptime_codes_reached"] = {k[6:]: v for k, v in sorted(st.items()) if k.startswith("pcode:")}
    chk.extra["zones"] = {k[5:]: v for k, v in sorted(st.items()) if k.startswith("zone:")}
    chk.extra["selectors"] = {k[9:]: v for k, v in sorted(st.items()) if k.startswith("selector:")}
    chk.extra["wall_clock_kinds"] = {k: v for k, v in sorted(st.items()) if k.startswith(("lkind:", "gap_choice:", "overlap_choice:"))}
    for k in [k for k in st if k.startswith(("f:", "code:", "pcode:", "zone:", "selector:", "lkind:", "gap_choice:", "overlap_choice:"))]:
        st.pop(k)
    try:
        with open("/usr/share/zoneinfo/tzdata.zi") as fh:
            chk.extra["tzdata_version"] = fh.readline().strip().lstrip("# ")
    except OSError:
        chk.extra["tzdata_version"] = "unknown"
    import subprocess
    emb = subprocess.run(["grep", "-rl", '"time/tzdata"', "/repo/pkg", "/repo/cmd"], capture_output=True, text=True).stdout.strip()
    chk.extra["go_embedded_tzdata_import"] = emb.split("\n") if emb else []
    chk.rule = ("rows = instants x formats x zones fed in batches to one mlr put process each: boundary pool (day boundaries around Feb 28/29, Mar 1, "
                "year ends of years 1,4,100,400,1600,1700,1900,1970,2000,2024,2100,9999; epoch +-2; int32/int64-ns edges; years-1..9999 limits) + "
                "seeded uniform instants in years 1..9999 with ns fractions {0,1,499999999,500000000,999999999,k/512,ms,random}; every transition "
                "of 12 IANA zones in the TZif table (1800s LMT changes .. 2037), footer-rule transitions 2038-2100 (quick: every third year), 2400 and 9990, "
                "+-{0,1,1799,1800,3599,3600}s plus wall-clock texts inside every gap/overlap, plus per zone instants in years 1..1900 (LMT, odd-second "
                "offsets) and 2038..9999; strptime formats = fixed date x time products and random arrangements of the documented conversions "
                "(fixed-width ones touching); chains of 2-3 time verbs over 3-5 batches of 50..500 records (mlr-verif and mlr-race); every documented %-code "
                "alone, composites, random 2-6 code concatenations with literals; dhms integers incl. negatives and int64 limits; DATEDIF date pool^2 "
                "+ random pairs x 6 units; verb option sets x values. Non-trivial = instant within 2 days of a leap day, year end, zone transition "
                "or the epoch, or negative, or with non-zero fraction (dhms: negative or fractional; datediff: month-end/leap/year-end day involved). "
                "Distinct = hash of (monitor, instant, fraction, format/zone/unit)")
    chk.assumptions = [
        "years outside 1..9999 are declined (Python datetime range; the property statement quantifies over years 1..9999)",
        "leap seconds are not modelled by either side",
        "float epoch seconds: any instant within 2 ns of the exact value of the double is accepted (docs do not define the float->instant conversion; "
        "exact ns behaviour is checked through the integer-nanosecond functions); fractional digits are truncated, as the doc example "
        "strftime(123456.789,\"%1S\") = 36.7 and sec2gmt(-1234567890.123) = ...00:28:29Z (floor) fix",
        "local functions are checked over years 1..9999 against zoneinfo (first/LMT type before the TZif table, POSIX footer rule after it); gap/overlap "
        "wall-clock texts are generated from the table transitions and the footer transitions of 2038-2100, 2400 and 9990; elsewhere a wall-clock text "
        "that is not shown by exactly one instant is declined",
        "%Z in strptime_local: an abbreviation that has carried several offsets in the zone (Pacific/Apia LMT, Europe/Dublin IST) may be read with any of them",
        "random strptime formats: no '.' directly after %S/%T/%X (that is the documented fractional-seconds input), no literal letter directly after a "
        "name conversion (%a %A %b %B %h %p %Z %r: how a name ends before a letter is not documented), variable-width conversions (%A %B %e) do not touch the next one",
        "chain monitor: no ENV[\"TZ\"] assignment inside chained verbs (process-wide state; which verb sees it first is not defined) - zones are given as arguments; "
        "a race report counts only if a frame of github.com/johnkerl/miller is on one of its stacks",
        "an integral instant obtained without fractional input must be printed as an integer (help examples gmt2sec(..) = 981173106, strptime(..) = 14400)",
        "wall-clock texts inside a DST gap: either the offset before or after the gap is accepted; inside an overlap: either occurrence "
        "(Miller's docs are silent, Go documents 'one of the two'); localtime2sec/localtime2gmt/localtime2nsec must agree with each other",
        "strptime: only the codes in the strptime table of reference-dsl-time.md; %s is not in that table, so strptime(x,\"%s\") = (error) is "
        "documented behaviour and %s takes part only in strftime checks; fractional seconds in strptime input only as '%SZ' (help examples) and "
        "'%S.%f' (doc example); '%S' at end of format with fractional input is documented to give (error)",
        "strptime formats must contain a full date; date-only formats mean 00:00:00 (date-time-examples.md); %y only for 1969..2068 (POSIX pivot); "
        "%Z in strptime only 'UTC' or a three-letter alphabetic abbreviation of the zone in force ('three-letter ... only if you're in them')",
        "%z of an offset with odd seconds (pre-1920 local mean times) is the offset truncated to minutes (+HHMM)",
        "dhms: zero padding of inner d/h/m/s fields is not pinned by any documented example, outputs are compared by numeric field values, presence of "
        "units and sign; fsec* exact for k/64 fractions, otherwise the printed fields must be the floor-based d/h/m/s of |x| with the six decimals "
        "within 1e-6, or - at x within 1e-6 below a whole second - the carried form (next second, or a seconds field of 60.000000, counted in 'observed'); "
        "negative durations are fed to the parsers as '-' + the text of |n| (the shape the forward functions print)",
        "datediff: 'yd'/'md' are declined when the shifted start date does not exist (Feb 29 anniversary in a non-leap year, day 29-31 in a shorter month): "
        "the help does not determine those (spreadsheets famously return negative 'md' there)",
        "verb == function is asserted only without --millis/--micros/--nanos (the help states the equivalence for the plain form); unit flags are "
        "checked against the calendar with exact integer arithmetic; a float count of units may land anywhere within one ulp of value/scale seconds",
        "numeric-looking values other than plain decimal ints/floats (hex, binary, 1e9, ...) are compared verb-vs-function only (their inference is C06's subject)",
    ]
