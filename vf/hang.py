"""Hang classifier: decide "this process can never make progress" from two
goroutine dumps of the live process, not from elapsed time.

deadlock <=> in both dumps (taken >= 300 ms apart via the SIGUSR1 hook) every
goroutine running Miller code is parked on a channel/mutex/cond, or sits in
IO wait / syscall while the process has no live child (the harness gives mlr
regular files for stdin/stdout/stderr, which never block, so the only blocking
descriptors are pipes to its own children), none is running/runnable/sleeping,
and the two dumps show the same goroutines with the same stacks.
"""
import os
import re
import signal
import time

END = "=== END VERIF DUMP ==="

PARKED = ("chan send", "chan receive", "select", "sync.Mutex.Lock", "sync.RWMutex",
          "sync.Cond.Wait", "semacquire", "sync.WaitGroup.Wait")
IOISH = ("IO wait", "syscall")

_hdr = re.compile(r"^goroutine (\d+)(?: gp=\S+ m=\S+(?: mp=\S+)?)? \[([^\]]*)\]:")


def parse_dump(text):
    """-> list of {id, state, frames:[(func, file:line)]}"""
    gs = []
    cur = None
    lines = text.splitlines()
    i = 0
    while i < len(lines):
        l = lines[i]
        m = _hdr.match(l)
        if m:
            state = m.group(2)
            state = re.sub(r",\s*\d+ minutes?", "", state)
            state = state.split(",")[0].strip()
            cur = {"id": int(m.group(1)), "state": state, "frames": []}
            gs.append(cur)
        elif cur is not None and l and not l.startswith("\t") and not l.startswith(" "):
            fn = l
            loc = ""
            if i + 1 < len(lines) and lines[i + 1].startswith("\t"):
                loc = lines[i + 1].strip().split(" +")[0]
                i += 1
            if fn.startswith("created by "):
                fn = fn.split(" in goroutine")[0]
                cur["frames"].append((fn, loc))
            else:
                k = fn.rfind("(")
                if k > 0 and fn.endswith(")"):
                    fn = fn[:k]
                cur["frames"].append((fn, loc))
        elif not l.strip():
            cur = None
        i += 1
    return gs


def is_user(g):
    for fn, _ in g["frames"]:
        if "verifDumpLoop" in fn:
            return False
    for fn, _ in g["frames"]:
        f = fn.replace("created by ", "")
        if f.startswith("github.com/johnkerl/miller") or f.startswith("main."):
            return True
    return False


def top_user_frame(g):
    for fn, loc in g["frames"]:
        if fn.startswith("created by "):
            continue
        if fn.startswith("github.com/johnkerl/miller") or fn.startswith("main."):
            short = fn.replace("github.com/johnkerl/miller/v6/pkg/", "")
            return short
    return g["frames"][0][0] if g["frames"] else "?"


def handler_installed(pid, signo=signal.SIGUSR1):
    """True iff the process currently catches signo (SigCgt in /proc/<pid>/status). A Go process that has not
    yet run the hook's init() (loaded box, still starting up) would be killed by SIGUSR1."""
    try:
        with open(f"/proc/{pid}/status") as f:
            for line in f:
                if line.startswith("SigCgt:"):
                    mask = int(line.split()[1], 16)
                    return bool(mask & (1 << (int(signo) - 1)))
    except (OSError, ValueError):
        pass
    return False


def _take_dump(pid, path, timeout=3.0):
    if not handler_installed(pid):
        return None
    try:
        before = os.path.getsize(path)
    except OSError:
        before = 0
    try:
        os.kill(pid, signal.SIGUSR1)
    except ProcessLookupError:
        return None
    t0 = time.time()
    while time.time() - t0 < timeout:
        try:
            sz = os.path.getsize(path)
        except OSError:
            sz = 0
        if sz > before:
            with open(path, "r", errors="replace") as f:
                f.seek(before)
                txt = f.read()
            if END in txt:
                return txt
        time.sleep(0.02)
    return None


def blocked_signature(gs):
    return sorted(set(top_user_frame(g) for g in gs))


def classify(pid, dump_path, has_live_children, use_usr1=True, gap=0.3):
    """-> (verdict, signature, dumptext); verdict in deadlock | not-deadlocked | unknown"""
    if not use_usr1:
        return ("unknown", None, None)
    d1 = _take_dump(pid, dump_path)
    if d1 is None:
        return ("unknown", None, None)
    time.sleep(gap)
    d2 = _take_dump(pid, dump_path)
    if d2 is None:
        return ("unknown", None, d1)
    g1 = [g for g in parse_dump(d1) if is_user(g)]
    g2 = [g for g in parse_dump(d2) if is_user(g)]
    if not g1 or not g2:
        return ("unknown", None, d2)
    live = None
    for gs in (g1, g2):
        for g in gs:
            st = g["state"]
            if any(st.startswith(p) for p in PARKED):
                continue
            if any(st.startswith(p) for p in IOISH):
                if live is None:
                    live = has_live_children(pid)
                if live:
                    return ("not-deadlocked", None, d2)
                continue
            return ("not-deadlocked", None, d2)
    k1 = sorted((g["id"], g["state"], tuple(g["frames"])) for g in g1)
    k2 = sorted((g["id"], g["state"], tuple(g["frames"])) for g in g2)
    if k1 != k2:
        return ("not-deadlocked", None, d2)
    return ("deadlock", blocked_signature(g2), d2)


def quiescent_waiting_for_stdin(pid, dump_path, gap=0.2):
    """For the streaming monitor: every Miller goroutine parked, except exactly the
    stdin reader which is blocked in read(0). -> (bool|None, dumptext)"""
    d1 = _take_dump(pid, dump_path)
    if d1 is None:
        return (None, None)
    time.sleep(gap)
    d2 = _take_dump(pid, dump_path)
    if d2 is None:
        return (None, d1)
    res = []
    for d in (d1, d2):
        gs = [g for g in parse_dump(d) if is_user(g)]
        readers = 0
        for g in gs:
            st = g["state"]
            if any(st.startswith(p) for p in PARKED):
                continue
            if any(st.startswith(p) for p in IOISH):
                fr = " ".join(fn for fn, _ in g["frames"])
                if "os.(*File).Read" in fr or "poll.(*FD).Read" in fr:
                    readers += 1
                    continue
            return (False, d2)
        res.append((readers, sorted((g["id"], g["state"], tuple(g["frames"])) for g in gs)))
    if res[0] != res[1]:
        return (False, d2)
    return (res[0][0] >= 1, d2)
