"""Shared generators: record streams with unique ids, and a typed verb catalogue."""
import json
import random

A_POOL = ["pan", "eks", "wye", "zee", "hat"]
B_POOL = ["x1", "x2", "x3", "", "Y"]


def records(rng, n, ragged=0.15, id_prefix="r", hetero=False, wide=False):
    """n records as lists of (key, value-text) pairs. Every record has a unique `id`.
    Fields: id, a (group key, small pool), b (second key, incl. empty), i (int), x, y (floats),
    sometimes missing (ragged), sometimes extra fields; wide => >= 12 fields."""
    out = []
    for k in range(n):
        rec = [("id", f"{id_prefix}{k+1}")]
        if rng.random() >= ragged:
            rec.append(("a", rng.choice(A_POOL)))
        if rng.random() >= ragged:
            rec.append(("b", rng.choice(B_POOL)))
        if rng.random() >= ragged:
            rec.append(("i", str(rng.randint(-20, 60))))
        if rng.random() >= ragged:
            rec.append(("x", f"{rng.uniform(-5, 5):.4f}"))
        if rng.random() >= ragged:
            rec.append(("y", rng.choice([f"{rng.uniform(0, 100):.2f}", str(rng.randint(0, 9)), ""])))
        if hetero and rng.random() < 0.3:
            rec.append((rng.choice(["p", "q", "r"]), rng.choice(["u", "v", "3", "0x1F"])))
        if wide:
            for j in range(12):
                rec.append((f"w{j}", str(rng.randint(0, 99))))
        out.append(rec)
    return out


def dkvp(recs, ofs=",", ops="="):
    return "".join(ofs.join(f"{k}{ops}{v}" for k, v in r) + "\n" for r in recs)


def parse_dkvp(text, ifs=",", ips="="):
    out = []
    for line in text.split("\n"):
        if line == "":
            continue
        rec = []
        for pos, pair in enumerate(line.split(ifs)):
            if ips in pair:
                k, v = pair.split(ips, 1)
            else:
                k, v = str(pos + 1), pair
            rec.append((k, v))
        out.append(rec)
    return out


def json_text(recs, as_strings=True):
    """records -> JSON array text; values as JSON strings (never inferred by mlr) unless as_strings False."""
    objs = []
    for r in recs:
        items = []
        for k, v in r:
            if as_strings or not isinstance(v, (int, float)):
                items.append(json.dumps(k, ensure_ascii=False) + ": " + json.dumps(v, ensure_ascii=False))
            else:
                items.append(json.dumps(k, ensure_ascii=False) + ": " + json.dumps(v))
        objs.append("{" + ", ".join(items) + "}")
    return "[\n" + ",\n".join(objs) + "\n]\n"


def parse_json_records(text):
    """mlr --ojson output -> list of list-of-pairs, keeping key order and duplicates."""
    text = text.strip()
    if not text:
        return []
    dec = json.JSONDecoder(object_pairs_hook=lambda pairs: pairs)
    out = []
    i = 0
    n = len(text)
    while i < n:
        while i < n and text[i] in " \t\r\n,":
            i += 1
        if i >= n:
            break
        v, j = dec.raw_decode(text, i)
        i = j
        if isinstance(v, list) and (not v or not isinstance(v[0], tuple)):
            # top-level array of objects
            out.extend(v)
        else:
            out.append(v)
    return out


def csv_simple(recs):
    """Homogeneous records -> CSV text (no quoting needed for generated values)."""
    if not recs:
        return ""
    hdr = [k for k, _ in recs[0]]
    lines = [",".join(hdr)]
    for r in recs:
        lines.append(",".join(v for _, v in r))
    return "\n".join(lines) + "\n"


# ------------------------------------------------------------------------------------------
# Verb catalogue. Each entry: (argv list, tags) ; tags:
#   S = fully streaming (record in -> records out before next record), R = retaining,
#   E = early exit, C = consults NR/FNR/FILENAME context, X = random (needs --seed),
#   P = prints text lines into the stream
def verb_catalogue(rng):
    k = rng.choice([0, 1, 2, 3, 5, 17])
    f = rng.choice(["a", "b", "i", "x", "y"])
    g = rng.choice(["a", "b", "a,b"])
    cat = [
        (["cat"], "S"),
        (["cat", "-n"], "SC"),
        (["cat", "-n", "-g", g], "S"),
        (["cat", "-N", "idx"], "SC"),
        (["head", "-n", str(k)], "SE"),
        (["head", "-n", str(k), "-g", g], "S"),
        (["head", "-n", str(-k)], "R"),
        (["tail", "-n", str(k)], "R"),
        (["tail", "-n", str(k), "-g", g], "R"),
        (["tac"], "R"),
        (["sort", "-f", "a", "-nr", "x"], "R"),
        (["sort", "-nf", "i"], "R"),
        (["sort", "-c", "b", "-f", "id"], "R"),
        (["uniq", "-g", g], "S"),
        (["uniq", "-g", g, "-c"], "R"),
        (["uniq", "-g", g, "-n"], "R"),
        (["count"], "R"),
        (["count", "-g", g], "R"),
        (["count-distinct", "-f", g], "R"),
        (["count-similar", "-g", g], "R"),
        (["stats1", "-a", "mean,sum,count,min,max", "-f", "x,i", "-g", g], "R"),
        (["stats1", "-a", "p10,p50,p90,first,last", "-f", "i"], "R"),
        (["step", "-a", "delta,shift,counter,rsum", "-f", "i"], "S"),
        (["step", "-a", "shift_lag,ratio", "-f", "x", "-g", "a"], "S"),
        (["merge-fields", "-a", "sum,count", "-f", "x,i", "-o", "xi"], "S"),
        (["merge-fields", "-k", "-a", "max", "-c", "x,y", "-o", "m"], "S"),
        (["put", '$z = $x . "_" . $i'], "S"),
        (["put", '$nf = NF; unset $b'], "S"),
        (["put", "-q", 'print "P:" . $id'], "SP"),
        (["put", 'print "Q:" . $id . ":" . $a'], "SP"),
        (["put", "-q", 'emit mapsum({"id": $id}, {"v": $i . "!"})'], "S"),
        (["put", "-q", '@c[$a] += 1; end { emit @c, "a" }'], "R"),
        (["put", '@s += $i; $s = @s'], "S"),
        (["put", 'begin { @n = 0 } @n += 1; $n = @n; end { emit @n }'], "S"),
        (["put", "-q", 'tee > "/dev/null", $*'], "S"),
        (["filter", "$i % 2 == 0"], "S"),
        (["filter", "-x", 'is_present($a) && $a == "pan"'], "S"),
        (["filter", 'is_present($x) && $x > 0 || $b == ""'], "S"),
        (["cut", "-f", "id,a,x"], "S"),
        (["cut", "-o", "-f", "x,id"], "S"),
        (["cut", "-x", "-f", f], "S"),
        (["cut", "-r", "-f", "^[ab]$"], "S"),
        (["having-fields", "--at-least", f], "S"),
        (["rename", "a,A"], "S"),
        (["rename", "-r", "^(.)$,f_\\1"], "S"),
        (["reorder", "-f", "x,i"], "S"),
        (["reorder", "-e", "-f", "id"], "S"),
        (["regularize"], "S"),
        (["unsparsify"], "R"),
        (["unsparsify", "--fill-with", "X"], "R"),
        (["unsparsify", "-f", "a,b,zz"], "S"),
        (["fill-down", "-f", "a"], "S"),
        (["fill-down", "-a", "-f", "b"], "S"),
        (["fill-empty"], "S"),
        (["fill-empty", "-v", "E"], "S"),
        (["label", "ID,AA"], "S"),
        (["sec2gmt", "i"], "S"),
        (["nest", "--ivar", ";", "-f", "b"], "R"),
        (["nest", "--explode", "--values", "--across-records", "-f", "a", "--nested-fs", "e"], "S"),
        (["group-by", g], "R"),
        (["group-like"], "R"),
        (["decimate", "-n", "3"], "S"),
        (["decimate", "-n", "2", "-b", "-g", "a"], "S"),
        (["top", "-n", "2", "-f", "x", "-g", "a", "-a"], "R"),
        (["top", "-n", "1", "-f", "i", "--min"], "R"),
        (["fraction", "-f", "i"], "R"),
        (["count-similar", "-g", "b", "-o", "cs"], "R"),
        (["nothing"], "S"),
        (["sort-within-records"], "S"),
        (["sort-within-records", "-r"], "S"),
        (["altkv"], "S"),
        (["sparsify"], "S"),
        (["template", "-f", "id,zz,a,i"], "S"),
        (["gap", "-n", "4"], "S"),
        (["grep", "-i", "PAN"], "S"),
        (["grep", "-v", "eks"], "S"),
        (["json-stringify", "-f", "a"], "S"),
        (["most-frequent", "-f", "a"], "R"),
        (["least-frequent", "-f", "b", "-b"], "R"),
        (["histogram", "-f", "i,x", "--lo", "-20", "--hi", "60", "--nbins", "4"], "R"),
        (["seqgen", "--start", "1", "--stop", str(rng.choice([0, 1, 5, 700]))], "SE"),
        (["repeat", "-n", "2"], "S"),
        (["skip-trivial-records"], "S"),
        (["case", "-u", "-k", "-f", "a,b"], "S"),
        (["sub", "-f", "a,b", "e", "E"], "S"),
        (["tee", "tee.out"], "S"),
        (["put", '$f = FILENAME; $nr = NR; $fnr = FNR'], "SC"),
        (["put", "-q", 'emit (mapdiff($*, {"x": 0}), {"nr": NR})'], "SC"),
    ]
    return cat


def random_chain(rng, nmin=1, nmax=4, exclude_tags="", require=None):
    cat = verb_catalogue(rng)
    n = rng.randint(nmin, nmax)
    chain = []
    tags = []
    tries = 0
    while len(chain) < n and tries < 100:
        tries += 1
        v, t = rng.choice(cat)
        if any(c in exclude_tags for c in t):
            continue
        chain.append(v)
        tags.append(t)
    argv = []
    for i, v in enumerate(chain):
        if i:
            argv.append("then")
        argv.extend(v)
    return argv, chain, tags
