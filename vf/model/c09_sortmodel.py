"""Reference comparators for C09, written from Miller's documentation only:

  * `mlr sort --help`, reference-verbs.md (sort, sort-within-records, top), sorting.md,
    `mlr help function sort`, reference-main-null-data.md (empty values under -n / -nr),
    reference-main-arithmetic.md (what scans as a number), the facette/natsort README
    ("Alphanum Algorithm": digit runs compare numerically, everything else lexically).

Every comparator returns -1 / 0 / +1, or None when the documentation does not decide the pair
(the checker then accepts either order: "oracles decline rather than guess").
An *element* is a str (the text of a field value / array element) or a bool (DSL only).
"""
import functools
import re

_INT_PREFIXED = re.compile(r"^([+-]?)(0x[0-9a-fA-F]+|0b[01]+|0o[0-7]+)$")
_INT_DEC = re.compile(r"^[+-]?(0|[1-9][0-9]*)$")
_FLOAT = re.compile(r"^[+-]?((0|[1-9][0-9]*)\.[0-9]*|\.[0-9]+|(0|[1-9][0-9]*))([eE][+-]?[0-9]+)?$")

TWO53 = 1 << 53


@functools.lru_cache(maxsize=1 << 16)
def parse_num(t):
    """Number grammar restricted to the spellings reference-main-arithmetic.md names explicitly:
    decimal ints without leading zeros, 0x/0b/0o ints (optionally signed), decimal floats with a
    point and/or exponent. int64 range only. Returns int / float / None."""
    if not isinstance(t, str):
        return None
    m = _INT_PREFIXED.match(t)
    if m:
        body = m.group(2)
        v = int(body[2:], {"x": 16, "b": 2, "o": 8}[body[1]])
        if v >= 1 << 63:
            return None      # two's-complement territory: not generated, not modelled
        return -v if m.group(1) == "-" else v
    if _INT_DEC.match(t):
        v = int(t)
        if -(1 << 63) <= v < (1 << 63):
            return v
        return None
    if _FLOAT.match(t):
        try:
            f = float(t)
        except ValueError:
            return None
        if f != f or f in (float("inf"), float("-inf")):
            return None
        return f
    return None


_STARTS_NUMLIKE = re.compile(r"^[+-]?\.?[0-9]")
_LOOSE_NUM = re.compile(r"^[+-]?(0[xXbBoO])?[0-9a-fA-F_.]*([eEpP][+-]?[0-9_]*)?$")
_INFNAN = re.compile(r"^[+-]?(inf|infinity|nan)$", re.I)


def looks_ambiguous(t):
    """A text that is not in the modelled number grammar but might be taken for a number by some
    scanner (leading zeros, digit separators, Inf/NaN, capital 0X, hex floats...): the model declines on it."""
    if not isinstance(t, str) or t == "":
        return False
    if parse_num(t) is not None:
        return False
    if _INFNAN.match(t):
        return True
    return _STARTS_NUMLIKE.match(t) is not None and _LOOSE_NUM.match(t) is not None


def exactly_double(v):
    if isinstance(v, float):
        return True
    return abs(v) <= TWO53 or float(v) == v and int(float(v)) == v


def interfering_floats(texts):
    """Float spellings in `texts` that equal the double image shared by two or more DIFFERENT ints of `texts`
    (e.g. 9007199254740992.0 next to 9007199254740992 and 9007199254740993). How an int beyond 2^53 compares with a
    float is not documented (cmp_num declines on such pairs); if it goes through doubles, both ints tie with the float
    while they differ from each other, i.e. the collation is not transitive on that triple - outside 'values exactly
    representable as doubles' - and no order can be required of a list that contains it."""
    imgs, floats = {}, {}
    for t in texts:
        v = parse_num(t) if isinstance(t, str) else None
        if isinstance(v, float):
            floats.setdefault(v, set()).add(t)
        elif isinstance(v, int) and abs(v) >= TWO53:
            imgs.setdefault(float(v), set()).add(v)
    out = set()
    for f, ints in imgs.items():
        if len(ints) > 1 and f in floats:
            out |= floats[f]
    return out


def _sgn(x):
    return (x > 0) - (x < 0)


def _bcmp(a, b):
    ea, eb = a.encode("utf-8", "surrogateescape"), b.encode("utf-8", "surrogateescape")
    return (ea > eb) - (ea < eb)


def text_of(e):
    if isinstance(e, bool):
        return "true" if e else "false"
    return e


def cmp_lex(a, b):
    return _bcmp(text_of(a), text_of(b))


_SAFE_NONASCII = set("éÉñÑöÖжЖωΩ日本😀")


def _fold_safe(s):
    return all(ord(c) < 128 or c in _SAFE_NONASCII for c in s)


def cmp_fold(a, b):
    a, b = text_of(a), text_of(b)
    if not (_fold_safe(a) and _fold_safe(b)):
        return None
    lo = _bcmp(a.lower(), b.lower())
    up = _bcmp(a.upper(), b.upper())
    # "case-folded": the documentation does not say towards which case; a pair is decided only if
    # both directions agree (they differ only around [ \ ] ^ _ ` between 'Z' and 'a')
    return lo if lo == up else None


_CHUNKS = re.compile(r"[0-9]+|[^0-9]+")


def cmp_nat(a, b):
    a, b = text_of(a), text_of(b)
    if a == b:
        return 0
    ca, cb = _CHUNKS.findall(a), _CHUNKS.findall(b)
    for x, y in zip(ca, cb):
        dx, dy = x[0] in "0123456789", y[0] in "0123456789"
        if dx and dy:
            if int(x) != int(y):
                return _sgn(int(x) - int(y))     # "digit runs compare numerically", whatever their length
            continue     # 02 vs 2: numerically equal chunks
        if x != y:
            return _bcmp(x, y)
    if len(ca) != len(cb):
        return -1 if len(ca) < len(cb) else 1
    # e.g. a02 vs a2: numerically equal chunks, different texts. The Alphanum algorithm gives no order
    # and (unlike 1 vs 1.0 under -nf) it is not documented as "equal" either, so in a multi-key chain
    # it is unknown whether the next key is consulted: undecided.
    return None


def nat_overflow(t):
    """Does the text hold a digit run whose value exceeds int64? (Listed defect C09-F8: such runs are compared as text,
    which makes the natural collation intransitive; the pair probes report it, list-level checks decline.)"""
    t = text_of(t)
    return any(c[0] in "0123456789" and int(c) >= (1 << 63) for c in _CHUNKS.findall(t))


def nat_tied(a, b):
    """Different texts whose chunk lists are equal up to the numeric value of digit runs (a02 / a2)."""
    a, b = text_of(a), text_of(b)
    if a == b:
        return False
    ca, cb = _CHUNKS.findall(a), _CHUNKS.findall(b)
    if len(ca) != len(cb):
        return False
    for x, y in zip(ca, cb):
        dx, dy = x[0] in "0123456789", y[0] in "0123456789"
        if dx and dy:
            if int(x) != int(y):
                return False
        elif x != y:
            return False
    return True


def num_rank(e):
    """0 number, 1 boolean, 2 empty, 3 string (statement: 'numbers by value before booleans,
    empties and strings'); None = the model declines to classify."""
    if isinstance(e, bool):
        return 1
    if e == "":
        return 2
    if parse_num(e) is not None:
        return 0
    if looks_ambiguous(e):
        return None
    return 3


def cmp_num(a, b):
    ra, rb = num_rank(a), num_rank(b)
    if ra is None or rb is None:
        return None
    if ra != rb:
        return _sgn(ra - rb)
    if ra == 0:
        va, vb = parse_num(a), parse_num(b)
        exact = (va > vb) - (va < vb)
        if isinstance(va, int) and isinstance(vb, int):
            # reference-main-arithmetic.md / reference-main-int... : ints are 64-bit integers and stay ints; two ints
            # are ordered by their integer value however large (no conversion is documented for int-vs-int)
            return exact
        if not (exactly_double(va) and exactly_double(vb)):
            # an int beyond 2^53 against a float: the documentation does not say whether the int is converted
            fl = (float(va) > float(vb)) - (float(va) < float(vb))
            if fl != exact:
                return None      # outside "values exactly representable as doubles"
        return exact
    if ra == 3:
        # `mlr help function sort`: "numbers first numerically and then strings lexically";
        # statement: verb, functions and top "obey the same collation"
        return _bcmp(a, b)
    return 0        # booleans among themselves, empties among themselves: tied


BASE = {"f": cmp_lex, "c": cmp_fold, "n": cmp_num, "t": cmp_nat}


def comparator(kind, reverse):
    base = BASE[kind]
    if not reverse:
        return base

    def rev(a, b):
        c = base(a, b)
        return None if c is None else -c
    return rev


# verb flag -> (kind, reverse)
VERB_FLAGS = {"-f": ("f", False), "-r": ("f", True), "-c": ("c", False), "-cr": ("c", True),
              "-nf": ("n", False), "-n": ("n", False), "-nr": ("n", True),
              "-t": ("t", False), "-tr": ("t", True), "-rt": ("t", True)}


def cmp_chain(cmps, A, B):
    for c, a, b in zip(cmps, A, B):
        r = c(a, b)
        if r is None:
            return None
        if r:
            return r
    return 0


def check_sequence(cmps, keys):
    """keys: list of key tuples in output order. Returns None if no decided inversion exists, else
    (i, j) positions with cmp_chain(keys[i], keys[j]) > 0, i < j. Distinct tuples are compared
    all-pairs through their first/last positions (needed because undecided and tied pairs break the
    'adjacent pairs suffice' argument). Per-column comparisons are memoised (a column holds few
    distinct texts), so the all-pairs pass stays cheap for lists of a thousand distinct tuples."""
    first, last = {}, {}
    for p, k in enumerate(keys):
        if k not in first:
            first[k] = p
        last[k] = p
    ds = list(first)
    memo = [{} for _ in cmps]

    def chain(A, B):
        for x, c in enumerate(cmps):
            a, b = A[x], B[x]
            if a == b:
                continue
            m = memo[x]
            r = m.get((a, b), m)
            if r is m:
                r = c(a, b)
                m[(a, b)] = r
            if r is None:
                return None
            if r:
                return r
        return 0
    for x in range(len(ds)):
        A = ds[x]
        fa, la = first[A], last[A]
        for y in range(x + 1, len(ds)):
            B = ds[y]
            c = chain(A, B)
            if not c:
                continue
            if c < 0 and la > first[B]:
                return (first[B], la)
            if c > 0 and last[B] > fa:
                return (fa, last[B])
    return None
